// Package evid collects what a check covered and what it found, writes the
// evidence file, the replay files, and prints VIOLATION / KNOWN-FINDING lines.
package evid

import (
	"crypto/sha256"
	"encoding/hex"
	"encoding/json"
	"fmt"
	"os"
	"path/filepath"
	"regexp"
	"sort"
	"strings"
	"sync"
	"time"
)

var VerifDir = envOr("VERIF_DIR", "/verif")

// RepoDir is the tree under verification: /repo, unless VERIF_REPO names a scratch copy (used to
// try a property-breaking change without touching /repo; see altcheck.sh).
var RepoDir = envOr("VERIF_REPO", "/repo")

func envOr(k, d string) string {
	if v := os.Getenv(k); v != "" {
		return v
	}
	return d
}

// Failure is one oracle verdict against the implementation.
type Failure struct {
	Property string            `json:"property"`
	Clause   string            `json:"clause"`
	Sig      string            `json:"sig"`    // short normalised class of the failure (groups duplicates)
	Detail   string            `json:"detail"` // full message
	Family   string            `json:"family,omitempty"`
	Vector   []int             `json:"vector,omitempty"`
	Cost     int               `json:"cost"`
	Features []string          `json:"features,omitempty"`
	Files    map[string]string `json:"files,omitempty"`
	Expected string            `json:"expected,omitempty"`
	Observed string            `json:"observed,omitempty"`
	Extra    map[string]any    `json:"extra,omitempty"`
	// History, when set, lists the programs the same process evaluated before this one: the failure
	// only shows after them (state kept between analyses); a replay evaluates them first.
	History []Step `json:"history,omitempty"`
}

// Step is one program of a history.
type Step struct {
	Family string `json:"family"`
	Vector []int  `json:"vector"`
}

func (f *Failure) key() string { return f.Property + "|" + f.Clause + "|" + f.Sig }

// Known is an entry of known_findings.json.
type Known struct {
	Property    string   `json:"property"`
	Clause      string   `json:"clause"`                      // exact clause
	DetailRegex string   `json:"detail_regex"`                // matched against Sig + "\n" + Detail
	Features    []string `json:"required_features,omitempty"` // each a regex that must match some feature (or a file content, prefixed "src:")
	Description string   `json:"description"`
	Fixed       string   `json:"fixed,omitempty"` // "fixed: property=<id> <commit> <what failed>": suppresses nothing
}

func LoadKnown() []Known {
	b, err := os.ReadFile(filepath.Join(VerifDir, "known_findings.json"))
	if err != nil {
		return nil
	}
	var doc struct {
		Findings []Known `json:"findings"`
	}
	if err := json.Unmarshal(b, &doc); err != nil {
		fmt.Fprintln(os.Stderr, "known_findings.json:", err)
		os.Exit(2)
	}
	return doc.Findings
}

func (k Known) Matches(f *Failure) bool {
	if k.Fixed != "" || k.Property != f.Property || k.Clause != f.Clause {
		return false
	}
	if k.DetailRegex != "" {
		re := cachedRegexp(k.DetailRegex)
		if !re.MatchString(f.Sig + "\n" + f.Detail) {
			return false
		}
	}
	for _, req := range k.Features {
		re := cachedRegexp(strings.TrimPrefix(req, "src:"))
		ok := false
		if strings.HasPrefix(req, "src:") {
			for _, src := range f.Files {
				if re.MatchString(src) {
					ok = true
					break
				}
			}
		} else {
			for _, ft := range f.Features {
				if re.MatchString(ft) {
					ok = true
					break
				}
			}
		}
		if !ok {
			return false
		}
	}
	return true
}

// Report accumulates coverage and failures for one property.
type Report struct {
	mu          sync.Mutex
	Property    string
	Tier        string
	Seed        int64
	Start       time.Time
	Rule        string
	Assumptions []string

	Evaluations int
	States      map[string]bool // distinct canonical cases
	Nontrivial  map[string]bool // distinct nontrivial cases
	Transitions int
	TracesImpl  int
	Outcomes    map[string]int
	Samples     []any
	Bounds      map[string]any
	Exhaustive  bool
	Extra       map[string]any
	// StatesN / TransitionsN, when set, replace the counts derived from States / Transitions
	// (checks whose state space lives in another process: the CRUD BFS of C05).
	StatesN       int
	NontrivialN   int
	failures      map[string]*Failure
	known         []Known
	failCount     map[string]int
	InternalError []string
}

func NewReport(prop, tier string) *Report {
	seed := int64(0)
	fmt.Sscan(os.Getenv("VERIF_SEED"), &seed)
	return &Report{
		Property: prop, Tier: tier, Seed: seed, Start: time.Now(),
		States: map[string]bool{}, Nontrivial: map[string]bool{}, Outcomes: map[string]int{},
		Bounds: map[string]any{}, Extra: map[string]any{}, Exhaustive: true,
		failures: map[string]*Failure{}, failCount: map[string]int{},
	}
}

func Hash(parts ...string) string {
	h := sha256.New()
	for _, p := range parts {
		h.Write([]byte(p))
		h.Write([]byte{0})
	}
	return hex.EncodeToString(h.Sum(nil))[:16]
}

func (r *Report) State(key string, nontrivial bool) {
	r.mu.Lock()
	defer r.mu.Unlock()
	r.States[key] = true
	if nontrivial {
		r.Nontrivial[key] = true
	}
}

func (r *Report) Outcome(o string) {
	r.mu.Lock()
	r.Outcomes[o]++
	r.mu.Unlock()
}

func (r *Report) Sample(s any) {
	r.mu.Lock()
	if len(r.Samples) < 4 {
		r.Samples = append(r.Samples, s)
	}
	r.mu.Unlock()
}

// Fail records a failure; only the representative with the fewest deviations
// is kept per (clause, sig).
func (r *Report) Fail(f Failure) {
	r.mu.Lock()
	defer r.mu.Unlock()
	f.Property = r.Property
	k := f.key()
	// a failure that a known finding explains never stands for one it does not explain: the two
	// are kept apart even when clause and signature are the same
	if r.known == nil {
		r.known = LoadKnown()
		if r.known == nil {
			r.known = []Known{}
		}
	}
	for i, kn := range r.known {
		if kn.Matches(&f) {
			k += fmt.Sprintf("|known#%d", i)
			break
		}
	}
	r.failCount[k]++
	if old, ok := r.failures[k]; ok {
		if old.Cost < f.Cost || (old.Cost == f.Cost && len(fmt.Sprint(old.Vector)) <= len(fmt.Sprint(f.Vector))) {
			return
		}
	}
	ff := f
	r.failures[k] = &ff
}

func (r *Report) Internal(msg string) {
	r.mu.Lock()
	if len(r.InternalError) < 20 {
		r.InternalError = append(r.InternalError, msg)
	}
	r.mu.Unlock()
}

func (r *Report) Failures() []*Failure {
	var out []*Failure
	for _, f := range r.failures {
		out = append(out, f)
	}
	sort.Slice(out, func(i, j int) bool { return out[i].key() < out[j].key() })
	return out
}

// Finish writes the evidence and replay files, prints the verdict lines and
// returns the process exit code.
func (r *Report) Finish() int {
	known := LoadKnown()
	var violations []*Failure
	knownSeen := map[string]bool{}
	var knownList []string
	for _, f := range r.Failures() {
		matched := false
		for _, k := range known {
			if k.Matches(f) {
				matched = true
				if !knownSeen[k.Description] {
					knownSeen[k.Description] = true
					knownList = append(knownList, k.Description)
					fmt.Printf("KNOWN-FINDING: property=%s %s\n", r.Property, k.Description)
				}
				break
			}
		}
		if !matched {
			violations = append(violations, f)
		}
	}
	replayDir := filepath.Join(VerifDir, "replays", r.Property)
	os.RemoveAll(replayDir)
	var replayPaths []string
	for _, f := range violations {
		os.MkdirAll(replayDir, 0o755)
		b, _ := json.MarshalIndent(f, "", " ")
		p := filepath.Join(replayDir, Hash(f.key())+".json")
		os.WriteFile(p, b, 0o644)
		replayPaths = append(replayPaths, p)
		fmt.Printf("VIOLATION property=%s replay=%s\n", r.Property, p)
		fmt.Printf("  clause=%s cost=%d count=%d features=%v\n  %s\n", f.Clause, f.Cost, r.failCount[f.key()], f.Features, firstLines(f.Detail, 6))
	}
	cov := map[string]any{
		"states":                        max1(maxInt(len(r.States), r.StatesN)),
		"transitions":                   max1(r.Transitions),
		"traces_validated_against_impl": r.TracesImpl,
		"evaluations":                   r.Evaluations,
		"distinct_nontrivial":           maxInt(len(r.Nontrivial), r.NontrivialN),
		"rule":                          r.Rule,
		"samples":                       r.Samples,
		"exhaustive":                    r.Exhaustive,
		"bounds":                        r.Bounds,
		"outcomes":                      capOutcomes(r.Outcomes),
		"distinct_outcomes":             len(r.Outcomes),
		"known_findings_seen":           knownList,
		"violation_replays":             replayPaths,
	}
	if len(r.Samples) == 0 {
		cov["samples"] = []any{"(none)"}
	}
	for k, v := range r.Extra {
		cov[k] = v
	}
	if len(r.InternalError) > 0 {
		cov["internal_errors"] = r.InternalError
	}
	ev := map[string]any{
		"property_id": r.Property,
		"tier":        r.Tier,
		"seed":        r.Seed,
		"level":       "model_checking",
		"coverage":    cov,
		"assumptions": r.Assumptions,
		"wall_s":      time.Since(r.Start).Seconds(),
		"violations":  len(violations),
	}
	os.MkdirAll(filepath.Join(VerifDir, "evidence"), 0o755)
	b, _ := json.MarshalIndent(ev, "", " ")
	if err := os.WriteFile(filepath.Join(VerifDir, "evidence", r.Property+".json"), b, 0o644); err != nil {
		fmt.Fprintln(os.Stderr, "cannot write evidence:", err)
		return 2
	}
	fmt.Printf("%s tier=%s evaluations=%d states=%d nontrivial=%d transitions=%d outcomes=%d exhaustive=%v violations=%d known=%d wall=%.1fs\n",
		r.Property, r.Tier, r.Evaluations, maxInt(len(r.States), r.StatesN), maxInt(len(r.Nontrivial), r.NontrivialN), r.Transitions, len(r.Outcomes), r.Exhaustive, len(violations), len(knownList), time.Since(r.Start).Seconds())
	if len(r.InternalError) > 0 {
		for _, e := range r.InternalError {
			fmt.Fprintln(os.Stderr, "INTERNAL ERROR:", firstLines(e, 12))
		}
		return 2
	}
	if len(violations) > 0 {
		return 1
	}
	return 0
}

func maxInt(a, b int) int {
	if a > b {
		return a
	}
	return b
}

func max1(n int) int {
	if n < 1 {
		return 1
	}
	return n
}

func firstLines(s string, n int) string {
	l := strings.Split(s, "\n")
	if len(l) > n {
		l = append(l[:n], "...")
	}
	return strings.Join(l, "\n  ")
}

func capOutcomes(m map[string]int) map[string]int {
	if len(m) <= 60 {
		return m
	}
	keys := make([]string, 0, len(m))
	for k := range m {
		keys = append(keys, k)
	}
	sort.Slice(keys, func(i, j int) bool {
		if m[keys[i]] != m[keys[j]] {
			return m[keys[i]] > m[keys[j]]
		}
		return keys[i] < keys[j]
	})
	out := map[string]int{}
	rest := 0
	for i, k := range keys {
		if i < 60 {
			out[k] = m[k]
		} else {
			rest += m[k]
		}
	}
	out["(other outcomes)"] = rest
	return out
}

var (
	reCacheMu sync.Mutex
	reCache   = map[string]*regexp.Regexp{}
)

// cachedRegexp compiles each expression of known_findings.json once.
func cachedRegexp(expr string) *regexp.Regexp {
	reCacheMu.Lock()
	defer reCacheMu.Unlock()
	re, ok := reCache[expr]
	if !ok {
		re = regexp.MustCompile(expr)
		reCache[expr] = re
	}
	return re
}
