package fam

import (
	"fmt"
	"regexp"
	"sort"
	"strconv"
	"strings"

	"verif.test/mc/explore"
	"verif.test/mc/prog"
)

// F-tables (DESIGN §3.3): package models whose analysed file a.go contains the
// table structs; helper types live in b.go and in the sub package ext.

type colAlt struct {
	label string
	typ   string
	declB string // helper declarations (other file)
}

const tblDate = "type Date time.Time\n" + dateCompanions

const optDateMethods = `
func (s *OptDate) Scan(src interface{}) error {
	if src == nil {
		*s = OptDate{}
		return nil
	}
	t, ok := src.(time.Time)
	if !ok {
		return fmt.Errorf("OptDate: unexpected value %T", src)
	}
	*s = OptDate{D: Date(t), Valid: true}
	return nil
}

func (s OptDate) Value() (driver.Value, error) {
	if !s.Valid {
		return nil, nil
	}
	return time.Time(s.D), nil
}
`

func colAlts() []colAlt {
	return []colAlt{
		{label: "int", typ: "int"},
		{label: "bool", typ: "bool"},
		{label: "int8", typ: "int8"},
		{label: "int16", typ: "int16"},
		{label: "int32", typ: "int32"},
		{label: "int64", typ: "int64"},
		{label: "uint8", typ: "uint8"},
		{label: "uint16", typ: "uint16"},
		{label: "uint32", typ: "uint32"},
		{label: "float32", typ: "float32"},
		{label: "float64", typ: "float64"},
		{label: "string", typ: "string"},
		{label: "named-string", typ: "Title", declB: "type Title string\n"},
		{label: "named-int", typ: "Score", declB: "type Score int\n"},
		{label: "time.Time", typ: "time.Time"},
		{label: "Date", typ: "Date", declB: tblDate},
		{label: "Stamp", typ: "Stamp", declB: "type Stamp time.Time\n" + stampCompanions},
		{label: "Blob", typ: "Blob", declB: "type Blob []byte\n"},
		{label: "Tags", typ: "Tags", declB: "type Tags []string\n"},
		{label: "Ints", typ: "Ints", declB: "type Ints []int64\n"},
		{label: "SmallInts", typ: "SmallInts", declB: "type SmallInts []int16\n"},
		{label: "Floats", typ: "Floats", declB: "type Floats []float64\n"},
		{label: "Bools", typ: "Bools", declB: "type Bools []bool\n"},
		{label: "Roles", typ: "Roles", declB: "type Roles []Role\n"},
		{label: "Moods", typ: "Moods", declB: "type Moods []Mood\n"},
		{label: "Trio", typ: "Trio", declB: "type Trio [3]int\n"},
		{label: "Duo", typ: "Duo", declB: "type Duo [2]string\n"},
		{label: "RolePair", typ: "RolePair", declB: "type RolePair [2]Role\n"},
		{label: "Pos", typ: "Pos", declB: "type Pos struct {\n\tX, Y int\n}\n"},
		{label: "PosEnum", typ: "PosEnum", declB: "type PosEnum struct {\n\tA int16\n\tR Role\n}\n"},
		{label: "PosHidden", typ: "PosHidden", declB: "type PosHidden struct {\n\tA      int\n\thidden int\n\tB      int\n}\n"},
		{label: "ext.Pos", typ: "ext.Pos"},
		{label: "Empty", typ: "Empty", declB: "type Empty struct{}\n"},
		{label: "Profile", typ: "Profile", declB: "type Profile struct {\n\tNick  string `json:\"nick\"`\n\tAge   int\n\tLinks map[string]string\n\tTags  []string\n\tRole  Role\n\tAt    time.Time\n\tXY    [2]float64\n\tsecret int\n}\n"},
		// jsonb structs whose first (resp. middle) field is not written in JSON
		{label: "HiddenFirst", typ: "HiddenFirst", declB: "type HiddenFirst struct {\n\thidden int\n\tNick   string\n\tTags   []string\n}\n"},
		{label: "DashMiddle", typ: "DashMiddle", declB: "type DashMiddle struct {\n\tNick string\n\tSkip int `json:\"-\"`\n\tTags []string\n}\n"},
		// an embedded struct of unexported type with exported fields, inside a jsonb struct
		{label: "Stamped", typ: "Stamped", declB: "type audit struct {\n\tAuthor   string\n\tRevision int\n}\n\ntype Stamped struct {\n\taudit\n\tTitle string\n\tTags  []string\n}\n"},
		// integer exported fields and one ignored field that is not an integer
		{label: "PosLabel", typ: "PosLabel", declB: "type PosLabel struct {\n\tA     int\n\tB     int\n\tlabel string\n}\n"},
		// named slice / array of an enum backed by int64 / int32
		{label: "Levels64", typ: "Levels64", declB: "type Level64 int64\n\nconst (\n\tL64a Level64 = iota\n\tL64b\n)\n\ntype Levels64 []Level64\n"},
		{label: "Levels32x3", typ: "Levels32x3", declB: "type Level32 int32\n\nconst (\n\tL32a Level32 = iota\n\tL32b\n)\n\ntype Levels32x3 [3]Level32\n"},
		// a field written under the key "-" in a jsonb struct
		{label: "DashKey", typ: "DashKey", declB: "type DashKey struct {\n\tNick string\n\tOdd  int `json:\"-,\"`\n\tTags []string\n}\n"},
		// a union member that has the marker method only through an embedded member
		{label: "Sketch", typ: "Sketch", declB: tblUnion + "\ntype Disc struct {\n\tCircle\n\tTint string\n}\n\ntype Sketch struct {\n\tMain Shape\n\tNote string\n}\n"},
		// a composite with a field whose type prints itself (fmt.Stringer)
		{label: "PosTone", typ: "PosTone", declB: "type Tone uint8\n\nconst (\n\tDark Tone = iota\n\tLight\n)\n\nfunc (t Tone) String() string {\n\tif t == Dark {\n\t\treturn \"Dark\"\n\t}\n\treturn \"Light\"\n}\n\ntype PosTone struct {\n\tA int\n\tT Tone\n}\n"},
		// a type whose validation function name is longer than an SQL identifier may be
		{label: "LongName", typ: "OpeningHoursExceptionDuringPublicHolidays", declB: "type OpeningHoursExceptionDuringPublicHolidays struct {\n\tLabel string\n\tTags  []string\n}\n"},
		{label: "Attrs", typ: "Attrs", declB: "type Attrs map[string]int\n"},
		{label: "Profiles", typ: "Profiles", declB: "type Profiles []Pos2\n\ntype Pos2 struct {\n\tLabel string\n\tX     int\n}\n"},
		{label: "Shape", typ: "Shape", declB: tblUnion},
		{label: "Shapes", typ: "Shapes", declB: tblUnion + "\ntype Shapes []Shape\n"},
		{label: "Drawing", typ: "Drawing", declB: tblUnion + "\ntype Drawing struct {\n\tMain  Shape\n\tMood  Mood\n\tRank  Role\n\tNote  string `json:\"note,omitempty\"`\n\tCount int `json:\",omitempty\"`\n\tExtra map[string]Circle\n}\n"},
		// unions whose members all share one validation function: two named floats; a single member
		{label: "Measure", typ: "Measure", declB: "type Quantity interface {\n\tisQuantity()\n}\n\ntype Celsius float64\n\ntype Meters float64\n\nfunc (Celsius) isQuantity() {}\nfunc (Meters) isQuantity()  {}\n\ntype Measure struct {\n\tQ     Quantity\n\tLabel string\n}\n"},
		{label: "SoloBox", typ: "SoloBox", declB: "type Solo interface {\n\tisSolo()\n}\n\ntype Only struct {\n\tV int\n}\n\nfunc (Only) isSolo() {}\n\ntype SoloBox struct {\n\tS     Solo\n\tLabel string\n}\n"},
		{label: "Scene", typ: "Scene", declB: tblUnion + "\ntype Drawable interface {\n\tisDrawable()\n}\n\ntype Text struct {\n\tS string\n}\n\nfunc (Circle) isDrawable() {}\nfunc (Text) isDrawable()   {}\n\ntype Drawables []Drawable\n\ntype Scene struct {\n\tMain  Shape\n\tExtra Drawables\n}\n"},
		{label: "sql.NullInt64", typ: "sql.NullInt64"},
		{label: "sql.NullString", typ: "sql.NullString"},
		{label: "sql.NullTime", typ: "sql.NullTime"},
		{label: "sql.NullBool", typ: "sql.NullBool"},
		{label: "sql.NullFloat64", typ: "sql.NullFloat64"},
		{label: "OptIdTeam", typ: "OptIdTeam", declB: "type OptIdTeam struct {\n\tValid bool\n\tID    IdTeam\n}\n"},
		{label: "OptIdTeam-reversed", typ: "OptIdTeam", declB: "type OptIdTeam struct {\n\tID    IdTeam\n\tValid bool\n}\n"},
		{label: "OptTags", typ: "OptTags", declB: "type OptTags struct {\n\tValid bool\n\tL     []string\n}\n"},
		{label: "OptDate", typ: "OptDate", declB: tblDate + "\ntype OptDate struct {\n\tD     Date\n\tValid bool\n}\n"},
		// the same wrapper with Scan and Value written by hand (sqlcrud writes them only for wrappers around ids)
		{label: "OptDate-methods", typ: "OptDate", declB: tblDate + "\ntype OptDate struct {\n\tD     Date\n\tValid bool\n}\n" + optDateMethods},
		{label: "Role", typ: "Role"},
		{label: "Mood", typ: "Mood"},
		{label: "ext.Level", typ: "ext.Level"},
		{label: "[]string", typ: "[]string"},
		{label: "[]byte", typ: "[]byte"},
		{label: "map[string]int", typ: "map[string]int"},
		{label: "BirthDate", typ: "BirthDate", declB: "type BirthDate time.Time\n" + birthCompanions},
	}
}

const tblUnion = "type Shape interface {\n\tisShape()\n}\n\ntype Circle struct {\n\tR int\n}\n\ntype Rect struct {\n\tW, H float64\n\tNote string `json:\"note\"`\n}\n\ntype Path []int\n\nfunc (Circle) isShape() {}\nfunc (Rect) isShape()   {}\nfunc (Path) isShape()   {}\n"

var userDirectives = []string{
	"",
	"// gomacro:SQL ADD UNIQUE(Name)",
	"// gomacro:SQL ADD UNIQUE(Name, Role)",
	"// gomacro:SQL ADD CHECK(Role = #[Role.Admin] OR Name <> 'x')",
	"// gomacro:SQL ADD CHECK(Mood <> #[Mood.Sad])",
	"// gomacro:SQL ADD CHECK(Mood <> #[Mood.Named] OR Name = 'x')",
	"// gomacro:QUERY NameUsers UPDATE User SET Mood = #[Mood.Named] WHERE Mood = $m$",
	"// gomacro:SQL ADD CHECK(Name <> 'User' AND Name <> 'IdUser' AND UserName <> Name)",
	"// gomacro:SQL ADD CONSTRAINT User_name CHECK (Name <> '')",
	"// gomacro:SQL CREATE INDEX idx_name ON User (Name)",
	"// gomacro:SQL _SELECT KEY(Name)",
	"// gomacro:SQL _SELECT KEY(Name, Role)",
	"// gomacro:QUERY RenameUser UPDATE User SET Name = $name$ WHERE Id = $id$",
	"// gomacro:QUERY TouchUser UPDATE User SET Name = $v$ WHERE Name = $v$ AND Role = $role$",
	"// gomacro:QUERY ResetUsers UPDATE User SET Role = #[Role.Member] WHERE Role = $old$",
	"// gomacro:SQL ADD UNIQUE(Name)\n// gomacro:SQL ADD CHECK(Role = #[Role.Admin] OR Role = #[Role.Member])",
	"// gomacro:SQL ADD UNIQUE(Role)\n// gomacro:QUERY CleanUsers DELETE FROM User WHERE Role = $r$",
	"// gomacro:SQL ADD UNIQUE(Name)\n// gomacro:SQL ADD UNIQUE(Mood)",
	// a placeholder used twice with another one in between
	"// gomacro:QUERY RetouchUser UPDATE User SET Name = $v$, Role = $role$ WHERE Name = $v$",
	// an argument compared with a time.Time column
	"// gomacro:QUERY SeenUsers UPDATE User SET Name = $n$ WHERE Seen = $since$",
	// a query naming, as a whole word, a table struct declared after the one carrying the comment
	"// gomacro:QUERY DropOrphans DELETE FROM Membership WHERE IdUser = 0",
	// the select key directive is matched case-insensitively
	"// gomacro:SQL _select key(Name)",
	// `field = $name$` is matched with any run of blanks (none, several, tabs) around the sign
	"// gomacro:QUERY SquashUser UPDATE User SET Name=$name$ WHERE Role  =  $role$",
	"// gomacro:QUERY TabUser UPDATE User SET Name =\t$n$ WHERE Role\t= $r$ AND Id=$id$",
}

var linkDirectives = []string{
	"",
	"// gomacro:SQL ADD UNIQUE(IdUser, IdTeam)",
	"// gomacro:SQL ADD PRIMARY KEY(IdUser, IdTeam)",
	"// gomacro:SQL ADD UNIQUE(IdUser)",
	"// gomacro:SQL _SELECT KEY(IdUser)",
	"// gomacro:SQL _SELECT KEY(IdTeam, IdUser)",
	"// gomacro:SQL ADD FOREIGN KEY (IdTeam, IdUser) REFERENCES Team ON DELETE CASCADE",
	"// gomacro:SQL ADD CHECK(IdUser <> IdTeam OR Membership IS NULL)",
	"// gomacro:QUERY MoveMembers UPDATE Membership SET IdTeam = $to$ WHERE IdTeam = $from$",
	// two REFERENCES clauses in one statement, the second one naming a table declared elsewhere
	"// gomacro:SQL ADD FOREIGN KEY (IdTeam) REFERENCES Team, ADD FOREIGN KEY (IdUser) REFERENCES PersonArchive",
	"// gomacro:SQL _Select Key(IdTeam, IdUser)",
	"// gomacro:QUERY ShiftMembers UPDATE Membership SET IdTeam=$to$ WHERE IdUser   =   $who$",
}

// Tables is the F-tables family.
func Tables(c explore.Chooser) *prog.Program { return TablesWith(c, "") }

// TablesJSON is F-tables with a jsonb column (a struct holding a union, an enum and a map) as
// the default slot column, so that value deviations are not spent on reaching a jsonb column.
func TablesJSON(c explore.Chooser) *prog.Program { return TablesWith(c, "Drawing") }

func TablesWith(c explore.Chooser, defaultCol string) *prog.Program {
	s := &S{C: c}
	rootPath := prog.Base() + "/models"
	extPath := rootPath + "/ext"

	idName := s.Pick("user.id.name", "Id", "ID", "id", "absent")
	idType := s.Pick("user.id.type", "IdUser", "int64", "UserId")
	alts := colAlts()
	if defaultCol != "" {
		for i, a := range alts {
			if a.label == defaultCol {
				alts[0], alts[i] = alts[i], alts[0]
			}
		}
	}
	ci := s.C.Choose("col.type", len(alts))
	col := alts[ci]
	if ci != 0 {
		s.Feats = append(s.Feats, "col.type="+col.label)
	}
	colTag := s.Pick("col.tag", "", "`json:\"slot\"`", "`json:\"-\"`", "`gomacro:\"ignore\"`", "`json:\"s,omitempty\"`")
	colName := s.Pick("col.name", "Slot", "slot", "SlotValue", "X")
	fkForm := s.Pick("fk.form", "id-type-prefix", "id-type-suffix", "tag-int64", "tag-nullable", "nullable-wrapper-no-tag", "self-reference", "unknown-target", "self-reference-tagged")
	onDelete := s.Pick("fk.on-delete", "", "CASCADE", "SET NULL")
	guard := s.Pick("guard", "none", "literal", "enum-placeholder", "unexported-literal", "string-enum-placeholder", "literal-before-id", "two-literals")
	userDir := s.Pick("user.directive", userDirectives...)
	linkDir := s.Pick("link.directive", linkDirectives...)
	style := s.Pick("decl.style", "separate", "grouped-spec-docs", "grouped-group-doc", "plain-comment-between", "directive-on-neighbour", "comment-after-directive", "same-directive-on-two")
	tableName := s.Pick("name.table", "User", "UserAccount", "U", "HTTPLog", "Log2Entry", "Address", "userData", "Point2D", "Api2HTTPLog")
	extraFK := s.Pick("user.extra-fk", "none", "team", "team-unique", "team-unique-nullable", "team-unique-wrapper")
	teamSlot := s.Pick("team.slot", "none", "same-column")
	roleForm := s.Pick("role.form", "unexported-tail", "unexported-sentinel", "unexported-duplicate")
	dirtyFirst := s.Pick("user.unexported-first", "no", "yes")
	linkCol := s.Pick("link.extra-col", "none", "composite", "array", "json")
	keyColName := s.Pick("name.key-column", "Name", "Émail")
	linkName := s.Pick("name.link", "Membership", "URLMember")
	// the helper package named like the analysed package (models importing models/models)
	// a string enum value with a character that SQL or Go quoting treats specially
	sadValue := s.Pick("mood.sad-value", `sa d`, `can't`, `so "so"`, `up\down`)
	// the JSON name of the key column differs from its field name
	keyColTag := s.Pick("name.key-tag", "", " `json:\"full_name\"`")
	if keyColTag != "" && userDir == "" {
		// the tag only matters to the by-unique / by-key functions: ask for them in the same deviation
		userDir = "// gomacro:SQL ADD UNIQUE(Name)\n// gomacro:SQL _SELECT KEY(Name, Role)"
	}
	extName := s.Pick("ext.pkgname", "ext", "models")
	extPath = rootPath + "/" + extName

	var b, ext strings.Builder
	b.WriteString("type IdUser int64\n\ntype UserId int64\n\ntype IdTeam int64\n\ntype TeamId int64\n\ntype IdGhost int64\n\n")
	switch roleForm {
	case "unexported-tail":
		b.WriteString("type Role uint8\n\nconst (\n\tOwner Role = iota // the names are not in value order\n\tAdmin             // administrator\n\tMember\n\tguest\n)\n\n")
	case "unexported-sentinel": // exported members are 0,1 (iota-like); the unexported one is far away
		b.WriteString("type Role uint8\n\nconst (\n\tOwner Role = iota\n\tAdmin             // administrator\n\tMember\n)\n\nconst guest Role = 100\n\n")
	case "unexported-duplicate":
		b.WriteString("type Role uint8\n\nconst (\n\tOwner Role = iota\n\tAdmin             // administrator\n\tMember\n\tSenior\n)\n\nconst guest = Member\n\n")
	}
	b.WriteString("type Mood string\n\nconst (\n\tHappy Mood = \"happy\"\n\tSad   Mood = " + strconv.Quote(sadValue) + "\n\tNamed Mood = \"User\" // a value spelled like a table struct\n\tWordy Mood = \"a mood whose description is so long that it does not fit in seventy-two characters at all\"\n)\n\n")
	b.WriteString(col.declB)
	b.WriteString("\n")
	ext.WriteString("type Pos struct {\n\tLat, Lng int32\n}\n\ntype Level int\n\nconst (\n\tLow Level = iota + 1\n\tHigh\n)\n\ntype IdRemote int64\n")

	// ---- User
	var uf []string
	if idName != "absent" {
		uf = append(uf, fmt.Sprintf("\t%s %s", idName, idType))
	}
	if dirtyFirst == "yes" { // an unexported field that is not a guard, declared before the id
		uf = append([]string{"\tdirty bool"}, uf...)
	}
	uf = append(uf, "\tName string"+keyColTag, "\tRole Role", "\tMood Mood", "\tSeen time.Time")
	uf = append(uf, fmt.Sprintf("\t%s %s %s", colName, col.typ, colTag))
	switch guard {
	case "literal-before-id":
		uf = append([]string{"\tKind int `gomacro-sql-guard:\"7\"`"}, uf...)
	case "two-literals":
		uf = append(uf, "\tKind int `gomacro-sql-guard:\"7\"`", "\tVersion int `gomacro-sql-guard:\"9\"`")
	case "literal":
		uf = append(uf, "\tKind int `gomacro-sql-guard:\"7\"`")
	case "enum-placeholder":
		uf = append(uf, "\tKind Role `gomacro-sql-guard:\"#[Role.Member]\"`")
	case "unexported-literal":
		uf = append(uf, "\tkind int `gomacro-sql-guard:\"7\"`")
	case "string-enum-placeholder":
		uf = append(uf, "\tKind Mood `gomacro-sql-guard:\"#[Mood.Happy]\"`")
	}
	od := ""
	if onDelete != "" {
		od = fmt.Sprintf(" gomacro-sql-on-delete:\"%s\"", onDelete)
	}
	switch extraFK {
	case "team":
		uf = append(uf, "\tIdTeam IdTeam")
	case "team-unique-nullable", "team-unique-wrapper":
		if extraFK == "team-unique-nullable" {
			uf = append(uf, "\tIdTeam sql.NullInt64 `gomacro-sql-foreign:\"Team\"`")
		} else {
			b.WriteString("type OptTeamU struct {\n\tValid bool\n\tID    IdTeam\n}\n\n")
			uf = append(uf, "\tIdTeam OptTeamU `gomacro-sql-foreign:\"Team\"`")
		}
		if userDir == "" {
			userDir = "// gomacro:SQL ADD UNIQUE(IdTeam)"
		} else {
			userDir += "\n// gomacro:SQL ADD UNIQUE(IdTeam)"
		}
	case "team-unique":
		uf = append(uf, "\tIdTeam IdTeam")
		if userDir == "" {
			userDir = "// gomacro:SQL ADD UNIQUE(IdTeam)"
		} else {
			userDir += "\n// gomacro:SQL ADD UNIQUE(IdTeam)"
		}
	}
	if fkForm == "self-reference" {
		uf = append(uf, "\tParent IdUser")
	}
	if fkForm == "self-reference-tagged" {
		uf = append(uf, "\tParent IdUser `gomacro-sql-foreign:\"User\""+od+"`")
	}
	user := "type User struct {\n" + strings.Join(uf, "\n") + "\n}"

	// ---- Team
	team := "type Team struct {\n\tId    IdTeam\n\tLabel string\n}"
	if teamSlot == "same-column" {
		// a second table with a column of the same name and type as User's slot column
		team = fmt.Sprintf("type Team struct {\n\tId    IdTeam\n\tLabel string\n\t%s %s %s\n}", colName, col.typ, colTag)
	}

	// ---- Membership (link table)
	var mf []string
	mf = append(mf, "\tIdUser IdUser")
	tagOD := ""
	if od != "" {
		tagOD = " `" + strings.TrimSpace(od) + "`"
	}
	switch fkForm {
	case "id-type-prefix", "self-reference", "self-reference-tagged":
		mf = append(mf, "\tIdTeam IdTeam"+tagOD)
	case "id-type-suffix":
		mf = append(mf, "\tIdTeam TeamId"+tagOD)
	case "tag-int64":
		mf = append(mf, "\tIdTeam int64 `gomacro-sql-foreign:\"Team\""+od+"`")
	case "tag-nullable":
		mf = append(mf, "\tIdTeam sql.NullInt64 `gomacro-sql-foreign:\"Team\""+od+"`")
	case "nullable-wrapper-no-tag":
		b.WriteString("type OptTeam struct {\n\tValid bool\n\tID    IdTeam\n}\n\n")
		mf = append(mf, "\tIdTeam OptTeam"+tagOD)
	case "unknown-target":
		mf = append(mf, "\tIdTeam IdGhost"+tagOD)
	case "sub-package-id":
		mf = append(mf, "\tIdTeam ext.IdRemote"+tagOD)
	}
	mf = append(mf, "\tSince time.Time")
	switch linkCol {
	case "composite": // a composite column in a table without primary key (written through COPY)
		b.WriteString("type Spot struct {\n\tRow, Seat int\n}\n\n")
		mf = append(mf, "\tSpot Spot")
	case "array":
		b.WriteString("type Marks []int64\n\n")
		mf = append(mf, "\tMarks Marks")
	case "json":
		b.WriteString("type Rights map[string]bool\n\n")
		mf = append(mf, "\tRights Rights")
	}
	member := "type Membership struct {\n" + strings.Join(mf, "\n") + "\n}"

	doc := func(d, decl string) string {
		if d == "" {
			return decl
		}
		return d + "\n" + decl
	}
	var a strings.Builder
	switch style {
	case "separate":
		a.WriteString(doc(userDir, user) + "\n\n" + team + "\n\n" + doc(linkDir, member) + "\n")
	case "grouped-spec-docs":
		a.WriteString("type (\n" + indent(doc(userDir, strings.TrimPrefix(user, "type "))) + "\n\n" + indent(strings.TrimPrefix(team, "type ")) + "\n\n" + indent(doc(linkDir, strings.TrimPrefix(member, "type "))) + "\n)\n")
	case "grouped-group-doc":
		// the directive documents the group: it belongs to no struct in particular
		a.WriteString("// Tables of the application.\ntype (\n" + indent(doc(userDir, strings.TrimPrefix(user, "type "))) + "\n\n" + indent(strings.TrimPrefix(team, "type ")) + "\n\n" + indent(doc(linkDir, strings.TrimPrefix(member, "type "))) + "\n)\n")
	case "plain-comment-between":
		a.WriteString(doc(joinDoc("// User is an account.", userDir), user) + "\n\n" + team + "\n\n" + doc(joinDoc(linkDir, "// Membership links users and teams."), member) + "\n")
	case "directive-on-neighbour":
		// the directives are on Team (which has columns Id, Label only): keep only those that make sense there
		a.WriteString(user + "\n\n" + doc("// gomacro:SQL ADD UNIQUE(Label)", team) + "\n\n" + doc(linkDir, member) + "\n")
	case "same-directive-on-two":
		// two structs carry the very same comment text: each table gets its own constraint
		a.WriteString(doc(joinDoc(userDir, "// gomacro:SQL ADD CHECK(1 = 1)"), user) + "\n\n" + doc("// gomacro:SQL ADD CHECK(1 = 1)", team) + "\n\n" + doc(linkDir, member) + "\n")
	case "comment-after-directive":
		a.WriteString(doc(joinDoc(userDir, "//\n// Deprecated: use Account."), user) + "\n\n" + team + "\n\n" + doc(linkDir, member) + "\n")
	}

	rename := map[string]string{}
	if keyColName != "Name" {
		// a field name starting with a letter written on two bytes (the key / unique column of the directives)
		rename["Name"] = keyColName
	}
	if linkName != "Membership" {
		// a link table (the only kind written through COPY, with a quoted name) whose name starts with a run of capitals
		rename["Membership"] = linkName
	}
	if tableName != "User" {
		rename["User"] = tableName
		rename["IdUser"] = "Id" + tableName
		rename["UserId"] = tableName + "Id"
	}
	finish := func(pkgName, body string, isExt bool) string {
		for from, to := range rename {
			body = regexp.MustCompile(`\b`+from+`\b`).ReplaceAllString(body, to)
		}
		var imps []string
		for q, path := range map[string]string{"time.": "time", "sql.": "database/sql", "driver.": "database/sql/driver", "fmt.": "fmt"} {
			if regexp.MustCompile(`\b` + regexp.QuoteMeta(q)).MatchString(body) {
				imps = append(imps, fmt.Sprintf("\t%q", path))
			}
		}
		if !isExt && regexp.MustCompile(`\bext\.`).MatchString(body) {
			imps = append(imps, fmt.Sprintf("\t%q", extPath))
			body = regexp.MustCompile(`\bext\.`).ReplaceAllString(body, extName+".")
		}
		sort.Strings(imps)
		hdr := "package " + pkgName + "\n\n"
		if len(imps) > 0 {
			hdr += "import (\n" + strings.Join(imps, "\n") + "\n)\n\n"
		}
		return hdr + body
	}
	p := &prog.Program{Family: "F-tables", Analysed: []string{"a.go"}, Features: s.Feats}
	p.Pkgs = append(p.Pkgs, &prog.Pkg{Path: extPath, Name: extName, Files: []prog.File{{Name: "ext.go", Src: finish(extName, ext.String(), true)}}})
	p.Pkgs = append(p.Pkgs, &prog.Pkg{Path: rootPath, Name: "models", Files: []prog.File{
		{Name: "a.go", Src: finish("models", a.String(), false)},
		{Name: "b.go", Src: finish("models", b.String(), false)},
	}})
	p.Notes = map[string]string{"col": col.label, "style": style}
	return p
}

func joinDoc(a, b string) string {
	switch {
	case a == "":
		return b
	case b == "":
		return a
	}
	return a + "\n" + b
}
