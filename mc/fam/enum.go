// Package fam holds the program families (synthesisers) of DESIGN §3.3.
package fam

import (
	"fmt"
	"strings"

	"verif.test/mc/explore"
	"verif.test/mc/prog"
)

// S wraps a chooser and records the names of the non-default choices.
type S struct {
	C     explore.Chooser
	Feats []string
}

// Pick asks for one of the alternatives (the first is the default).
func (s *S) Pick(site string, alts ...string) string {
	i := s.C.Choose(site, len(alts))
	if i != 0 {
		s.Feats = append(s.Feats, site+"="+alts[i])
	}
	return alts[i]
}

func (s *S) N(site string, n int) int {
	i := s.C.Choose(site, n)
	if i != 0 {
		s.Feats = append(s.Feats, fmt.Sprintf("%s=%d", site, i))
	}
	return i
}

func (s *S) Bool(site string) bool { return s.N(site, 2) == 1 }

// ---------------------------------------------------------------------------------------------
// F-enum

type enumMember struct {
	name    string
	val     string // explicit value literal (explicit styles)
	comment string // trailing comment text without the slashes, "" for none
}

func lowerFirst(s string) string { return strings.ToLower(s[:1]) + s[1:] }

var enumValues = map[string][]string{
	"int":     {"0", "1", "2", "-1", "3", "5"},
	"uint8":   {"0", "1", "2", "7", "3", "5"},
	"int64":   {"0", "1", "2", "-1", "3", "5"},
	"string":  {`"a"`, `"b"`, `"c"`, `""`, `"a b"`, `"é"`},
	"bool":    {"true", "false", "true", "false", "true", "false"},
	"float64": {"0", "1.5", "2", "-1", "0.25", "5"},
}

func isIntKind(k string) bool { return k == "int" || k == "uint8" || k == "int64" }

// enumGroup prints one const group of type tname.
func enumGroup(style, tname, kind string, ms []enumMember, g int) string {
	cm := func(m enumMember) string {
		if m.comment == "" {
			return ""
		}
		return " // " + m.comment
	}
	var b strings.Builder
	if !isIntKind(kind) {
		switch style {
		case "iota", "iota-expr", "shift", "blank", "alias-member", "iota-plus1":
			style = "explicit"
		}
	}
	switch style {
	case "iota", "iota-expr", "shift", "iota-plus1", "blank", "alias-member":
		expr := map[string]string{"iota": "iota", "iota-expr": "-1 + iota", "shift": "1 << iota", "iota-plus1": "iota + 1", "blank": "iota", "alias-member": "iota"}[style]
		if kind == "uint8" && style == "iota-expr" {
			expr = "iota * 2"
		}
		b.WriteString("const (\n")
		for i, m := range ms {
			if i == 0 {
				fmt.Fprintf(&b, "\t%s %s = %s%s\n", m.name, tname, expr, cm(m))
			} else {
				fmt.Fprintf(&b, "\t%s%s\n", m.name, cm(m))
			}
			if i == 0 && style == "blank" {
				b.WriteString("\t_\n")
			}
		}
		if style == "alias-member" {
			fmt.Fprintf(&b, "\n\tdflt%s%d = %s\n", tname, g, ms[0].name)
		}
		b.WriteString(")\n")
	case "explicit":
		b.WriteString("const (\n")
		for _, m := range ms {
			fmt.Fprintf(&b, "\t%s %s = %s%s\n", m.name, tname, m.val, cm(m))
		}
		b.WriteString(")\n")
	case "single":
		for _, m := range ms {
			fmt.Fprintf(&b, "const %s %s = %s%s\n", m.name, tname, m.val, cm(m))
		}
	case "multi-name":
		// A, B T = v0, v1 ; the rest as single lines
		if len(ms) >= 2 {
			fmt.Fprintf(&b, "const %s, %s %s = %s, %s%s\n", ms[0].name, ms[1].name, tname, ms[0].val, ms[1].val, cm(ms[0]))
			for _, m := range ms[2:] {
				fmt.Fprintf(&b, "const %s %s = %s%s\n", m.name, tname, m.val, cm(m))
			}
		} else {
			for _, m := range ms {
				fmt.Fprintf(&b, "const %s %s = %s%s\n", m.name, tname, m.val, cm(m))
			}
		}
	case "multi-name-block":
		b.WriteString("const (\n")
		if len(ms) >= 2 {
			fmt.Fprintf(&b, "\t%s, %s %s = %s, %s%s\n", ms[0].name, ms[1].name, tname, ms[0].val, ms[1].val, cm(ms[0]))
			for _, m := range ms[2:] {
				fmt.Fprintf(&b, "\t%s %s = %s%s\n", m.name, tname, m.val, cm(m))
			}
		}
		b.WriteString(")\n")
	case "conversion":
		b.WriteString("const (\n")
		for _, m := range ms {
			fmt.Fprintf(&b, "\t%s = %s(%s)%s\n", m.name, tname, m.val, cm(m))
		}
		b.WriteString(")\n")
	default:
		panic("style " + style)
	}
	return b.String()
}

var enumStyles = []string{"iota", "explicit", "single", "iota-expr", "shift", "iota-plus1", "blank", "alias-member", "multi-name", "multi-name-block", "conversion"}

// enumType synthesises the declaration of one candidate type with its const groups.
// prefix makes the constant names unique per type.
func enumType(s *S, site, tname, prefix string, defKind string) (decl string) {
	kinds := []string{"int", "uint8", "int64", "string", "bool", "float64"}
	// put defKind first
	ordered := []string{defKind}
	for _, k := range kinds {
		if k != defKind {
			ordered = append(ordered, k)
		}
	}
	kind := s.Pick(site+".kind", ordered...)
	var b strings.Builder
	fmt.Fprintf(&b, "type %s %s\n\n", tname, kind)
	ngroups := s.Pick(site+".groups", "1", "0", "2")
	names := [][]string{{"A", "B", "C"}, {"D", "E"}}
	defStyle := []string{"iota", "explicit"}
	valOffset := []int{0, 3}
	ng := map[string]int{"0": 0, "1": 1, "2": 2}[ngroups]
	for g := 0; g < ng; g++ {
		gs := fmt.Sprintf("%s.g%d", site, g)
		styles := append([]string{defStyle[g]}, without(enumStyles, defStyle[g])...)
		style := s.Pick(gs+".style", styles...)
		var ms []enumMember
		for i, n := range names[g] {
			ms2 := fmt.Sprintf("%s.m%d", gs, i)
			name := prefix + n
			if s.Bool(ms2 + ".unexported") {
				name = lowerFirst(name)
			}
			vals := enumValues[kind]
			// default value: distinct increasing (index valOffset+i), alternatives: the others
			def := (valOffset[g] + i) % len(vals)
			order := []string{vals[def]}
			for k, v := range vals {
				if k != def {
					order = append(order, v)
				}
			}
			val := order[0]
			if explicitStyle(style, kind) {
				val = s.Pick(ms2+".val", order...)
			}
			cmt := s.Pick(ms2+".comment", "", "label of "+n, "gomacro:no-enum", "legacy gomacro:no-enum value")
			ms = append(ms, enumMember{name: name, val: val, comment: cmt})
		}
		b.WriteString(enumGroup(style, tname, kind, ms, g))
		b.WriteString("\n")
	}
	return b.String()
}

func explicitStyle(style, kind string) bool {
	if !isIntKind(kind) {
		return true
	}
	switch style {
	case "explicit", "single", "multi-name", "multi-name-block", "conversion":
		return true
	}
	return false
}

func without(l []string, x string) []string {
	var out []string
	for _, v := range l {
		if v != x {
			out = append(out, v)
		}
	}
	return out
}

// Enum is the F-enum family.
func Enum(c explore.Chooser) *prog.Program {
	s := &S{C: c}
	rootPath := prog.Base() + "/enums"
	subPath := rootPath + "/sub"

	loc := s.Pick("T1.loc", "analysed-file", "other-file", "sub-package", "both-packages", "module-root-package", "sub-package-constants-only-in-root", "foreign-constant-and-homonym", "sub-package-diamond")
	t1 := enumType(s, "T1", "Level", "Lv", "int")
	second := s.Pick("T2", "absent", "present", "present-in-sub", "present-in-same-named-package")
	t2 := ""
	if second != "absent" {
		t2 = enumType(s, "T2", "Mode", "Md", "string")
	}
	reexport := s.Pick("root-const-of-sub-enum", "no", "yes")
	aliasOther := s.Pick("alias-constant-in-other-file", "no", "yes")
	reach := s.Pick("reach", "field", "slice-elem", "map-key", "map-value", "named-slice", "top-level-only")

	var a, bfile, sub strings.Builder
	a.WriteString("package enums\n\n")
	bfile.WriteString("package enums\n\n")
	sub.WriteString("package sub\n\n")

	t1ref := "Level"
	needSub := false
	needMid := false
	modRoot := ""
	switch loc {
	case "analysed-file":
		a.WriteString(t1)
	case "other-file":
		bfile.WriteString(t1)
	case "sub-package":
		sub.WriteString(t1)
		t1ref = "sub.Level"
		needSub = true
	case "sub-package-diamond":
		// the package of the enum is imported twice: directly and through the package mid
		sub.WriteString(t1)
		t1ref = "sub.Level"
		needSub = true
		needMid = true
	case "sub-package-constants-only-in-root":
		// the type has no constant in its own package; the importing package declares one
		sub.WriteString("type Level int\n\n")
		a.WriteString("const DefaultLevel sub.Level = 1\n\n")
		t1ref = "sub.Level"
		needSub = true
	case "foreign-constant-and-homonym":
		// as above, and the importing package also declares a type of the same bare name (its own, without constants)
		sub.WriteString("type Level int\n\n")
		a.WriteString("type Level string\n\nconst DefaultLevel sub.Level = 1\n\n")
		t1ref = "sub.Level"
		needSub = true
	case "module-root-package":
		// the package whose import path is exactly the two-element prefix of the tree
		modRoot = "package proj\n\n" + t1
		t1ref = "proj.Level"
	case "both-packages":
		a.WriteString(t1)
		// same type name, its own constants, in the sub package
		sub.WriteString("type Level int\n\nconst (\n\tSubLow Level = iota + 1 // low\n\tSubHigh\n)\n\n")
		needSub = true
	}
	t2ref := ""
	needTwin := false
	switch second {
	case "present":
		a.WriteString(t2)
		t2ref = "Mode"
	case "present-in-sub":
		sub.WriteString(t2)
		t2ref = "sub.Mode"
		needSub = true
	case "present-in-same-named-package":
		// two imported packages share the package name "sub": .../enums/sub and .../enums/twin/sub
		sub.WriteString("type Tag int\n\nconst (\n\tTagA Tag = iota // first tag\n\tTagB\n)\n\n")
		needSub = true
		needTwin = true
		t2ref = "twin.Mode"
	}

	if reexport == "yes" && loc == "sub-package" && strings.Contains(t1, "LvB") {
		// the importing package declares a typed constant of the enum of the sub package
		a.WriteString("const DefaultLevel = sub.LvB\n\n")
	}
	if aliasOther == "yes" && loc == "analysed-file" && strings.Contains(t1, "LvA") {
		// an unexported constant equal to LvA, declared in the other file of the package
		bfile.WriteString("const dfltLevel = LvA\n\n")
	}
	var fields []string
	addRef := func(fname, ref string) {
		switch reach {
		case "field", "top-level-only":
			fields = append(fields, fmt.Sprintf("\t%s %s", fname, ref))
		case "slice-elem":
			fields = append(fields, fmt.Sprintf("\t%s []%s", fname, ref))
		case "map-key":
			fields = append(fields, fmt.Sprintf("\t%s map[%s]int", fname, ref))
		case "map-value":
			fields = append(fields, fmt.Sprintf("\t%s map[string]%s", fname, ref))
		case "named-slice":
			fmt.Fprintf(&a, "type %sList []%s\n\n", fname, ref)
			fields = append(fields, fmt.Sprintf("\t%s %sList", fname, fname))
		}
	}
	if !(reach == "top-level-only" && loc == "analysed-file") {
		addRef("F1", t1ref)
	}
	if loc == "both-packages" {
		addRef("F1s", "sub.Level")
	}
	if t2ref != "" {
		addRef("F2", t2ref)
	}
	if needTwin {
		addRef("F3", "sub.Tag")
	}
	if needMid {
		fields = append(fields, "\tVia mid.M")
	}
	fields = append(fields, "\tN int")

	var hdr strings.Builder
	hdr.WriteString("package enums\n\n")
	var imps []string
	if modRoot != "" {
		imps = append(imps, fmt.Sprintf("\t%q", prog.Module))
	}
	if needSub {
		imps = append(imps, fmt.Sprintf("\t%q", subPath))
	}
	if needMid {
		imps = append(imps, fmt.Sprintf("\t%q", rootPath+"/mid"))
	}
	if needTwin {
		imps = append(imps, fmt.Sprintf("\ttwin %q", rootPath+"/twin/sub"))
	}
	if len(imps) > 0 {
		fmt.Fprintf(&hdr, "import (\n%s\n)\n\n", strings.Join(imps, "\n"))
	}
	asrc := hdr.String() + strings.TrimPrefix(a.String(), "package enums\n\n") + "type Holder struct {\n" + strings.Join(fields, "\n") + "\n}\n"

	p := &prog.Program{Family: "F-enum", Analysed: []string{"a.go"}, Features: s.Feats}
	if modRoot != "" {
		p.Pkgs = append(p.Pkgs, &prog.Pkg{Path: prog.Module, Name: "proj", Files: []prog.File{{Name: "level.go", Src: modRoot}}})
	}
	if needSub {
		p.Pkgs = append(p.Pkgs, &prog.Pkg{Path: subPath, Name: "sub", Files: []prog.File{{Name: "sub.go", Src: sub.String()}}})
	}
	if needMid {
		p.Pkgs = append(p.Pkgs, &prog.Pkg{Path: rootPath + "/mid", Name: "mid", Files: []prog.File{{Name: "mid.go", Src: "package mid\n\nimport \"" + subPath + "\"\n\ntype M struct {\n\tL sub.Level\n}\n"}}})
	}
	if needTwin {
		p.Pkgs = append(p.Pkgs, &prog.Pkg{Path: rootPath + "/twin/sub", Name: "sub", Files: []prog.File{{Name: "sub.go", Src: "package sub\n\n" + t2}}})
	}
	p.Pkgs = append(p.Pkgs, &prog.Pkg{Path: rootPath, Name: "enums", Files: []prog.File{{Name: "a.go", Src: asrc}, {Name: "b.go", Src: bfile.String()}}})
	return p
}
