package fam

import (
	"encoding/json"
	"fmt"
	"strings"

	"verif.test/mc/explore"
	"verif.test/mc/prog"
)

// F-routes (DESIGN §3.3): a main package registering Echo-style routes, a stub
// echo package and an inner package. The synthesiser records the route table it
// wrote (the ground truth of C13) in Notes["routes"].

type RouteParam struct {
	Name string
	Type string // Go type text relative to the package declaring the handler ("" for form values)
}

type Route struct {
	Verb       string
	URL        string
	Handler    string // "" when the handler is a function literal
	Input      string // bound input type, "" for none
	Return     string
	Blob       bool
	Query      []RouteParam
	FormValues []string
	FormFile   string
	JSONField  *RouteParam
	Pkg        string // package declaring the handler: "main" or "inner"
}

const echoStub = `// Package echo is a substitute for the http framework echo package.
package echo

import "mime/multipart"

type Context interface {
	Bind(interface{}) error
	JSON(int, interface{}) error
	JSONPretty(int, interface{}, string) error
	QueryParam(string) string
	Blob(code int, contentType string, b []byte) error
	FormValue(name string) string
	FormFile(name string) (*multipart.FileHeader, error)
}

type Echo struct{}

func (Echo) GET(string, func(Context) error)    {}
func (Echo) POST(string, func(Context) error)   {}
func (Echo) PUT(string, func(Context) error)    {}
func (Echo) DELETE(string, func(Context) error) {}
func (Echo) Use(...func(Context) error)        {}
func (Echo) Static(string, string)              {}
`

type inputStmt struct {
	label string
	code  string
	apply func(r *Route)
}

func routeInputs() []inputStmt {
	q := func(name, typ string) func(r *Route) {
		return func(r *Route) { r.Query = append(r.Query, RouteParam{name, typ}) }
	}
	return []inputStmt{
		{"none", "", func(r *Route) {}},
		{"bind-if-init", "var in In\n\tif err := c.Bind(&in); err != nil {\n\t\treturn err\n\t}", func(r *Route) { r.Input = "In" }},
		{"bind-define", "var in2 In\n\terrB := c.Bind(&in2)\n\t_ = errB", func(r *Route) { r.Input = "In" }},
		{"bind-map-var", "inM := M{}\n\t_ = c.Bind(inM)", func(r *Route) { r.Input = "M" }},
		{"bind-same-spelling-as-other-route", "var idsSame []int64\n\t_ = c.Bind(&idsSame)", func(r *Route) { r.Input = "[]int64" }},
		{"bind-slice", "var ids []IdDossier\n\t_ = c.Bind(&ids)", func(r *Route) { r.Input = "[]IdDossier" }},
		{"query1", "q1 := c.QueryParam(\"q1\")\n\t_ = q1", q("q1", "string")},
		{"query2-one-assignment", "qa, qb := c.QueryParam(\"qa\"), c.QueryParam(\"q-b\")\n\t_, _ = qa, qb", func(r *Route) {
			r.Query = append(r.Query, RouteParam{"qa", "string"}, RouteParam{"q-b", "string"})
		}},
		{"query2-typed-one-assignment", "act, pg := ct.QueryParamBool(c, \"active\"), ct.QueryParamInt64(c, \"page\")\n\t_, _ = act, pg", func(r *Route) {
			r.Query = append(r.Query, RouteParam{"active", "bool"}, RouteParam{"page", "int64"})
		}},
		{"query-bool", "flag := ct.QueryParamBool(c, \"flag\")\n\t_ = flag", q("flag", "bool")},
		{"query-int64", "num := ct.QueryParamInt64(c, \"num\")\n\t_ = num", q("num", "int64")},
		{"query-generic", "gid, errG := QueryParamInt[IdDossier](c, \"gid\")\n\t_, _ = gid, errG", q("gid", "IdDossier")},
		{"query-generic-qualified", "gq, errQ := inner.QueryParamInt[IdDossier](c, \"gq\")\n\t_, _ = gq, errQ", q("gq", "IdDossier")},
		{"query-escaped-name", "qe := c.QueryParam(\"q\\x2de\")\n\t_ = qe", q("q-e", "string")},
		{"form-value-escaped", "fve := c.FormValue(\"f\\u00e9\")\n\t_ = fve", func(r *Route) { r.FormValues = append(r.FormValues, "f\u00e9") }},
		{"query-const-name", "qc := c.QueryParam(paramName)\n\t_ = qc", q("from-const", "string")},
		{"query-assign", "var qs string\n\tqs = c.QueryParam(\"q3\")\n\t_ = qs", q("q3", "string")},
		{"query-var-decl", "var qv = c.QueryParam(\"q4\")\n\t_ = qv", q("q4", "string")},
		{"query-in-if", "if qi := c.QueryParam(\"q5\"); qi == \"\" {\n\t\treturn nil\n\t}", q("q5", "string")},
		{"form-value", "fv := c.FormValue(\"fv\")\n\t_ = fv", func(r *Route) { r.FormValues = append(r.FormValues, "fv") }},
		{"form-values2", "fv1 := c.FormValue(\"a\")\n\tfv2 := c.FormValue(\"b\")\n\t_, _ = fv1, fv2", func(r *Route) { r.FormValues = append(r.FormValues, "a", "b") }},
		{"form-file", "fh, _ := c.FormFile(\"upload\")\n\t_ = fh", func(r *Route) { r.FormFile = "upload" }},
		{"form-json", "var pl Payload\n\t_ = FormValueJSON(c, \"payload\", &pl)", func(r *Route) { r.JSONField = &RouteParam{"payload", "Payload"} }},
		{"form-json-shared-type", "var pl2 In\n\t_ = FormValueJSON(c, \"payload2\", &pl2)", func(r *Route) { r.JSONField = &RouteParam{"payload2", "In"} }},
		// the destination is a variable that already is a pointer
		{"form-json-pointer-var", "pl3 := new(Payload)\n\t_ = FormValueJSON(c, \"payload3\", pl3)", func(r *Route) { r.JSONField = &RouteParam{"payload3", "Payload"} }},
		{"form-json-pointer-slice", "var ids3 *[]int64\n\t_ = FormValueJSON(c, \"ids3\", ids3)", func(r *Route) { r.JSONField = &RouteParam{"ids3", "[]int64"} }},
		// Bind called on a value that is not spelled as an echo.Context: a custom context obtained by
		// assertion, and a pointer to the context variable
		{"bind-on-custom-context", "var inC In\n\tcc := c.(interface {\n\t\techo.Context\n\t\tBind(interface{}) error\n\t})\n\t_ = cc.Bind(&inC)", func(r *Route) { r.Input = "In" }},
		{"bind-on-context-pointer", "var inP In\n\tpc := &c\n\t_ = (*pc).Bind(&inP)", func(r *Route) { r.Input = "In" }},
	}
}

type returnStmt struct {
	label string
	code  string
	apply func(r *Route)
}

func routeReturns() []returnStmt {
	return []returnStmt{
		{"json-ident", "var out Out\n\treturn c.JSON(200, out)", func(r *Route) { r.Return = "Out" }},
		{"nothing", "return nil", func(r *Route) {}},
		{"json-composite", "return c.JSON(200, Out{N: 1})", func(r *Route) { r.Return = "Out" }},
		{"json-pretty", "var outP []Out\n\treturn c.JSONPretty(200, outP, \" \")", func(r *Route) { r.Return = "[]Out" }},
		{"blob", "var data []byte\n\treturn c.Blob(200, \"application/pdf\", data)", func(r *Route) { r.Return = "[]byte"; r.Blob = true }},
		{"blob-then-error", "if c != nil {\n\t\tvar data []byte\n\t\treturn c.Blob(200, \"application/pdf\", data)\n\t}\n\treturn fmt.Errorf(\"nothing to send\")", func(r *Route) { r.Return = "[]byte"; r.Blob = true }},
		{"json-map", "outM := map[string]int{}\n\treturn c.JSON(200, outM)", func(r *Route) { r.Return = "map[string]int" }},
		{"json-basic", "var code uint\n\treturn c.JSON(200, code)", func(r *Route) { r.Return = "uint" }},
		{"json-slice-of-ids", "var outIds []IdDossier\n\treturn c.JSON(200, outIds)", func(r *Route) { r.Return = "[]IdDossier" }},
		// an unnamed type written exactly like the one another route answers with (HandleExt)
		{"json-same-spelling-as-other-route", "var outSame map[string][]int\n\treturn c.JSON(200, outSame)", func(r *Route) { r.Return = "map[string][]int" }},
		{"json-named-slice-literal", "return c.JSON(200, [][]string{{\"a\"}})", func(r *Route) { r.Return = "[][]string" }},
	}
}

// Routes is the F-routes family.
func Routes(c explore.Chooser) *prog.Program {
	s := &S{C: c}
	base := prog.Base() + "/srv"
	echoPath, innerPath := base+"/echo", base+"/inner"

	verb := s.Pick("r0.verb", "GET", "POST", "PUT", "DELETE")
	pathForm := s.Pick("r0.path", "literal", "local-const", "package-const", "imported-const", "concat-literal-const", "concat-three", "typed-const", "literal-with-escapes", "raw-literal")
	handlerForm := s.Pick("r0.handler", "method-value", "method-pointer-var", "package-func", "func-literal", "method-of-other-file", "parenthesised", "method-after-homonym", "func-after-homonym-method", "pointer-method-on-value-var")
	ins := routeInputs()
	var chosen []inputStmt
	for i := 0; i < 3; i++ {
		k := s.C.Choose(fmt.Sprintf("r0.input%d", i), len(ins))
		if k != 0 {
			s.Feats = append(s.Feats, fmt.Sprintf("r0.input%d=%s", i, ins[k].label))
			chosen = append(chosen, ins[k])
		}
	}
	rets := routeReturns()
	rk := s.C.Choose("r0.return", len(rets))
	if rk != 0 {
		s.Feats = append(s.Feats, "r0.return="+rets[rk].label)
	}
	ret := rets[rk]
	layout := s.Pick("layout", "r0-first-of-3", "r0-last-of-3", "r0-only", "r0-middle-with-noise")
	prefix := s.Pick("prefix", "", "/api", "/zzz", "/api/it", "/inner", "/api/inner", "/api/pkg/sub", "/inner/e")
	regSite := s.Pick("registration", "in-func", "in-method", "two-funcs", "nested-block", "one-param-returning-error")
	sameLine := s.Pick("same-line-literals", "no", "yes")
	earlyReply := s.Pick("early-reply", "no", "yes")
	sameSpelling := s.Pick("same-spelling-twice", "no", "yes")
	// the routes' package bearing the name of the imported handler package (packages are told apart
	// by import path, never by name)
	rootName := s.Pick("root.pkgname", "main", "inner")
	shadow := s.Pick("shadowed-const", "no", "local-shadows-package-const", "two-locals-same-name", "two-locals-own-handlers")

	// de-duplicate statements using the same variables (same statement chosen twice)
	seen := map[string]bool{}
	var body []string
	r0 := Route{Verb: verb, Pkg: "main"}
	if earlyReply == "yes" {
		// the handler already replies (with the type of its last reply) in a branch, before reading its inputs
		body = append(body, "var okEarly bool\n\tif okEarly {\n\t\t"+strings.ReplaceAll(ret.code, "\n\t", "\n\t\t")+"\n\t}")
		// ... and one input is always read after that reply
		body = append(body, "qAfter := c.QueryParam(\"after-reply\")\n\t_ = qAfter")
		r0.Query = append(r0.Query, RouteParam{"after-reply", "string"})
	}
	for _, in := range chosen {
		if seen[in.label] {
			continue
		}
		seen[in.label] = true
		body = append(body, in.code)
		in.apply(&r0)
	}
	body = append(body, ret.code)
	ret.apply(&r0)
	bodySrc := "\t" + strings.Join(body, "\n\t") + "\n"

	// path
	pathExpr := ""
	switch pathForm {
	case "literal":
		pathExpr, r0.URL = `"/api/items/:id"`, "/api/items/:id"
	case "local-const":
		pathExpr, r0.URL = "localURL", "/api/local"
	case "package-const":
		pathExpr, r0.URL = "pkgURL", "/api/pkg/"
	case "imported-const":
		pathExpr, r0.URL = "inner.Url", "/inner/"
	case "concat-literal-const":
		pathExpr, r0.URL = `"/api" + inner.Url`, "/api/inner/"
	case "concat-three":
		pathExpr, r0.URL = `pkgURL + "sub/" + localURL`, "/api/pkg/sub//api/local"
	case "typed-const":
		pathExpr, r0.URL = "typedURL", "/api/typed"
	case "literal-with-escapes":
		// an interpreted literal whose value is not its source text
		pathExpr, r0.URL = `"/api/caf\u00e9/\x61\"b"`, "/api/caf\u00e9/a\"b"
	case "raw-literal":
		pathExpr, r0.URL = "`/api/raw\\x61`", "/api/raw\\x61"
	}

	// handler
	handlerExpr := ""
	var extraFile strings.Builder
	handlerDecl := ""
	switch handlerForm {
	case "method-value":
		handlerExpr, r0.Handler = "ct.h0", "h0"
		handlerDecl = "func (ct controller) h0(c echo.Context) error {\n" + bodySrc + "}\n"
	case "method-pointer-var":
		handlerExpr, r0.Handler = "pct.h0", "h0"
		handlerDecl = "func (ct *controller) h0(c echo.Context) error {\n" + bodySrc + "}\n"
	case "pointer-method-on-value-var":
		// a method declared on the pointer receiver, taken from an addressable variable of the value type
		handlerExpr, r0.Handler = "ct.h0", "h0"
		handlerDecl = "func (ct *controller) h0(c echo.Context) error {\n" + bodySrc + "}\n"
	case "package-func":
		handlerExpr, r0.Handler = "h0", "h0"
		handlerDecl = "func h0(c echo.Context) error {\n\tvar ct controller\n\t_ = ct\n" + bodySrc + "}\n"
	case "func-literal":
		handlerExpr, r0.Handler = "func(c echo.Context) error {\n\tvar ct controller\n\t_ = ct\n"+strings.ReplaceAll(bodySrc, "\t", "\t\t")+"\t}", ""
	case "method-of-other-file":
		handlerExpr, r0.Handler = "ct.h0", "h0"
		extraFile.WriteString("func (ct controller) h0(c echo.Context) error {\n" + bodySrc + "}\n")
	case "method-after-homonym":
		// a method of the same name on another receiver type, declared earlier in the same file
		handlerExpr, r0.Handler = "ct.h0", "h0"
		handlerDecl = "func (otherRouter) h0(c echo.Context) error {\n\tvar nb int\n\treturn c.JSON(200, nb)\n}\n\nfunc (ct controller) h0(c echo.Context) error {\n" + bodySrc + "}\n"
	case "func-after-homonym-method":
		handlerExpr, r0.Handler = "h0", "h0"
		handlerDecl = "func (otherRouter) h0(c echo.Context) error {\n\tvar nb int\n\treturn c.JSON(200, nb)\n}\n\nfunc h0(c echo.Context) error {\n\tvar ct controller\n\t_ = ct\n" + bodySrc + "}\n"
	case "parenthesised":
		handlerExpr, r0.Handler = "(ct.h0)", "h0"
		handlerDecl = "func (ct controller) h0(c echo.Context) error {\n" + bodySrc + "}\n"
	}

	r1 := Route{Verb: "POST", URL: "/api/items", Handler: "create", Input: "In", Return: "Out", Pkg: "main"}
	r2 := Route{Verb: "GET", URL: "/inner/", Handler: "TopLevel", Pkg: "inner"}
	r3 := Route{Verb: "PUT", URL: "/inner/ext", Handler: "HandleExt", Input: "[]int64", Return: "map[string][]int", Pkg: "inner",
		Query: []RouteParam{{"query1", "string"}, {"query2", "string"}}}
	reg0 := fmt.Sprintf("e.%s(%s, %s)", verb, pathExpr, handlerExpr)
	reg1 := "e.POST(\"/api/items\", ct.create)"
	reg2 := "e.GET(inner.Url, inner.TopLevel)"
	reg3 := "e.PUT(inner.Url+\"ext\", ct2.HandleExt)"
	var regs []string
	var routes []Route
	switch layout {
	case "r0-first-of-3":
		regs, routes = []string{reg0, reg1, reg2}, []Route{r0, r1, r2}
	case "r0-last-of-3":
		regs, routes = []string{reg1, reg3, reg0}, []Route{r1, r3, r0}
	case "r0-only":
		regs, routes = []string{reg0}, []Route{r0}
	case "r0-middle-with-noise":
		regs = []string{"e.Use(logger)", reg1, "e.Static(\"/static\", \"dir\")", reg0, "other.GET(\"/not-a-route\")", reg3}
		routes = []Route{r1, r0, r3}
	}

	var a strings.Builder
	a.WriteString("const pkgURL = \"/api/pkg/\"\n\nconst typedURL string = \"/api/typed\"\n\nconst paramName = \"from-const\"\n\n")
	a.WriteString("type IdDossier int64\n\ntype In struct {\n\tA int\n\tB string\n}\n\ntype Out struct {\n\tN  int\n\tID IdDossier\n}\n\ntype Payload struct {\n\tItems []string\n}\n\ntype M map[string]int\n\n")
	a.WriteString("type controller struct{}\n\ntype otherRouter struct{}\n\nfunc (otherRouter) GET(string, ...int) {}\n\n")
	a.WriteString("func QueryParamInt[T ~int64](echo.Context, string) (T, error) { return 0, nil }\nfunc (controller) QueryParamInt64(echo.Context, string) int64 { return 0 }\nfunc (controller) QueryParamBool(echo.Context, string) bool   { return false }\nfunc FormValueJSON(echo.Context, string, any) error           { return nil }\n\nfunc logger(echo.Context) error { return nil }\n\n")
	a.WriteString("func (ct controller) create(c echo.Context) error {\n\tvar in In\n\tif err := c.Bind(&in); err != nil {\n\t\treturn err\n\t}\n\tout := Out{N: in.A}\n\treturn c.JSON(200, out)\n}\n\n")
	a.WriteString(handlerDecl + "\n")
	regBody := func(l []string) string { return "\t" + strings.Join(l, "\n\t") + "\n" }
	sig := "(e *echo.Echo, ct controller, pct *controller, ct2 inner.Controller, other otherRouter)"
	pre := "\tconst localURL = \"/api/local\"\n\t_ = localURL\n"
	switch regSite {
	case "in-func":
		a.WriteString("func routes" + sig + " {\n" + pre + regBody(regs) + "}\n")
	case "one-param-returning-error":
		// the other values are package-level variables: the registering function looks like a handler
		a.WriteString("var (\n\tct    controller\n\tpct   = &controller{}\n\tct2   inner.Controller\n\tother otherRouter\n)\n\nfunc setupRoutes(e *echo.Echo) error {\n" + pre + regBody(regs) + "\treturn nil\n}\n")
	case "in-method":
		a.WriteString("type app struct{}\n\nfunc (app) routes" + sig + " {\n" + pre + regBody(regs) + "}\n")
	case "two-funcs":
		k := (len(regs) + 1) / 2
		a.WriteString("func routesA" + sig + " {\n" + pre + regBody(regs[:k]) + "}\n\n")
		a.WriteString("func routesB" + sig + " {\n" + pre + regBody(regs[k:]) + "}\n")
	case "nested-block":
		a.WriteString("func routes" + sig + " {\n" + pre + "\tif e != nil {\n\t\tfor i := 0; i < 1; i++ {\n" + strings.ReplaceAll(regBody(regs), "\n\t", "\n\t\t\t")[0:0])
		for _, r := range regs {
			a.WriteString("\t\t\t" + strings.ReplaceAll(r, "\n", "\n\t\t") + "\n")
		}
		a.WriteString("\t\t}\n\t}\n}\n")
	}

	// the same spelling of a constant, bound to different values in two scopes
	var extraRoutes []Route
	switch shadow {
	case "local-shadows-package-const":
		a.WriteString("\nfunc routesPkgConst(e *echo.Echo, ct controller) {\n\te.DELETE(pkgURL, ct.create)\n}\n\nfunc routesShadow(e *echo.Echo, ct controller) {\n\tconst pkgURL = \"/api/shadow/\"\n\te.PUT(pkgURL, ct.create)\n}\n")
		extraRoutes = []Route{
			{Verb: "DELETE", URL: "/api/pkg/", Handler: "create", Input: "In", Return: "Out", Pkg: "main"},
			{Verb: "PUT", URL: "/api/shadow/", Handler: "create", Input: "In", Return: "Out", Pkg: "main"},
		}
	case "two-locals-same-name":
		a.WriteString("\nfunc routesOne(e *echo.Echo, ct controller) {\n\tconst base = \"/api/one\"\n\te.DELETE(base, ct.create)\n}\n\nfunc routesTwo(e *echo.Echo, ct controller) {\n\tconst base = \"/zone/two\"\n\te.PUT(base, ct.create)\n}\n")
		extraRoutes = []Route{
			{Verb: "DELETE", URL: "/api/one", Handler: "create", Input: "In", Return: "Out", Pkg: "main"},
			{Verb: "PUT", URL: "/zone/two", Handler: "create", Input: "In", Return: "Out", Pkg: "main"},
		}
	case "two-locals-own-handlers":
		// the same expression text in two functions, each with its own handler (no body, distinct method names)
		a.WriteString("\nfunc shadowOne(c echo.Context) error {\n\tvar n int\n\treturn c.JSON(200, n)\n}\n\nfunc shadowTwo(c echo.Context) error {\n\tvar s string\n\treturn c.JSON(200, s)\n}\n\nfunc routesOwnOne(e *echo.Echo) {\n\tconst base = \"/api/own/one\"\n\te.GET(base+\"/x\", shadowOne)\n}\n\nfunc routesOwnTwo(e *echo.Echo) {\n\tconst base = \"/zone/own/two\"\n\te.GET(base+\"/x\", shadowTwo)\n}\n")
		extraRoutes = []Route{
			{Verb: "GET", URL: "/api/own/one/x", Handler: "shadowOne", Return: "int", Pkg: "main"},
			{Verb: "GET", URL: "/zone/own/two/x", Handler: "shadowTwo", Return: "string", Pkg: "main"},
		}
	}
	routes = append(routes, extraRoutes...)
	if sameSpelling == "yes" {
		// two handlers answer with unnamed types written alike (two type expressions, identical types)
		a.WriteString("\nfunc sameA(c echo.Context) error {\n\tvar out []string\n\treturn c.JSON(200, out)\n}\n\nfunc sameB(c echo.Context) error {\n\tvar out []string\n\treturn c.JSON(200, out)\n}\n\nfunc routesSame(e *echo.Echo) {\n\te.GET(\"/api/same/a\", sameA)\n\te.GET(\"/api/same/b\", sameB)\n}\n")
		routes = append(routes,
			Route{Verb: "GET", URL: "/api/same/a", Handler: "sameA", Return: "[]string", Pkg: "main"},
			Route{Verb: "GET", URL: "/api/same/b", Handler: "sameB", Return: "[]string", Pkg: "main"})
	}

	innerSrc := "package inner\n\nimport (\n\t\"fmt\"\n\n\t\"" + echoPath + "\"\n)\n\nconst Url = \"/inner/\"\n\ntype Controller struct{}\n\nfunc (Controller) HandleExt(c echo.Context) error {\n\tvar in []int64\n\tt, v := c.QueryParam(\"query1\"), c.QueryParam(\"query2\")\n\terr := c.Bind(&in)\n\t_ = fmt.Errorf(\"%s%s%s\", t, v, err)\n\tvar out map[string][]int\n\treturn c.JSON(200, out)\n}\n\nfunc TopLevel(c echo.Context) error {\n\treturn nil\n}\n\nfunc QueryParamInt[T ~int64](echo.Context, string) (T, error) { return 0, nil }\n"
	hdr := "package " + rootName + "\n\nimport (\n\t\"" + echoPath + "\"\n\t\"" + innerPath + "\"\n)\n\n"
	if strings.Contains(a.String(), "fmt.") || strings.Contains(handlerExpr, "fmt.") {
		hdr = "package " + rootName + "\n\nimport (\n\t\"fmt\"\n\n\t\"" + echoPath + "\"\n\t\"" + innerPath + "\"\n)\n\n"
	}
	rawTail := ""
	if sameLine == "yes" {
		// two function literals starting on one source line (legal, not gofmt'ed)
		rawTail = "func routesRaw(e *echo.Echo) { e.GET(\"/api/raw/a\", func(c echo.Context) error { return nil }); e.DELETE(\"/api/raw/b\", func(c echo.Context) error { var nb int; return c.JSON(200, nb) }) }\n"
		routes = append(routes, Route{Verb: "GET", URL: "/api/raw/a", Pkg: "main"}, Route{Verb: "DELETE", URL: "/api/raw/b", Return: "int", Pkg: "main"})
	}
	bimps := []string{"\t\"" + echoPath + "\""}
	if strings.Contains(extraFile.String(), "fmt.") {
		bimps = append([]string{"\t\"fmt\""}, bimps...)
	}
	if strings.Contains(extraFile.String(), "inner.") {
		bimps = append(bimps, "\t\""+innerPath+"\"")
	}
	bimports := "import (\n" + strings.Join(bimps, "\n") + "\n)\n\n"
	bsrc := "package " + rootName + "\n\n" + bimports + "var _ echo.Context\n\n" + extraFile.String() + "\nfunc main() {}\n"

	p := &prog.Program{Family: "F-routes", Analysed: []string{"routes.go"}, Features: s.Feats}
	p.Pkgs = []*prog.Pkg{
		{Path: echoPath, Name: "echo", Files: []prog.File{{Name: "echo.go", Src: echoStub}}},
		{Path: innerPath, Name: "inner", Files: []prog.File{{Name: "inner.go", Src: innerSrc}}},
		{Path: base, Name: rootName, Files: []prog.File{{Name: "routes.go", Src: hdr + a.String(), RawTail: rawTail}, {Name: "other.go", Src: bsrc}}},
	}
	// prefix filter on the expected table
	var want []Route
	for _, r := range routes {
		if prefix == "" || strings.HasPrefix(r.URL, prefix) {
			want = append(want, r)
		}
	}
	js, _ := json.Marshal(want)
	p.Notes = map[string]string{"routes": string(js), "prefix": prefix}
	return p
}
