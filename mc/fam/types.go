package fam

import (
	"fmt"
	"regexp"
	"sort"
	"strings"

	"verif.test/mc/explore"
	"verif.test/mc/prog"
)

// slotAlt is one alternative for the type of the slot field of F-types.
type slotAlt struct {
	label string
	typ   string // type expression as written in the root package
	declA string // declarations added to the analysed file
	declB string // declarations added to the other file of the root package
	local bool   // refers to root-package types (cannot be hosted in the sub package)
}

const dateCompanions = `
func (d Date) MarshalJSON() ([]byte, error) { return time.Time(d).MarshalJSON() }

func (d *Date) UnmarshalJSON(b []byte) error { return (*time.Time)(d).UnmarshalJSON(b) }

func NewDateFrom(t time.Time) Date { return Date(t) }

func (d Date) Time() time.Time { return time.Time(d) }
`

// birthCompanions: the companions of Date for a date type of another name (the constructor keeps the
// name NewDateFrom: sqlcrud calls it by that name whatever the date type is called).
var birthCompanions = strings.ReplaceAll(strings.ReplaceAll(dateCompanions, "Date", "BirthDate"), "NewBirthDateFrom", "NewDateFrom")

const stampCompanions = `
func (d Stamp) MarshalJSON() ([]byte, error) { return time.Time(d).MarshalJSON() }

func (d *Stamp) UnmarshalJSON(b []byte) error { return (*time.Time)(d).UnmarshalJSON(b) }
`

// subShapeWrapper is what gounions generates when it is run on the sub package (the generator
// documents that wrappers of unions from other packages are expected to exist there).
const subShapeWrapper = `type ShapeWrapper struct {
	Data Shape
}

func (out *ShapeWrapper) UnmarshalJSON(src []byte) error {
	var wr struct {
		Kind string
		Data json.RawMessage
	}
	err := json.Unmarshal(src, &wr)
	if err != nil {
		return err
	}
	switch wr.Kind {
	case "Dot":
		var data Dot
		err = json.Unmarshal(wr.Data, &data)
		out.Data = data
	case "Line":
		var data Line
		err = json.Unmarshal(wr.Data, &data)
		out.Data = data
	default:
		panic("exhaustive switch")
	}
	return err
}

func (item ShapeWrapper) MarshalJSON() ([]byte, error) {
	type wrapper struct {
		Data any
		Kind string
	}
	var wr wrapper
	switch data := item.Data.(type) {
	case Dot:
		wr = wrapper{Kind: "Dot", Data: data}
	case Line:
		wr = wrapper{Kind: "Line", Data: data}
	default:
		panic("exhaustive switch")
	}
	return json.Marshal(wr)
}

`

// ModuleRootSrc is the package at the module root (import path verif.test/proj exactly).
const ModuleRootSrc = "package proj\n\ntype Level int\n\nconst (\n\tLow Level = iota + 1 // low level\n\tMid\n\tHigh\n)\n"

func slotAlts() []slotAlt {
	l := []slotAlt{
		{label: "int", typ: "int"},
		// basic kinds
		{label: "string", typ: "string"},
		{label: "bool", typ: "bool"},
		{label: "int8", typ: "int8"},
		{label: "int16", typ: "int16"},
		{label: "int32", typ: "int32"},
		{label: "int64", typ: "int64"},
		{label: "uint", typ: "uint"},
		{label: "uint8", typ: "uint8"},
		{label: "byte", typ: "byte"},
		{label: "uint16", typ: "uint16"},
		{label: "uint32", typ: "uint32"},
		{label: "uint64", typ: "uint64"},
		{label: "rune", typ: "rune"},
		{label: "float32", typ: "float32"},
		{label: "float64", typ: "float64"},
		{label: "complex128", typ: "complex128"},
		// containers
		{label: "[]int", typ: "[]int"},
		{label: "[]string", typ: "[]string"},
		{label: "[]byte", typ: "[]byte"},
		{label: "[][]int", typ: "[][]int"},
		{label: "[0]int", typ: "[0]int"},
		{label: "[1]string", typ: "[1]string"},
		{label: "[3]Color", typ: "[3]Color", local: true},
		{label: "[2][2]int", typ: "[2][2]int"},
		{label: "[2][3]int", typ: "[2][3]int"},
		{label: "[8][]int", typ: "[8][]int"},
		{label: "[8]map[string]int", typ: "[8]map[string]int"},
		{label: "[2][]int", typ: "[2][]int"},
		{label: "[][2]int", typ: "[][2]int"},
		{label: "map[string]string", typ: "map[string]string"},
		{label: "map[int]string", typ: "map[int]string"},
		{label: "map[Count]int", typ: "map[Count]int", local: true},
		{label: "map[Color]string", typ: "map[Color]string", local: true},
		{label: "map[string][]int", typ: "map[string][]int"},
		{label: "[]map[string]int", typ: "[]map[string]int"},
		{label: "[]Circle", typ: "[]Circle", local: true},
		{label: "map[string]Circle", typ: "map[string]Circle", local: true},
		{label: "[]Color", typ: "[]Color", local: true},
		// named
		{label: "Count", typ: "Count", local: true},
		{label: "Label", typ: "Label", declA: "type Label string\n", local: true},
		{label: "Ints", typ: "Ints", declA: "type Ints []int\n", local: true},
		{label: "Grid", typ: "Grid", declA: "type Grid [2][2]int\n", local: true},
		{label: "Flags", typ: "Flags", declB: "type Flags map[string]bool\n", local: true},
		{label: "named-uint8", typ: "Tiny", declA: "type Tiny uint8\n", local: true},
		{label: "named-int8", typ: "Small", declA: "type Small int8\n", local: true},
		{label: "named-over-named", typ: "Cnt2", declA: "type Cnt2 Count\n", local: true},
		{label: "alias-basic", typ: "AliasInt", declA: "type AliasInt = int\n", local: true},
		{label: "alias-struct", typ: "AliasSquare", declA: "type AliasSquare = Square\n", local: true},
		{label: "alias-slice", typ: "AliasInts", declA: "type AliasInts = []int\n", local: true},
		{label: "Blob", typ: "Blob", declA: "type Blob []byte\n", local: true},
		{label: "alias-chain-named-slice", typ: "AliasA", declA: "type Ints []int\n\ntype AliasB = Ints\n\ntype AliasA = AliasB\n", local: true},
		{label: "alias-chain-struct", typ: "AliasA", declA: "type AliasB = Square\n\ntype AliasA = AliasB\n", local: true},
		{label: "alias-chain-enum", typ: "AliasA", declA: "type AliasB = Color\n\ntype AliasA = AliasB\n", local: true},
		{label: "one-letter-int64", typ: "N", declA: "type N int64\n", local: true},
		{label: "one-letter-string", typ: "L", declB: "type L string\n", local: true},
		{label: "two-letter-id", typ: "ID", declA: "type ID int64\n", local: true},
		// sql nullables and look-alikes
		{label: "sql.NullInt64", typ: "sql.NullInt64"},
		{label: "sql.NullString", typ: "sql.NullString"},
		{label: "sql.NullTime", typ: "sql.NullTime"},
		{label: "sql.NullBool", typ: "sql.NullBool"},
		{label: "sql.NullFloat64", typ: "sql.NullFloat64"},
		{label: "OptID", typ: "OptID", declA: "type OptID struct {\n\tValid bool\n\tID Count\n}\n", local: true},
		// a struct with an SQL guard: an unexported field that only the SQL targets know
		{label: "Guarded", typ: "Guarded", declA: "type Guarded struct {\n\tLabel string\n\tguard Color `gomacro-sql-guard:\"#[Color.Red]\"`\n\tN     int\n}\n", local: true},
		// named types over predeclared kinds that nothing else in the program uses plainly
		{label: "Flag", typ: "Flag", declA: "type Flag bool\n", local: true},
		{label: "Ratio", typ: "Ratio", declA: "type Ratio float64\n", local: true},
		// a generic declaration whose parameter does not appear in its structure
		{label: "Tagged[Count]", typ: "Tagged[Count]", declA: "type Tagged[T any] struct {\n\tLabel string\n}\n", local: true},
		{label: "TypedID[Item]", typ: "TypedID[Item]", declA: "type TypedID[T any] int64\n", local: true},
		{label: "OptTags", typ: "OptTags", declA: "type OptTags struct {\n\tValid bool\n\tL     []string\n}\n", local: true},
		{label: "OptID-reversed", typ: "OptID", declA: "type OptID struct {\n\tID Count\n\tValid bool\n}\n", local: true},
		{label: "OptDate", typ: "OptDate", declA: "type OptDate struct {\n\tD Date\n\tValid bool\n}\n", declB: "type Date time.Time\n" + dateCompanions, local: true},
		// generics
		{label: "Pair[Count]", typ: "Pair[Count]", declB: "type Pair[T any] struct {\n\tA, B T\n}\n", local: true},
		{label: "Pair[int]", typ: "Pair[int]", declB: "type Pair[T any] struct {\n\tA, B T\n}\n", local: true},
		{label: "Pair[AliasInt]", typ: "Pair[AliasInt]", declA: "type AliasInt = int\n", declB: "type Pair[T any] struct {\n\tA, B T\n}\n", local: true},
		{label: "Box[[]string]", typ: "Box[[]string]", declB: "type Box[T any] struct {\n\tV []T\n}\n", local: true},
		{label: "two-instantiations", typ: "TwoPairs", declA: "type TwoPairs struct {\n\tP1 Pair[Count]\n\tP2 Pair[int]\n}\n", declB: "type Pair[T any] struct {\n\tA, B T\n}\n", local: true},
		{label: "Box[Circle]", typ: "Box[Circle]", declA: "type Box[T any] struct {\n\tV []T\n}\n", local: true},
		// time and dates
		{label: "time.Time", typ: "time.Time"},
		{label: "Date", typ: "Date", declB: "type Date time.Time\n" + dateCompanions, local: true},
		{label: "Stamp", typ: "Stamp", declB: "type Stamp time.Time\n" + stampCompanions, local: true},
		{label: "[]Date", typ: "[]Date", declB: "type Date time.Time\n" + dateCompanions, local: true},
		{label: "[]time.Time", typ: "[]time.Time"},
		{label: "map[string]time.Time", typ: "map[string]time.Time"},
		{label: "[2]time.Time", typ: "[2]time.Time"},
		{label: "time.Duration", typ: "time.Duration"},
		{label: "time.Month", typ: "time.Month"},
		// recursive
		{label: "rec-slice", typ: "Tree", declA: "type Tree struct {\n\tV    int\n\tKids []Tree\n}\n", local: true},
		{label: "rec-map", typ: "Node", declA: "type Node struct {\n\tNext map[string]Node\n}\n", local: true},
		{label: "rec-named-slice", typ: "Forest", declA: "type Forest []Wood\n\ntype Wood struct {\n\tSub Forest\n}\n", local: true},
		{label: "rec-mutual", typ: "Ping", declA: "type Ping struct {\n\tP []Pong\n}\n\ntype Pong struct {\n\tQ map[string]Ping\n}\n", local: true},
		{label: "rec-union", typ: "Expr", declA: "type Expr interface {\n\tisExpr()\n}\n\ntype Lit struct {\n\tV int\n}\n\ntype Add struct {\n\tL, R Expr\n}\n\nfunc (Lit) isExpr() {}\nfunc (Add) isExpr() {}\n", local: true},
		{label: "rec-self-slice", typ: "Chain", declA: "type Chain []Chain\n", local: true},
		{label: "rec-self-map", typ: "Trie", declA: "type Trie map[string]Trie\n", local: true},
		{label: "Color", typ: "Color", local: true},
		{label: "Shape", typ: "Shape", local: true},
		{label: "sub2.Delivery", typ: "sub2.Delivery", local: true},
		{label: "[]sub2.Delivery", typ: "[]sub2.Delivery", local: true},
		{label: "sub2.Route", typ: "sub2.Route", local: true},
		{label: "named-nested-slice-of-unions", typ: "Grid2", declA: "type Grid2 [][]Shape\n", local: true},
		{label: "named-slice-of-maps-of-unions", typ: "Layers", declA: "type Layers []map[string]Shape\n", local: true},
		{label: "pointer-to-later-union-holder", typ: "*Payload", declB: "type Payload struct {\n\tContent Shape\n\tNote    string\n}\n", local: true},
		{label: "proj.Level", typ: "proj.Level", local: true},
		// other packages
		{label: "subpkg.Info", typ: "subpkg.Info"},
		{label: "subpkg.Kind", typ: "subpkg.Kind"},
		{label: "subpkg.Ident", typ: "subpkg.Ident"},
		{label: "[]subpkg.Info", typ: "[]subpkg.Info"},
		{label: "map[subpkg.Ident]subpkg.Kind", typ: "map[subpkg.Ident]subpkg.Kind"},
		{label: "subpkg.Names", typ: "subpkg.Names"},
		// unsupported forms
		{label: "*int", typ: "*int"},
		{label: "*time.Time", typ: "*time.Time"},
		{label: "*Circle", typ: "*Circle", local: true},
		{label: "chan int", typ: "chan int"},
		{label: "func()", typ: "func()"},
		{label: "anon-struct", typ: "struct{ X int }"},
		{label: "any", typ: "any"},
		{label: "error", typ: "error"},
		{label: "fmt.Stringer", typ: "fmt.Stringer"},
		{label: "[]Shape", typ: "[]Shape", local: true},
		{label: "map[string]Shape", typ: "map[string]Shape", local: true},
		{label: "self-pointer", typ: "P", declA: "type P *P\n", local: true},
		{label: "named-pointer", typ: "PC", declA: "type PC *Circle\n", local: true},
		{label: "uintptr", typ: "uintptr"},
		{label: "rec-array-pointer", typ: "Quad", declA: "type Quad [4]*Quad\n", local: true},
		{label: "rec-array-mutual", typ: "ArrA", declA: "type ArrA [2]*ArrB\n\ntype ArrB [3]*ArrA\n", local: true},
		// a date is a named time.Time whose name contains "date", in any case and anywhere in the name
		// an instance of a generic struct met while another instance of the same generic is analysed
		{label: "Pair[Pair[int]]", typ: "Pair[Pair[int]]", declB: "type Pair[T any] struct {\n\tA, B T\n}\n", local: true},
		{label: "BirthDate", typ: "BirthDate", declB: "type BirthDate time.Time\n" + birthCompanions, local: true},
	}
	return l
}

var slotTags = []string{
	"",
	"`json:\"slot_x\"`",
	"`json:\"slot_x,omitempty\"`",
	"`json:\",omitempty\"`",
	"`json:\"-\"`",
	"`json:\"-,\"`",
	"`xml:\"sx\" json:\"slot_y\"`",
	"`json:\"slot_z\" yaml:\"sz\"`",
	"`gomacro:\"ignore\"`",
	"`gomacro-opaque:\"dart\"`",
	"`gomacro-opaque:\"typescript\"`",
	"`gomacro-opaque:\"dart,typescript\"`",
	"`gomacro-data:\"ignore\"`",
	"`json:\"2fa\"`",
	"`json:\"1e3\"`",
	"`json:\"raw_slot\" gomacro-opaque:\"dart\"`",
	"`json:\"slot_x\" gomacro:\"ignore\"`",
	"`gomacro:\"ignore\" json:\",omitempty\"`",
}

// TypesOpt restricts the F-types family for the checks that only need part of it.
type TypesOpt struct {
	NoUnsupported bool // leave the unsupported slot types out
}

func Types(c explore.Chooser) *prog.Program { return TypesWith(c, TypesOpt{}) }

func TypesWith(c explore.Chooser, opt TypesOpt) *prog.Program {
	s := &S{C: c}
	rootName := s.Pick("root.pkgname", "models", "pk", "m", "updates")
	subName := s.Pick("sub.pkgname", "subpkg", "db", "x", "models")
	rootPath := prog.Base() + "/" + rootName
	subPath := rootPath + "/" + subName

	// spellings
	rename := map[string]string{}
	if v := s.Pick("name.union", "Shape", "S", "Sh", "shape"); v != "Shape" {
		rename["Shape"] = v
	}
	if v := s.Pick("name.member", "Circle", "C", "Ci"); v != "Circle" {
		rename["Circle"] = v
	}
	if v := s.Pick("name.struct", "Item", "I", "It", "item"); v != "Item" {
		rename["Item"] = v
	}
	if v := s.Pick("name.enum", "Color", "K", "Co", "color"); v != "Color" {
		rename["Color"] = v
	}
	if v := s.Pick("name.const", "Red", "R", "R_", "Color_red"); v != "Red" {
		rename["Red"] = v
	}

	twins := s.Pick("twin-container", "no", "yes")
	extraEnums := s.Pick("enum.extra-pair", "none", "negative-then-iota")
	enumForm := s.Pick("enum.form", "iota-uint8", "explicit-int-unexported-middle", "string", "alias-member", "unexported-first", "other-file", "negative", "bool-backed", "float-backed", "dup-values", "flagged-default-first", "flagged-default-middle")
	unionForm := s.Pick("union.members", "2-structs", "1-struct", "named-int-member", "named-slice-member", "named-map-member", "pointer-receiver-non-member", "extra-marker-method", "enum-member", "member-in-other-file", "member-by-embedding", "generic-phantom-member")
	second := s.Pick("union.second", "none", "shares-member-different-prefix", "shares-member-same-prefix", "same-name-in-sub", "disjoint")
	container := s.Pick("union.container", "named-slice", "named-map", "named-array", "none", "named-map-enum-key", "named-map-named-key", "two-named-slices", "two-named-maps", "named-array-5")
	alts := slotAlts()
	if opt.NoUnsupported {
		var k []slotAlt
		for _, a := range alts {
			switch a.label {
			case "*int", "*time.Time", "*Circle", "chan int", "func()", "anon-struct", "any", "error", "fmt.Stringer", "[]Shape", "map[string]Shape", "self-pointer", "named-pointer", "uintptr", "complex128", "rec-array-pointer", "rec-array-mutual":
				continue
			}
			k = append(k, a)
		}
		alts = k
	}
	slotI := s.C.Choose("slot.type", len(alts))
	slot := alts[slotI]
	if slotI != 0 {
		s.Feats = append(s.Feats, "slot.type="+slot.label)
	}
	slotTag := s.Pick("slot.tag", slotTags...)
	slotName := s.Pick("slot.name", "Slot", "slot", "S", "absent")
	slotAbsent := slotName == "absent"
	hosts := []string{"struct", "union-member", "sub-struct", "nested-struct"}
	if slot.local || strings.Contains(slot.typ, "subpkg.Info") {
		hosts = []string{"struct", "union-member", "nested-struct"}
	}
	host := s.Pick("slot.host", hosts...)
	slotFirst := s.Pick("slot.position", "last", "first") == "first"
	neighbourTag := s.Pick("union.neighbour-tag", "", "`json:\"name\"`", "`json:\"-\"`", "`json:\"n,omitempty\"`")
	unionFieldTag := s.Pick("union.field-tag", "", "`json:\"-\"`", "`json:\"sh\"`", "`json:\"sh,omitempty\"`", "`gomacro:\"ignore\"`", "`json:\"-,\"`", "`json:\"-,omitempty\"`", "`gomacro-data:\"ignore\"`")
	embedded := s.Pick("embedded", "none", "exported", "unexported", "tagged", "from-sub", "non-struct", "tagged-same-name", "tagged-omitempty", "unexported-in-member", "pointer", "shared-first-3", "refers-back", "other-file", "tagged-omitempty-holding-union")
	reexport := s.Pick("root-const-of-sub-enum", "no", "yes")
	style := s.Pick("decl.style", "separate", "grouped", "same-line")
	dartRoot := s.Pick("dart.root", "under-go-src", "outside-go-src")
	secondFile := s.Pick("second-file", "no", "yes", "union-over-first-file")

	var a, b, cfile, sub strings.Builder

	// ---- sub package
	sub.WriteString("type Kind int\n\nconst (\n\tPlain Kind = iota // plain\n\tFancy             // fancy\n)\n\n")
	sub.WriteString("type Ident int64\n\ntype Names []string\n\n")
	subSlot := ""
	if host == "sub-struct" && !slotAbsent {
		subSlot = fmt.Sprintf("\t%s %s %s\n", slotName, strings.ReplaceAll(slot.typ, "subpkg.", ""), slotTag)
	}
	if slotFirst {
		fmt.Fprintf(&sub, "type Info struct {\n%s\tnote  string\n\tLabel string\n\tKind  Kind\n}\n\n", subSlot)
	} else {
		// (an unexported field comes first: what is built from the list of fields must skip it cleanly)
		fmt.Fprintf(&sub, "type Info struct {\n\tnote  string\n\tLabel string\n\tKind  Kind\n%s}\n\n", subSlot)
	}
	if second == "same-name-in-sub" {
		sub.WriteString(subShapeWrapper)
		sub.WriteString("type Shape interface {\n\tisShape()\n}\n\ntype Dot struct {\n\tX int\n}\n\nfunc (Dot) isShape() {}\n\ntype Line struct {\n\tLen int\n}\n\nfunc (Line) isShape() {}\n\n")
	}
	if embedded == "from-sub" {
		sub.WriteString("type Base struct {\n\tCreated int\n\tOwner   string\n}\n\n")
	}

	// ---- enum
	enumDecl := ""
	switch enumForm {
	case "iota-uint8":
		enumDecl = "type Color uint8\n\nconst (\n\tRed   Color = iota // red color\n\tGreen              // green color\n\tBlue\n)\n"
	case "explicit-int-unexported-middle":
		enumDecl = "type Color int\n\nconst (\n\tRed   Color = 1 // red color\n\tgreen Color = 2\n\tBlue  Color = 4 // blue\n)\n"
	case "string":
		enumDecl = "type Color string\n\nconst (\n\tRed   Color = \"red\" // red color\n\tGreen Color = \"gr een\"\n\tBlue  Color = \"\"\n)\n"
	case "alias-member":
		enumDecl = "type Color uint8\n\nconst (\n\tRed   Color = iota // red color\n\tGreen              // green color\n\tBlue\n\n\tdefaultColor = Green\n)\n"
	case "unexported-first":
		enumDecl = "type Color uint8\n\nconst (\n\tnone  Color = iota\n\tRed                // red color\n\tGreen              // green color\n\tBlue\n)\n"
	case "other-file":
		b.WriteString("type Color uint8\n\nconst (\n\tRed   Color = iota // red color\n\tGreen              // green color\n\tBlue\n)\n\n")
	case "negative":
		enumDecl = "type Color int\n\nconst (\n\tRed   Color = -1 + iota // red color\n\tGreen                   // green color\n\tBlue\n)\n"
	case "bool-backed":
		enumDecl = "type Color bool\n\nconst (\n\tRed   Color = true // red color\n\tGreen Color = false\n)\n\nconst Blue = Red\n"
	case "float-backed":
		enumDecl = "type Color float64\n\nconst (\n\tRed   Color = 0.5 // red color\n\tGreen Color = 1\n\tBlue  Color = 2.25\n)\n"
	case "flagged-default-first":
		// a typed default opted out of the enum, whose name sorts before every member
		enumDecl = "type Color uint8\n\nconst (\n\tRed   Color = iota // red color\n\tGreen              // green color\n\tBlue\n)\n\nconst AColor Color = Green // gomacro:no-enum\n"
	case "flagged-default-middle":
		enumDecl = "type Color uint8\n\nconst (\n\tRed   Color = iota // red color\n\tGreen              // green color\n\tBlue\n)\n\nconst Fallback Color = Green // gomacro:no-enum\n"
	case "dup-values":
		enumDecl = "type Color int\n\nconst (\n\tRed   Color = 0 // red color\n\tGreen Color = 0\n\tBlue  Color = 1\n)\n"
	}

	// ---- unions
	var decls []string // declarations of the analysed file, in order
	add := func(d string) {
		if strings.TrimSpace(d) != "" {
			decls = append(decls, strings.TrimRight(d, "\n"))
		}
	}
	var methods []string
	add(enumDecl)
	shapeDecl := "type Shape interface {\n\tisShape()\n}"
	if unionForm == "extra-marker-method" {
		shapeDecl = "type Shape interface {\n\tisShape()\n\tArea() float64\n}"
		methods = append(methods, "func (Circle) Area() float64 { return 0 }", "func (Square) Area() float64 { return 1 }")
	}
	add(shapeDecl)
	circleSlot := ""
	if host == "union-member" && !slotAbsent {
		circleSlot = fmt.Sprintf("\t%s %s %s\n", slotName, slot.typ, slotTag)
	}
	if slotFirst {
		add(fmt.Sprintf("type Circle struct {\n%s\tRadius int\n}", circleSlot))
	} else {
		add(fmt.Sprintf("type Circle struct {\n\tRadius int\n%s}", circleSlot))
	}
	methods = append(methods, "func (Circle) isShape() {}")
	squareEmb := ""
	if embedded == "unexported-in-member" {
		squareEmb = "\tbase\n"
	}
	if unionForm != "1-struct" {
		if unionForm == "member-in-other-file" {
			b.WriteString("type Square struct {\n" + squareEmb + "\tSide float64\n}\n\n")
		} else {
			add("type Square struct {\n" + squareEmb + "\tSide float64\n}")
		}
		methods = append(methods, "func (Square) isShape() {}")
	} else {
		add("type Square struct {\n" + squareEmb + "\tSide float64\n}")
	}
	add("type Count int")
	switch unionForm {
	case "named-int-member":
		methods = append(methods, "func (Count) isShape() {}")
	case "named-slice-member":
		add("type Points []int")
		methods = append(methods, "func (Points) isShape() {}")
	case "named-map-member":
		add("type Attrs map[string]string")
		methods = append(methods, "func (Attrs) isShape() {}")
	case "pointer-receiver-non-member":
		add("type Ghost struct {\n\tG int\n}")
		methods = append(methods, "func (*Ghost) isShape() {}")
	case "enum-member":
		methods = append(methods, "func (Color) isShape() {}")
	case "generic-phantom-member":
		// a generic struct whose parameter does not appear in its fields has the marker method
		add("type Phantom[T any] struct {\n\tLabel string\n}")
		methods = append(methods, "func (Phantom[T]) isShape() {}")
	case "member-by-embedding":
		// no method of its own: it implements Shape through the method promoted from Square
		add("type Disc struct {\n\tSquare\n\tTint string\n}")
	}
	secondField := ""
	switch second {
	case "shares-member-different-prefix":
		add("type Figure interface {\n\tisFigure()\n}")
		add("type Blob2 struct {\n\tB int\n}")
		methods = append(methods, "func (Circle) isFigure() {}", "func (Blob2) isFigure() {}")
		secondField = "\tFig Figure\n"
	case "shares-member-same-prefix":
		add("type Shade interface {\n\tisShade()\n}")
		add("type Dark struct {\n\tD int\n}")
		methods = append(methods, "func (Circle) isShade() {}", "func (Dark) isShade() {}")
		secondField = "\tShd Shade\n"
	case "same-name-in-sub":
		secondField = "\tSubSh subpkg.Shape\n"
	case "disjoint":
		add("type Animal interface {\n\tisAnimal()\n}")
		add("type Cat struct {\n\tLives int\n}")
		add("type Dog struct {\n\tName string\n}")
		methods = append(methods, "func (Cat) isAnimal() {}", "func (Dog) isAnimal() {}")
		secondField = "\tPet Animal\n"
	}
	contField := ""
	switch container {
	case "named-slice":
		add("type Shapes []Shape")
		contField = "\tAll Shapes\n"
	case "named-map":
		add("type ShapeMap map[string]Shape")
		contField = "\tAll ShapeMap\n"
	case "named-array":
		add("type ShapePair [2]Shape")
		contField = "\tAll ShapePair\n"
	case "two-named-slices": // two named slices over one union
		add("type Shapes []Shape")
		add("type Foreground []Shape")
		contField = "\tAll  Shapes\n\tFore Foreground\n"
	case "two-named-maps":
		add("type ShapeMap map[string]Shape")
		add("type ShapeByID map[int]Shape")
		contField = "\tAll  ShapeMap\n\tByID ShapeByID\n"
	case "named-array-5": // longer than the 3 to 7 elements of a generated random slice can be
		add("type ShapeRow [8]Shape")
		contField = "\tAll ShapeRow\n"
	case "named-map-enum-key":
		add("type ShapeByColor map[Color]Shape")
		contField = "\tAll ShapeByColor\n"
	case "named-map-named-key":
		add("type ShapeByCount map[Count]Shape")
		contField = "\tAll ShapeByCount\n"
	}

	// ---- embedded
	embField := ""
	switch embedded {
	case "exported":
		add("type Base struct {\n\tCreated int\n\tOwner   string `json:\"owner\"`\n}")
		embField = "\tBase\n"
	case "unexported":
		add("type base struct {\n\tCreated int\n\tOwner   string\n}")
		embField = "\tbase\n"
	case "tagged":
		add("type Base struct {\n\tCreated int\n\tOwner   string\n}")
		embField = "\tBase `json:\"base\"`\n"
	case "tagged-same-name":
		add("type Base struct {\n\tCreated int\n\tOwner   string\n}")
		embField = "\tBase `json:\"Base\"`\n"
	case "tagged-omitempty":
		add("type Base struct {\n\tCreated int\n\tOwner   string\n}")
		embField = "\tBase `json:\",omitempty\"`\n"
	case "unexported-in-member":
		// an unexported struct type embedded in a struct that holds no union (the union member Square)
		add("type base struct {\n\tCreated int\n\tOwner   string\n}")
	case "pointer":
		add("type Base struct {\n\tCreated int\n\tOwner   string\n}")
		embField = "\t*Base\n"
	case "shared-first-3":
		// a struct with three fields embedded first by two structs that each add one field
		add("type Base3 struct {\n\tA1 int\n\tA2 string\n\tA3 bool\n}")
		add("type Invoice struct {\n\tBase3\n\tTotal int\n}")
		add("type Customer struct {\n\tBase3\n\tEmail string\n}")
		embField = "\tInv   Invoice\n\tCust  Customer\n"
	case "tagged-omitempty-holding-union":
		// the embedded struct holds a union itself (it has JSON routines of its own, which Go promotes)
		add("type UBase struct {\n\tCreated int\n\tSub     Shape\n}")
		embField = "\tUBase `json:\",omitempty\"`\n"
	case "refers-back":
		// an embedded struct declared before the struct embedding it, and referring back to it
		add("type Base struct {\n\tCreated int\n\tOwner   string\n\tKids    []Item\n}")
		embField = "\tBase\n"
	case "other-file":
		// the embedded struct is declared outside the analysed file and used nowhere else
		b.WriteString("type Base struct {\n\tCreated int\n\tOwner   string\n}\n\n")
		embField = "\tBase\n"
	case "from-sub":
		embField = "\tsubpkg.Base\n"
	case "non-struct":
		embField = "\tCount\n"
	}

	if twins == "yes" {
		// a second named slice of the union whose name differs from Shapes by the case of its first letter only
		add("type shapes []Shape")
	}
	if extraEnums == "negative-then-iota" {
		// an enum with a large member sorted before a negative one, next to an iota-like enum whose
		// names are not in value order (what one enum leaves behind must not reach the next one)
		add("type Trend int\n\nconst (\n\tBoom  Trend = 10\n\tCrash Trend = -10\n)")
		add("type Grade uint8\n\nconst (\n\tGLow Grade = iota\n\tGMid\n\tGHigh\n)")
	}
	if reexport == "yes" {
		// the importing package declares a typed constant of an enum of the sub package
		add("const DefaultKind = subpkg.Fancy")
	}

	// ---- slot
	add(slot.declA)
	b.WriteString(slot.declB)
	b.WriteString("\n")
	itemSlot := ""
	if host == "struct" && !slotAbsent {
		itemSlot = fmt.Sprintf("\t%s %s %s\n", slotName, slot.typ, slotTag)
	}
	if host == "nested-struct" {
		if slotAbsent {
			add("type Inner struct {\n\tDepth int\n}")
		} else {
			if slotFirst {
				add(fmt.Sprintf("type Inner struct {\n\t%s %s %s\n\tDepth int\n}", slotName, slot.typ, slotTag))
			} else {
				add(fmt.Sprintf("type Inner struct {\n\tDepth int\n\t%s %s %s\n}", slotName, slot.typ, slotTag))
			}
		}
		itemSlot = "\tIn    Inner\n\tIns   []Inner\n"
	}
	itemSlotFirst := ""
	if slotFirst && host == "struct" {
		itemSlotFirst, itemSlot = itemSlot, ""
	}
	item := "type Item struct {\n" + itemSlotFirst + embField +
		"\tName  string " + neighbourTag + "\n" +
		"\tSh    Shape " + unionFieldTag + "\n" +
		"\tN     int\n" +
		"\tCol   Color\n" +
		contField + secondField +
		"\tPair  [2]int\n" +
		"\tDict  map[string]int\n" +
		"\tAt    time.Time\n" +
		"\tInfo  subpkg.Info\n" +
		"\tCnt   Count\n" +
		"\tOpt   Color `json:\"opt,omitempty\"`\n" +
		"\tTags  []string `json:\"tags,omitempty\"`\n" +
		itemSlot + "}"
	add(item)

	// ---- assemble the analysed file
	if style == "grouped" {
		// group the consecutive type declarations into type ( ... ) blocks
		var out []string
		var grp []string
		flush := func() {
			if len(grp) > 0 {
				out = append(out, "type (\n"+indent(strings.Join(grp, "\n\n"))+"\n)")
				grp = nil
			}
		}
		for _, d := range decls {
			if strings.HasPrefix(d, "type ") && !strings.Contains(d, "\nconst") && !strings.Contains(d, "\nfunc") && !strings.Contains(d, "\ntype ") && !strings.Contains(d, "[T any]") {
				grp = append(grp, strings.TrimPrefix(d, "type "))
			} else {
				flush()
				out = append(out, d)
			}
		}
		flush()
		decls = out
	}
	a.WriteString(strings.Join(decls, "\n\n"))
	a.WriteString("\n\n")
	a.WriteString(strings.Join(methods, "\n"))
	a.WriteString("\n")

	if secondFile == "union-over-first-file" {
		// the second analysed file declares a union, one member of which is declared in the first file
		cfile.WriteString("type Outline interface {\n\tisOutline()\n}\n\ntype Blot struct {\n\tB int\n}\n\nfunc (Blot) isOutline()   {}\nfunc (Circle) isOutline() {}\n\ntype Plan struct {\n\tMain Outline\n}\n")
	}
	if secondFile == "yes" {
		cfile.WriteString("type Extra struct {\n\tIt   Item\n\tK    subpkg.Kind\n\tMore []Square\n\tID   subpkg.Ident\n}\n\ntype ExtraList []Extra\n")
	}

	finish := func(pkgName string, body string, isSub bool) string {
		// renames (root package only: the sub package keeps its own names)
		body = strings.ReplaceAll(body, "subpkg.Shape", "subpkg.@SH@")
		for from, to := range rename {
			if isSub {
				break
			}
			body = regexp.MustCompile(`\b`+from+`\b`).ReplaceAllString(body, to)
		}
		body = strings.ReplaceAll(body, "subpkg.@SH@", "subpkg.Shape")
		if subName != "subpkg" {
			body = regexp.MustCompile(`\bsubpkg\.`).ReplaceAllString(body, subName+".")
		}
		var imps []string
		for q, path := range map[string]string{"time.": "time", "sql.": "database/sql", "fmt.": "fmt", "json.": "encoding/json"} {
			if regexp.MustCompile(`\b` + regexp.QuoteMeta(q)).MatchString(body) {
				imps = append(imps, fmt.Sprintf("\t%q", path))
			}
		}
		if !isSub && regexp.MustCompile(`\b`+subName+`\.`).MatchString(body) {
			imps = append(imps, fmt.Sprintf("\t%q", subPath))
		}
		if !isSub && strings.Contains(body, "proj.") {
			imps = append(imps, fmt.Sprintf("\t%q", prog.Module))
		}
		if !isSub && strings.Contains(body, "sub2.") {
			imps = append(imps, fmt.Sprintf("\t%q", rootPath+"/sub2"))
		}
		sort.Strings(imps)
		hdr := "package " + pkgName + "\n\n"
		if len(imps) > 0 {
			hdr += "import (\n" + strings.Join(imps, "\n") + "\n)\n\n"
		}
		return hdr + body
	}

	p := &prog.Program{Family: "F-types", Analysed: []string{"a.go"}, Features: s.Feats}
	useSub2 := strings.Contains(slot.typ, "sub2.")
	if dartRoot == "outside-go-src" {
		p.SrcRoot = "/virt/work"
	}
	p.Pkgs = append(p.Pkgs, &prog.Pkg{Path: subPath, Name: subName, Files: []prog.File{{Name: "sub.go", Src: finish(subName, sub.String(), true)}}})
	if useSub2 {
		// a third package importing the second one (diamond: root -> sub2 -> subpkg <- root)
		src := "package sub2\n\nimport \"" + subPath + "\"\n\ntype Delivery struct {\n\tTo   " + subName + ".Info\n\tKind " + subName + ".Kind\n}\n\ntype Route struct {\n\tStops []Delivery\n\tIDs   []" + subName + ".Ident\n}\n"
		p.Pkgs = append(p.Pkgs, &prog.Pkg{Path: rootPath + "/sub2", Name: "sub2", Files: []prog.File{{Name: "sub2.go", Src: src}}})
	}
	if strings.Contains(slot.typ, "proj.") {
		// the package whose import path is the two-element prefix of the tree (the module root)
		p.Pkgs = append(p.Pkgs, &prog.Pkg{Path: prog.Module, Name: "proj", Files: []prog.File{{Name: "level.go", Src: ModuleRootSrc}}})
	}
	root := &prog.Pkg{Path: rootPath, Name: rootName, Files: []prog.File{
		{Name: "a.go", Src: finish(rootName, a.String(), false)},
		{Name: "b.go", Src: finish(rootName, b.String(), false)},
	}}
	if style == "same-line" {
		// several declarations starting on one line, not in alphabetical order (legal, not gofmt'ed)
		root.Files[0].RawTail = "type Zeta struct{ Z int }; type Alpha string\n\ntype ( Second int; First []Second )\n"
	}
	if secondFile != "no" {
		root.Files = append(root.Files, prog.File{Name: "c.go", Src: finish(rootName, cfile.String(), false)})
		p.Analysed = append(p.Analysed, "c.go")
	}
	p.Pkgs = append(p.Pkgs, root)
	p.Notes = map[string]string{"slot": slot.label, "host": host, "slotName": slotName}
	return p
}

func indent(s string) string {
	lines := strings.Split(s, "\n")
	for i, l := range lines {
		if l != "" {
			lines[i] = "\t" + l
		}
	}
	return strings.Join(lines, "\n")
}
