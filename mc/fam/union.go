package fam

import (
	"fmt"
	"strings"

	"verif.test/mc/explore"
	"verif.test/mc/prog"
)

// Union is the F-union family (DESIGN §3.3): interfaces with 0..2 marker
// methods, candidate implementers of several kinds with value / pointer
// receivers, in the root or a sub package, and several ways to reach the union.
func Union(c explore.Chooser) *prog.Program {
	s := &S{C: c}
	rootPath := prog.Base() + "/un"
	subPath := rootPath + "/sub"

	marker := s.Pick("Shape.marker", "isShape", "IsShape")
	nmeth := s.Pick("Shape.methods", "1", "0", "2")
	second := s.Pick("I2", "absent", "other", "embeds-shape", "in-sub", "unreached", "two-more", "in-sub-diamond", "in-module-root")
	reach := s.Pick("reach", "field", "named-slice", "named-map", "top-level-only", "alias", "member-field", "nested-struct", "alias-of-member")

	homonym := s.Pick("homonym", "none", "square-in-sub")
	shapeFile := s.Pick("Shape.file", "analysed", "other")
	// the package clause of the sub package: its own name, or the name of the root package (two
	// packages of one name on two import paths; the importers then name it sub explicitly)
	subClause := s.Pick("sub.pkgname", "sub", "un")
	subImp := func(path string) string {
		if subClause == "sub" {
			return fmt.Sprintf("%q", path)
		}
		return fmt.Sprintf("sub %q", path)
	}

	var a, b, sub strings.Builder
	needSub := false

	// interfaces (Shape in the analysed file, or in the other file of the package: it is then only
	// reached through the declarations that mention it)
	shapeOut := &a
	if shapeFile == "other" {
		shapeOut = &b
	}
	switch nmeth {
	case "1":
		fmt.Fprintf(shapeOut, "type Shape interface {\n\t%s()\n}\n\n", marker)
	case "0":
		shapeOut.WriteString("type Shape interface{}\n\n")
	case "2":
		fmt.Fprintf(shapeOut, "type Shape interface {\n\t%s()\n\tArea() int\n}\n\n", marker)
	}
	switch second {
	case "other", "unreached":
		a.WriteString("type Other interface {\n\tisOther()\n}\n\n")
	case "two-more":
		// three unions in all; a struct implementing the three of them reports them in name order
		a.WriteString("type Other interface {\n\tisOther()\n}\n\ntype Extra interface {\n\tisExtra()\n}\n\n")
	case "embeds-shape":
		a.WriteString("type Other interface {\n\tShape\n\tisOther()\n}\n\n")
	case "in-sub", "in-sub-diamond":
		needSub = true
		sub.WriteString("type Animal interface {\n\tisAnimal()\n}\n\ntype Cat struct {\n\tLives int\n}\n\nfunc (Cat) isAnimal() {}\n\ntype Dog struct {\n\tName string\n}\n\nfunc (Dog) isAnimal() {}\n\ntype Fish int\n\nfunc (*Fish) isAnimal() {}\n\n")
	}

	// candidates
	type cand struct {
		name         string
		defKind      string
		defImpl      string
		defOtherImpl string
	}
	cands := []cand{
		{"Circle", "struct", "value", "value"},
		{"Square", "struct", "value", "none"},
		{"Count", "int", "none", "none"},
		{"Tags", "slice", "none", "none"},
	}
	circleKind := ""
	kindsAll := []string{"struct", "int", "slice", "map", "interface", "struct-other-file", "struct-in-sub", "struct-promoted-methods", "struct-promoted-pointer-methods"}
	implAll := []string{"value", "pointer", "none"}
	for _, k := range cands {
		site := k.name
		kind := s.Pick(site+".kind", append([]string{k.defKind}, without(kindsAll, k.defKind)...)...)
		impl := s.Pick(site+".impl", append([]string{k.defImpl}, without(implAll, k.defImpl)...)...)
		oimpl := "none"
		if second == "other" || second == "embeds-shape" || second == "unreached" || second == "two-more" {
			oimpl = s.Pick(site+".implOther", append([]string{k.defOtherImpl}, without(implAll, k.defOtherImpl)...)...)
		}
		if k.name == "Circle" {
			circleKind = kind
		}
		out := &a
		pkgOfK := "root"
		switch kind {
		case "struct-other-file":
			out = &b
		case "struct-in-sub":
			out = &sub
			needSub = true
			pkgOfK = "sub"
		}
		recv := func(ptr bool) string {
			if ptr {
				return "(*" + k.name + ")"
			}
			return "(" + k.name + ")"
		}
		var methods []string // interface method list for kind == interface
		addMethod := func(impl, name, sig, body string) {
			if impl == "none" {
				return
			}
			if kind == "interface" {
				methods = append(methods, "\t"+name+"()"+sig)
				return
			}
			fmt.Fprintf(out, "func %s %s()%s {%s}\n\n", recv(impl == "pointer"), name, sig, body)
		}
		switch kind {
		case "struct-promoted-methods", "struct-promoted-pointer-methods":
			// the type declares no method itself: its method set comes from an embedded base
			base := "base" + k.name
			fmt.Fprintf(out, "type %s struct {\n\tB%s int\n}\n\ntype %s struct {\n\t%s\n\tV%s int\n}\n\n", base, k.name, k.name, base, k.name)
			ptr := kind == "struct-promoted-pointer-methods"
			r := "(" + base + ")"
			if ptr {
				r = "(*" + base + ")"
			}
			if impl != "none" && nmeth != "0" {
				fmt.Fprintf(out, "func %s %s() {}\n\n", r, marker)
				if nmeth == "2" && (k.name == "Circle" || k.name == "Count") {
					fmt.Fprintf(out, "func %s Area() int { return 0 }\n\n", r)
				}
			}
			if oimpl != "none" {
				fmt.Fprintf(out, "func %s isOther() {}\n\n", r)
				if second == "two-more" {
					fmt.Fprintf(out, "func %s isExtra() {}\n\n", r)
				}
			}
			impl, oimpl = "none", "none" // no method of its own
		case "struct", "struct-other-file", "struct-in-sub":
			fmt.Fprintf(out, "type %s struct {\n\tV%s int\n}\n\n", k.name, k.name)
		case "int":
			fmt.Fprintf(out, "type %s int\n\n", k.name)
		case "slice":
			fmt.Fprintf(out, "type %s []string\n\n", k.name)
		case "map":
			fmt.Fprintf(out, "type %s map[string]int\n\n", k.name)
		}
		shapeMarker := marker
		if pkgOfK == "sub" && marker == "isShape" {
			// an unexported method of another package can never implement root's interface
			shapeMarker = "isShape"
		}
		if nmeth != "0" {
			addMethod(impl, shapeMarker, "", "")
		}
		if nmeth == "2" && (k.name == "Circle" || k.name == "Count") {
			addMethod(impl, "Area", " int", " return 0 ")
		}
		if pkgOfK == "root" {
			addMethod(oimpl, "isOther", "", "")
			if second == "two-more" {
				addMethod(oimpl, "isExtra", "", "")
			}
		}
		if kind == "interface" {
			fmt.Fprintf(out, "type %s interface {\n%s\n}\n\n", k.name, strings.Join(methods, "\n"))
		}
	}

	// reach
	var holder []string
	if homonym == "square-in-sub" && !strings.Contains(sub.String(), "type Square ") {
		// a struct of another package spelled like a member of Shape; it implements nothing
		sub.WriteString("type Square struct {\n\tW int\n}\n\n")
		needSub = true
		holder = append(holder, "\tH sub.Square")
	}
	switch reach {
	case "field":
		holder = append(holder, "\tS Shape")
	case "named-slice":
		a.WriteString("type Shapes []Shape\n\n")
		holder = append(holder, "\tS Shapes")
	case "named-map":
		a.WriteString("type ShapeMap map[string]Shape\n\n")
		holder = append(holder, "\tS ShapeMap")
	case "top-level-only":
		holder = append(holder, "\tN int")
	case "alias":
		a.WriteString("type AnyShape = Shape\n\n")
		holder = append(holder, "\tS AnyShape")
	case "alias-of-member":
		// an alias of a member declared after the member: the node of the member must be shared
		ref := "Circle"
		if circleKind == "struct-in-sub" {
			ref = "sub.Circle"
		}
		a.WriteString("type AnyCircle = " + ref + "\n\n")
		holder = append(holder, "\tS Shape", "\tAC AnyCircle")
	case "member-field":
		// the union is reached only through a struct that is itself declared in the file
		a.WriteString("type Inner struct {\n\tS Shape\n}\n\n")
		holder = append(holder, "\tI Inner")
	case "nested-struct":
		a.WriteString("type Inner struct {\n\tS Shape\n\tL []Shape2\n}\n\ntype Shape2 = Shape\n\n")
		holder = append(holder, "\tI []Inner")
	}
	switch second {
	case "two-more":
		holder = append(holder, "\tO Other", "\tE Extra")
	case "other", "embeds-shape":
		holder = append(holder, "\tO Other")
	case "in-sub":
		holder = append(holder, "\tA sub.Animal", "\tC sub.Cat")
	case "in-module-root": // a union declared in the package whose import path is the two-element prefix of the tree
		holder = append(holder, "\tB proj.Beast")
	case "in-sub-diamond": // the package of the union is reached by two import paths (un -> sub, un -> mid -> sub)
		holder = append(holder, "\tA sub.Animal", "\tC sub.Cat", "\tK mid.Kennel")
	}
	// a direct field on a candidate so that struct members are also reached as plain fields
	switch circleKind {
	case "struct", "struct-other-file", "struct-promoted-methods", "struct-promoted-pointer-methods":
		holder = append(holder, "\tC1 Circle")
	case "struct-in-sub":
		holder = append(holder, "\tC1 sub.Circle")
	}
	fmt.Fprintf(&a, "type Holder struct {\n%s\n}\n", strings.Join(holder, "\n"))

	hdr := "package un\n\n"
	asrc := a.String()
	if second == "in-module-root" {
		if needSub && strings.Contains(asrc, "sub.") {
			hdr += fmt.Sprintf("import (\n\t%q\n\t%s\n)\n\n", prog.Module, subImp(subPath))
		} else {
			hdr += fmt.Sprintf("import %q\n\n", prog.Module)
		}
	} else if second == "in-sub-diamond" {
		hdr += fmt.Sprintf("import (\n\t%q\n\t%s\n)\n\n", rootPath+"/mid", subImp(subPath))
	} else if needSub && strings.Contains(asrc, "sub.") {
		hdr += fmt.Sprintf("import %s\n\n", subImp(subPath))
	}
	p := &prog.Program{Family: "F-union", Analysed: []string{"a.go"}, Features: s.Feats}
	if needSub {
		p.Pkgs = append(p.Pkgs, &prog.Pkg{Path: subPath, Name: subClause, Files: []prog.File{{Name: "sub.go", Src: "package " + subClause + "\n\n" + sub.String()}}})
	}
	if second == "in-module-root" {
		p.Pkgs = append(p.Pkgs, &prog.Pkg{Path: prog.Module, Name: "proj", Files: []prog.File{{Name: "beasts.go", Src: "package proj\n\ntype Beast interface {\n\tisBeast()\n}\n\ntype Lion struct {\n\tMane int\n}\n\nfunc (Lion) isBeast() {}\n\ntype Wolf struct {\n\tPack string\n}\n\nfunc (Wolf) isBeast() {}\n"}}})
	}
	if second == "in-sub-diamond" {
		p.Pkgs = append(p.Pkgs, &prog.Pkg{Path: rootPath + "/mid", Name: "mid", Files: []prog.File{{Name: "mid.go", Src: "package mid\n\nimport " + subImp(subPath) + "\n\ntype Kennel struct {\n\tDogs []sub.Dog\n}\n"}}})
	}
	bsrc := "package un\n\n" + b.String()
	if needSub && !strings.Contains(asrc, "sub.") {
		// keep the sub package imported so that it belongs to the analysed tree
		bsrc = "package un\n\nimport _ \"" + subPath + "\"\n\n" + b.String()
	}
	p.Pkgs = append(p.Pkgs, &prog.Pkg{Path: rootPath, Name: "un", Files: []prog.File{{Name: "a.go", Src: hdr + asrc}, {Name: "b.go", Src: bsrc}}})
	return p
}
