// Package explore implements the deviation-bounded choice-vector explorer
// used by every check: a run is a deterministic function that asks a Chooser
// for each decision; the explorer replays a prefix, answers 0 (the default)
// afterwards and recurses over every later point and every alternative whose
// cost keeps the total number of deviations within the bound.
package explore

import (
	"fmt"
	"strings"
)

// Chooser is asked for every decision of a run. n >= 1; 0 is the default.
type Chooser interface {
	Choose(site string, n int) int
}

// Point is one choice point met during a run.
type Point struct {
	Site string
	N    int
}

// Run is a Chooser replaying a prefix and answering 0 afterwards.
type Run struct {
	Prefix  []int
	Points  []Point
	Choices []int
}

func NewRun(prefix []int) *Run { return &Run{Prefix: prefix} }

func (r *Run) Choose(site string, n int) int {
	if n < 1 {
		panic(fmt.Sprintf("explore: site %s with %d alternatives", site, n))
	}
	i := len(r.Points)
	c := 0
	if i < len(r.Prefix) {
		c = r.Prefix[i]
		if c >= n {
			panic(fmt.Sprintf("explore: diverging replay at point %d (%s): choice %d out of %d", i, site, c, n))
		}
	}
	r.Points = append(r.Points, Point{site, n})
	r.Choices = append(r.Choices, c)
	return c
}

// Cost is the number of non-default answers.
func Cost(vec []int) int {
	c := 0
	for _, v := range vec {
		if v != 0 {
			c++
		}
	}
	return c
}

// Features names the non default choices of a run.
func (r *Run) Features() []string {
	var out []string
	for i, c := range r.Choices {
		if c != 0 {
			out = append(out, fmt.Sprintf("%s=%d", r.Points[i].Site, c))
		}
	}
	return out
}

// Vec is a trimmed copy of the choices (trailing zeros removed).
func (r *Run) Vec() []int { return Trim(r.Choices) }

func Trim(v []int) []int {
	n := len(v)
	for n > 0 && v[n-1] == 0 {
		n--
	}
	return append([]int{}, v[:n]...)
}

func VecString(v []int) string {
	s := make([]string, len(v))
	for i, x := range v {
		s[i] = fmt.Sprint(x)
	}
	return strings.Join(s, ".")
}

// Stats counts what an enumeration did.
type Stats struct {
	Runs        int // executions of the run function
	Transitions int // (prefix, alternative) edges expanded
}

// Enumerate explores every choice vector with at most bound deviations.
// visit is called once per complete run, in DFS order. The function f must be
// deterministic in the answers it receives.
func Enumerate(bound int, f func(c Chooser), visit func(r *Run), st *Stats) {
	var rec func(prefix []int, cost int)
	rec = func(prefix []int, cost int) {
		r := NewRun(prefix)
		f(r)
		st.Runs++
		if len(r.Choices) < len(prefix) {
			panic("explore: diverging replay: run shorter than its prefix")
		}
		visit(r)
		if cost >= bound {
			return
		}
		for i := len(prefix); i < len(r.Points); i++ {
			for alt := 1; alt < r.Points[i].N; alt++ {
				next := make([]int, i+1)
				copy(next, r.Choices[:i])
				next[i] = alt
				st.Transitions++
				rec(next, cost+1)
			}
		}
	}
	rec(nil, 0)
}

// EnumerateSharded is Enumerate restricted to one shard: the root run belongs to shard 0 and the
// k-th level-1 subtree (first deviation) to shard k mod n. The union over the shards is Enumerate.
func EnumerateSharded(bound int, f func(c Chooser), visit func(r *Run), st *Stats, shard, n int) {
	if n <= 1 {
		Enumerate(bound, f, visit, st)
		return
	}
	var rec func(prefix []int, cost int, mine bool)
	k := 0
	rec = func(prefix []int, cost int, mine bool) {
		r := NewRun(prefix)
		f(r)
		st.Runs++
		if len(r.Choices) < len(prefix) {
			panic("explore: diverging replay: run shorter than its prefix")
		}
		if mine {
			visit(r)
		}
		if cost >= bound {
			return
		}
		for i := len(prefix); i < len(r.Points); i++ {
			for alt := 1; alt < r.Points[i].N; alt++ {
				sub := mine
				if cost == 0 {
					sub = k%n == shard
					k++
					if !sub {
						continue
					}
				}
				next := make([]int, i+1)
				copy(next, r.Choices[:i])
				next[i] = alt
				st.Transitions++
				rec(next, cost+1, sub)
			}
		}
	}
	rec(nil, 0, shard == 0)
}

// Fixed is a Chooser answering from a stored vector (0 afterwards), used by replays.
type Fixed struct {
	Vec []int
	pos int
}

func (f *Fixed) Choose(site string, n int) int {
	c := 0
	if f.pos < len(f.Vec) {
		c = f.Vec[f.pos]
	}
	f.pos++
	if c >= n {
		panic(fmt.Sprintf("explore: replay choice %d out of range %d at %s", c, n, site))
	}
	return c
}
