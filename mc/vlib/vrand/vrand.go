// Package vrand stands in for math/rand inside compiled batches (DESIGN §4 C15): every
// random draw of the generated code is a choice point of the explorer.
package vrand

import "verif.test/mc/explore"

var (
	C     explore.Chooser
	Calls int
	// Limit on the number of draws of one call of a generated function (non-termination guard).
	Limit = 100000
)

// SweepSpec drives one call in table-sweep mode (see pick).
type SweepSpec struct {
	Index, Value int
	Hit          bool // the designated draw was reached with a range holding Value
	seen         int
}

// Seen reports how many draws on a range of 9..64 values the call made.
func (s *SweepSpec) Seen() int { return s.seen }

// Sweep, when set, overrides C.
var Sweep *SweepSpec

type LimitExceeded struct{}

func (LimitExceeded) Error() string { return "random draws limit exceeded (non-termination)" }

func tick() {
	Calls++
	if Calls > Limit {
		panic(LimitExceeded{})
	}
}

// alternatives for n possible results: all of them when n <= 8, else {0, n-1, n/3, n/2}.
func pick(site string, n int) int {
	tick()
	if n <= 0 {
		panic("invalid argument to Intn")
	}
	if Sweep != nil {
		// table sweep: every draw answers 0, except the Sweep.Index-th draw on a range of 9..64 values
		// (an index into a small table), which answers Sweep.Value
		if n > 8 && n <= 64 {
			i := Sweep.seen
			Sweep.seen++
			if i == Sweep.Index && Sweep.Value < n {
				Sweep.Hit = true
				return Sweep.Value
			}
		}
		return 0
	}
	if C == nil {
		return 0
	}
	if n <= 8 {
		c := C.Choose(site, n)
		if c != 0 {
			Deviated = true
		}
		return c
	}
	switch C.Choose(site, 4) {
	case 1:
		Deviated, Boundary = true, true
		return n - 1
	case 2:
		Deviated = true
		return n / 3
	case 3:
		Deviated = true
		return n / 2
	}
	Boundary = true // the default answer 0 is an end of the range too
	return 0
}

// Deviated: the current call made at least one non-default draw. Boundary: one of its draws on a
// large range was an end of that range (0 or n-1). A call without boundary draw only drew values
// from the interior of the large ranges (and anything from the small ones), where real draws fall
// almost surely.
var Deviated, Boundary bool

func Intn(n int) int       { return pick("Intn", n) }
func Int31n(n int32) int32 { return int32(pick("Int31n", int(n))) }
func Int63n(n int64) int64 { return int64(pick("Int63n", int(n))) }
func Int31() int32 {
	return []int32{1234567, 0, 1<<31 - 1}[pick("Int31", 3)]
}
func Int63() int64 { return int64(Int31()) }
func Int() int     { return int(Int31()) }
func Float64() float64 {
	return []float64{0.5, 0, 0.999}[pick("Float64", 3)]
}
func Float32() float32 { return float32(Float64()) }
