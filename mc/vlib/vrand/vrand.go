// Package vrand stands in for math/rand inside compiled batches (DESIGN §4 C15): every
// random draw of the generated code is a choice point of the explorer.
package vrand

import "verif.test/mc/explore"

var (
	C     explore.Chooser
	Calls int
	// Limit on the number of draws of one call of a generated function (non-termination guard).
	Limit = 100000
)

type LimitExceeded struct{}

func (LimitExceeded) Error() string { return "random draws limit exceeded (non-termination)" }

func tick() {
	Calls++
	if Calls > Limit {
		panic(LimitExceeded{})
	}
}

// alternatives for n possible results: all of them when n <= 8, else {0, 1, n-1}.
func pick(site string, n int) int {
	tick()
	if n <= 0 {
		panic("invalid argument to Intn")
	}
	if C == nil {
		return 0
	}
	if n <= 8 {
		return C.Choose(site, n)
	}
	switch C.Choose(site, 3) {
	case 1:
		return 1
	case 2:
		return n - 1
	}
	return 0
}

func Intn(n int) int       { return pick("Intn", n) }
func Int31n(n int32) int32 { return int32(pick("Int31n", int(n))) }
func Int63n(n int64) int64 { return int64(pick("Int63n", int(n))) }
func Int31() int32 {
	return []int32{1234567, 0, 1<<31 - 1}[pick("Int31", 3)]
}
func Int63() int64 { return int64(Int31()) }
func Int() int     { return int(Int31()) }
func Float64() float64 {
	return []float64{0.5, 0, 0.999}[pick("Float64", 3)]
}
func Float32() float32 { return float32(Float64()) }
