// Package vlib is linked into the compiled batches (DESIGN §3.5): it enumerates values of the
// analysed types by reflection, runs the generated code on them and evaluates the value-level
// oracles of C02, C03, C04 and C15. It never imports gomacro.
package vlib

import (
	"bufio"
	"bytes"
	"encoding"
	"encoding/base64"
	"encoding/json"
	"fmt"
	"os"
	"reflect"
	"runtime/debug"
	"sort"
	"strconv"
	"strings"
	"time"

	"verif.test/mc/explore"
)

// Case is what a generated driver file registers for one program.
type Case struct {
	ID       string
	Types    []reflect.Type                  // analysed types, source order
	Unions   map[reflect.Type][]reflect.Type // union interface -> member types
	Enums    map[reflect.Type][]any          // enum type -> all declared constants
	EnumsExp map[reflect.Type][]any          // enum type -> exported constants
	SkipData map[string]bool                 // "Type.Field" tagged gomacro-data:"ignore"
	Rand     map[reflect.Type]func() any     // generated random functions
	TSNames  map[reflect.Type]string
	TS       string
	SQL      string
	JSONB    map[string]reflect.Type // "table.column" -> Go type of the jsonb column

}

// Shard / NShards: the explorations of this process cover the level-1 subtrees k with k mod NShards == Shard.
var Shard, NShards = 0, 1

// Sel reports whether program-level work (done once per case) belongs to this shard.
func (c *Case) Sel(i int) bool { return Shard == 0 }

var (
	cases   []*Case
	budgets = map[string]int{}
)

func Register(c *Case) { cases = append(cases, c) }

// SetBudget fixes the value / rand deviation budget of one case (shared with the program's own deviations).
func SetBudget(id string, n int) { budgets[id] = n }

type Failure struct {
	Clause string `json:"clause"`
	Sig    string `json:"sig"`
	Detail string `json:"detail"`
	Cost   int    `json:"cost"`
}

type CaseResult struct {
	Case     string              `json:"case"`
	Failures []Failure           `json:"failures"`
	Counts   map[string]int      `json:"counts"`
	Sets     map[string][]string `json:"sets,omitempty"` // merged by union across the shards
	Sample   any                 `json:"sample,omitempty"`
	Done     bool                `json:"done"`
}

func (r *CaseResult) fail(clause, sig, detail string, cost int) {
	for i := range r.Failures {
		if r.Failures[i].Clause == clause && r.Failures[i].Sig == sig {
			if cost < r.Failures[i].Cost {
				r.Failures[i] = Failure{clause, sig, detail, cost}
			}
			return
		}
	}
	if len(r.Failures) < 40 {
		r.Failures = append(r.Failures, Failure{clause, sig, detail, cost})
	}
}

// ------------------------------------------------------------------------------------------
// value enumeration

var timeType = reflect.TypeOf(time.Time{})

type builder struct {
	c     *Case
	ch    explore.Chooser
	depth map[reflect.Type]int
}

func (b *builder) pick(site string, n int) int { return b.ch.Choose(site, n) }

var (
	strAlts   = []string{"abc", "", "é \"q\" <&> \\ \n\t", "a b&c=d"}
	timeAlts  = []time.Time{time.Date(2021, 3, 4, 5, 6, 7, 0, time.UTC), {}, time.Date(1999, 12, 31, 23, 59, 59, 0, time.UTC)}
	keyStr    = []string{"k1", "k2", "k 3"}
	serialTag = func(tag reflect.StructTag) (name string, skip bool) {
		j := tag.Get("json")
		if j == "-" {
			return "", true
		}
		n, _, _ := strings.Cut(j, ",")
		return n, false
	}
)

// build returns a value of type t; choice 0 is always the canonical non-zero value.
func (b *builder) build(t reflect.Type, path string) reflect.Value {
	v := reflect.New(t).Elem()
	if members, ok := b.c.Unions[t]; ok {
		if b.depth[t] >= 2 {
			// recursive union: cut with a member that does not contain the union again
			for _, m := range members {
				if !refersTo(m, t, map[reflect.Type]bool{}) {
					v.Set(b.build(m, path))
					return v
				}
			}
			return v // no finite member: nil (outside the property)
		}
		i := b.pick(path+":member", len(members))
		b.depth[t]++
		v.Set(b.build(members[i], path+"("+members[i].Name()+")"))
		b.depth[t]--
		return v
	}
	if consts, ok := b.c.Enums[t]; ok && len(consts) > 0 {
		i := b.pick(path+":enum", len(consts))
		v.Set(reflect.ValueOf(consts[i]).Convert(t))
		return v
	}
	if t == timeType || isTimeLike(t) {
		i := b.pick(path+":time", len(timeAlts))
		v.Set(reflect.ValueOf(timeAlts[i]).Convert(t))
		return v
	}
	switch t.Kind() {
	case reflect.Bool:
		v.SetBool(b.pick(path+":bool", 2) == 0)
	case reflect.Int, reflect.Int8, reflect.Int16, reflect.Int32, reflect.Int64:
		v.SetInt([]int64{7, 0, -3}[b.pick(path+":int", 3)])
	case reflect.Uint, reflect.Uint8, reflect.Uint16, reflect.Uint32, reflect.Uint64, reflect.Uintptr:
		v.SetUint([]uint64{7, 0, 200}[b.pick(path+":uint", 3)])
	case reflect.Float32, reflect.Float64:
		v.SetFloat([]float64{1.5, 0, -2}[b.pick(path+":float", 3)])
	case reflect.String:
		v.SetString(strAlts[b.pick(path+":string", len(strAlts))])
	case reflect.Struct:
		for i := 0; i < t.NumField(); i++ {
			f := t.Field(i)
			if !f.IsExported() {
				continue // cannot be set (and is not serialised, unless embedded: left zero)
			}
			if _, skip := serialTag(f.Tag); skip {
				continue // json:"-": never on the wire, a round trip cannot preserve it
			}
			v.Field(i).Set(b.build(f.Type, path+"."+f.Name))
		}
	case reflect.Slice:
		if b.depth[t] >= 2 {
			return v // nil: cut the recursion
		}
		b.depth[t]++
		defer func() { b.depth[t]-- }()
		switch b.pick(path+":slice", 5) {
		case 4:
			s := reflect.MakeSlice(t, 3, 3)
			for i := 0; i < 3; i++ {
				s.Index(i).Set(b.build(t.Elem(), fmt.Sprintf("%s[%d]", path, i)))
			}
			v.Set(s)
		case 0:
			s := reflect.MakeSlice(t, 1, 1)
			s.Index(0).Set(b.build(t.Elem(), path+"[0]"))
			v.Set(s)
		case 1: // nil
		case 2:
			v.Set(reflect.MakeSlice(t, 0, 0))
		case 3:
			s := reflect.MakeSlice(t, 2, 2)
			s.Index(0).Set(b.build(t.Elem(), path+"[0]"))
			s.Index(1).Set(b.build(t.Elem(), path+"[1]"))
			v.Set(s)
		}
	case reflect.Array:
		for i := 0; i < t.Len(); i++ {
			v.Index(i).Set(b.build(t.Elem(), fmt.Sprintf("%s[%d]", path, i)))
		}
	case reflect.Map:
		if b.depth[t] >= 2 {
			return v
		}
		b.depth[t]++
		defer func() { b.depth[t]-- }()
		n := []int{1, -1, 0, 2, 3}[b.pick(path+":map", 5)]
		if n < 0 {
			return v
		}
		m := reflect.MakeMap(t)
		for i := 0; i < n; i++ {
			m.SetMapIndex(b.key(t.Key(), i), b.build(t.Elem(), fmt.Sprintf("%s{%d}", path, i)))
		}
		v.Set(m)
	case reflect.Pointer:
		if b.depth[t] >= 2 {
			return v
		}
		b.depth[t]++
		defer func() { b.depth[t]-- }()
		if b.pick(path+":ptr", 2) == 0 {
			p := reflect.New(t.Elem())
			p.Elem().Set(b.build(t.Elem(), path+"*"))
			v.Set(p)
		}
	case reflect.Interface:
		// not a union: nil
	}
	return v
}

func (b *builder) key(t reflect.Type, i int) reflect.Value {
	k := reflect.New(t).Elem()
	if consts, ok := b.c.Enums[t]; ok && len(consts) > 0 {
		k.Set(reflect.ValueOf(consts[i%len(consts)]).Convert(t))
		return k
	}
	switch t.Kind() {
	case reflect.String:
		k.SetString(keyStr[i%3])
	case reflect.Int, reflect.Int8, reflect.Int16, reflect.Int32, reflect.Int64:
		k.SetInt(int64(i + 1))
	case reflect.Uint, reflect.Uint8, reflect.Uint16, reflect.Uint32, reflect.Uint64:
		k.SetUint(uint64(i + 1))
	case reflect.Bool:
		k.SetBool(i == 0)
	case reflect.Float32, reflect.Float64:
		k.SetFloat(float64(i) + 0.5)
	}
	return k
}

func isTimeLike(t reflect.Type) bool {
	return t.Kind() == reflect.Struct && t.ConvertibleTo(timeType) && t.NumField() == timeType.NumField() && t.Field(0).Name == "wall"
}

// refersTo reports whether values of type t can contain values of type target.
func refersTo(t, target reflect.Type, seen map[reflect.Type]bool) bool {
	if t == target {
		return true
	}
	if seen[t] {
		return false
	}
	seen[t] = true
	switch t.Kind() {
	case reflect.Struct:
		for i := 0; i < t.NumField(); i++ {
			if refersTo(t.Field(i).Type, target, seen) {
				return true
			}
		}
	case reflect.Slice, reflect.Array, reflect.Pointer:
		return refersTo(t.Elem(), target, seen)
	case reflect.Map:
		return refersTo(t.Elem(), target, seen) || refersTo(t.Key(), target, seen)
	}
	return false
}

// Values enumerates the values of t with at most budget deviations from the canonical value.
func Values(c *Case, t reflect.Type, budget int, visit func(v reflect.Value, cost int, choices string)) (st explore.Stats) {
	var cur reflect.Value
	explore.EnumerateSharded(budget, func(ch explore.Chooser) {
		b := &builder{c: c, ch: ch, depth: map[reflect.Type]int{}}
		cur = b.build(t, t.Name())
	}, func(r *explore.Run) {
		visit(cur, explore.Cost(r.Choices), strings.Join(r.Features(), " "))
	}, &st, Shard, NShards)
	return st
}

// ------------------------------------------------------------------------------------------
// reference encoder (C02 clause 2): the document encoding/json produces on the original types,
// with every union value replaced by {"Kind": <Go name>, "Data": <member's own JSON>}.

var marshalerType = reflect.TypeOf((*json.Marshaler)(nil)).Elem()

// generated reports whether gounions defines the JSON methods of t (a struct with a union field,
// or a named slice / array / map of unions): those are described structurally by the reference.
func (c *Case) generated(t reflect.Type) bool {
	if t.Name() == "" {
		return false
	}
	isUnion := func(x reflect.Type) bool { _, ok := c.Unions[x]; return ok }
	switch t.Kind() {
	case reflect.Struct:
		for i := 0; i < t.NumField(); i++ {
			if isUnion(t.Field(i).Type) {
				return true
			}
		}
	case reflect.Slice, reflect.Array, reflect.Map:
		return isUnion(t.Elem())
	}
	return false
}

func decodeJSON(b []byte) (any, error) {
	d := json.NewDecoder(bytes.NewReader(b))
	d.UseNumber()
	var out any
	if err := d.Decode(&out); err != nil {
		return nil, err
	}
	return out, nil
}

func (c *Case) viaEncodingJSON(v reflect.Value) (any, error) {
	b, err := json.Marshal(v.Interface())
	if err != nil {
		return nil, err
	}
	return decodeJSON(b)
}

// containsUnion reports whether a value of type t can contain a union value.
func (c *Case) containsUnion(t reflect.Type, seen map[reflect.Type]bool) bool {
	if _, ok := c.Unions[t]; ok {
		return true
	}
	if seen[t] {
		return false
	}
	seen[t] = true
	switch t.Kind() {
	case reflect.Struct:
		for i := 0; i < t.NumField(); i++ {
			if c.containsUnion(t.Field(i).Type, seen) {
				return true
			}
		}
	case reflect.Slice, reflect.Array, reflect.Pointer:
		return c.containsUnion(t.Elem(), seen)
	case reflect.Map:
		return c.containsUnion(t.Elem(), seen) || c.containsUnion(t.Key(), seen)
	}
	return false
}

// NilOrEmpty stands, in a reference document, for a nil named slice / map of unions: the property
// counts nil and empty as equal there, so null, [] and {} are all accepted on the wire.
type NilOrEmpty struct{}

// Ref computes the reference document of v.
func (c *Case) Ref(v reflect.Value) (any, error) {
	t := v.Type()
	if members, ok := c.Unions[t]; ok {
		if v.IsNil() {
			return nil, fmt.Errorf("nil union value (outside the property)")
		}
		dyn := v.Elem()
		found := false
		for _, m := range members {
			if m == dyn.Type() {
				found = true
			}
		}
		if !found {
			return nil, fmt.Errorf("dynamic type %s is not a member", dyn.Type())
		}
		data, err := c.Ref(dyn)
		if err != nil {
			return nil, err
		}
		return map[string]any{"Kind": dyn.Type().Name(), "Data": data}, nil
	}
	if !c.containsUnion(t, map[reflect.Type]bool{}) {
		return c.viaEncodingJSON(v) // encoding/json itself is the reference
	}
	if !c.generated(t) && (t.Implements(marshalerType) || reflect.PointerTo(t).Implements(marshalerType)) {
		return c.viaEncodingJSON(v) // user defined encoding
	}
	switch t.Kind() {
	case reflect.Struct:
		out := map[string]any{}
		if err := c.refStruct(v, out); err != nil {
			return nil, err
		}
		return out, nil
	case reflect.Slice:
		if v.IsNil() {
			if c.generated(t) {
				return NilOrEmpty{}, nil
			}
			return nil, nil
		}
		if t.Elem().Kind() == reflect.Uint8 {
			return base64.StdEncoding.EncodeToString(v.Bytes()), nil
		}
		fallthrough
	case reflect.Array:
		out := make([]any, v.Len())
		for i := range out {
			e, err := c.Ref(v.Index(i))
			if err != nil {
				return nil, err
			}
			out[i] = e
		}
		return out, nil
	case reflect.Map:
		if v.IsNil() {
			if c.generated(t) {
				return NilOrEmpty{}, nil
			}
			return nil, nil
		}
		out := map[string]any{}
		it := v.MapRange()
		for it.Next() {
			k, err := mapKeyString(it.Key())
			if err != nil {
				return nil, err
			}
			e, err := c.Ref(it.Value())
			if err != nil {
				return nil, err
			}
			out[k] = e
		}
		return out, nil
	case reflect.Pointer, reflect.Interface:
		if v.IsNil() {
			return nil, nil
		}
		return c.Ref(v.Elem())
	}
	return c.viaEncodingJSON(v)
}

func mapKeyString(k reflect.Value) (string, error) {
	switch k.Kind() {
	case reflect.String:
		return k.String(), nil
	case reflect.Int, reflect.Int8, reflect.Int16, reflect.Int32, reflect.Int64:
		return strconv.FormatInt(k.Int(), 10), nil
	case reflect.Uint, reflect.Uint8, reflect.Uint16, reflect.Uint32, reflect.Uint64:
		return strconv.FormatUint(k.Uint(), 10), nil
	}
	return "", fmt.Errorf("unsupported map key kind %s", k.Kind())
}

func isEmptyValue(v reflect.Value) bool {
	switch v.Kind() {
	case reflect.Array, reflect.Map, reflect.Slice, reflect.String:
		return v.Len() == 0
	case reflect.Bool, reflect.Int, reflect.Int8, reflect.Int16, reflect.Int32, reflect.Int64,
		reflect.Uint, reflect.Uint8, reflect.Uint16, reflect.Uint32, reflect.Uint64, reflect.Uintptr,
		reflect.Float32, reflect.Float64, reflect.Interface, reflect.Pointer:
		return v.IsZero()
	}
	return false
}

// refStruct follows encoding/json's field rules for the shapes the families produce: exported
// fields, json tag name / "-" / omitempty, untagged embedded structs flattened, tagged embedded
// structs nested, and several direct fields given one name dropped (all of them, unless exactly one
// carries the name in its tag). Conflicts between depths are outside the alphabet.
func (c *Case) refStruct(v reflect.Value, out map[string]any) error {
	t := v.Type()
	dropped := conflictingFields(t)
	for i := 0; i < t.NumField(); i++ {
		f := t.Field(i)
		tag := f.Tag.Get("json")
		if tag == "-" || dropped[i] {
			continue
		}
		name, opts, _ := strings.Cut(tag, ",")
		if f.Anonymous {
			ft := f.Type
			if ft.Kind() == reflect.Struct && name == "" && !(ft.Implements(marshalerType) && !c.generated(ft)) {
				if err := c.refStruct(v.Field(i), out); err != nil {
					return err
				}
				continue
			}
			if ft.Kind() == reflect.Pointer && ft.Elem().Kind() == reflect.Struct && name == "" {
				// encoding/json promotes the fields of an embedded pointer to a struct too (a nil one adds nothing)
				if !v.Field(i).IsNil() {
					if err := c.refStruct(v.Field(i).Elem(), out); err != nil {
						return err
					}
				}
				continue
			}
			if !f.IsExported() && ft.Kind() != reflect.Struct {
				continue
			}
		} else if !f.IsExported() {
			continue
		}
		if name == "" {
			name = f.Name
		}
		if strings.Contains(","+opts+",", ",omitempty,") && isEmptyValue(v.Field(i)) {
			continue
		}
		e, err := c.Ref(v.Field(i))
		if err != nil {
			return err
		}
		out[name] = e
	}
	return nil
}

// conflictingFields lists the direct fields of t that encoding/json leaves out because another
// direct field has the same JSON name: all the fields of the group, unless exactly one of them has
// the name written in its tag (that one wins).
func conflictingFields(t reflect.Type) map[int]bool {
	type cand struct {
		idx    int
		tagged bool
	}
	groups := map[string][]cand{}
	for i := 0; i < t.NumField(); i++ {
		f := t.Field(i)
		tag := f.Tag.Get("json")
		if tag == "-" || !f.IsExported() {
			continue
		}
		name, _, _ := strings.Cut(tag, ",")
		if f.Anonymous && name == "" {
			continue // flattened or promoted: another depth
		}
		tagged := name != ""
		if name == "" {
			name = f.Name
		}
		groups[name] = append(groups[name], cand{i, tagged})
	}
	var out map[int]bool
	for _, g := range groups {
		if len(g) < 2 {
			continue
		}
		nTagged, winner := 0, -1
		for _, c := range g {
			if c.tagged {
				nTagged++
				winner = c.idx
			}
		}
		for _, c := range g {
			if nTagged == 1 && c.idx == winner {
				continue
			}
			if out == nil {
				out = map[int]bool{}
			}
			out[c.idx] = true
		}
	}
	return out
}

// ------------------------------------------------------------------------------------------
// equality modulo nil == empty

func Equal(a, b reflect.Value) bool {
	if a.Type() != b.Type() {
		return false
	}
	if a.Type() == timeType {
		return a.Interface().(time.Time).Equal(b.Interface().(time.Time))
	}
	if isTimeLike(a.Type()) {
		return a.Convert(timeType).Interface().(time.Time).Equal(b.Convert(timeType).Interface().(time.Time))
	}
	switch a.Kind() {
	case reflect.Slice:
		if a.Len() != b.Len() {
			return false
		}
		for i := 0; i < a.Len(); i++ {
			if !Equal(a.Index(i), b.Index(i)) {
				return false
			}
		}
		return true
	case reflect.Array:
		for i := 0; i < a.Len(); i++ {
			if !Equal(a.Index(i), b.Index(i)) {
				return false
			}
		}
		return true
	case reflect.Map:
		if a.Len() != b.Len() {
			return false
		}
		it := a.MapRange()
		for it.Next() {
			bv := b.MapIndex(it.Key())
			if !bv.IsValid() || !Equal(it.Value(), bv) {
				return false
			}
		}
		return true
	case reflect.Struct:
		for i := 0; i < a.NumField(); i++ {
			f := a.Type().Field(i)
			if _, skip := serialTag(f.Tag); skip || (!f.IsExported() && !f.Anonymous) || conflictingFields(a.Type())[i] {
				continue // never on the wire in plain Go either
			}
			if !Equal(a.Field(i), b.Field(i)) {
				return false
			}
		}
		return true
	case reflect.Pointer, reflect.Interface:
		if a.IsNil() || b.IsNil() {
			return a.IsNil() == b.IsNil()
		}
		return Equal(a.Elem(), b.Elem())
	case reflect.Float32, reflect.Float64:
		return a.Float() == b.Float()
	case reflect.Bool:
		return a.Bool() == b.Bool()
	case reflect.String:
		return a.String() == b.String()
	case reflect.Int, reflect.Int8, reflect.Int16, reflect.Int32, reflect.Int64:
		return a.Int() == b.Int()
	case reflect.Uint, reflect.Uint8, reflect.Uint16, reflect.Uint32, reflect.Uint64, reflect.Uintptr:
		return a.Uint() == b.Uint()
	}
	return reflect.DeepEqual(a.Interface(), b.Interface())
}

func canonJSON(x any) string {
	b, _ := json.Marshal(x) // map keys sorted
	return string(b)
}

func trunc(s string, n int) string {
	if len(s) > n {
		return s[:n] + "..."
	}
	return s
}

// ------------------------------------------------------------------------------------------
// Main

// Main runs one mode over the registered cases: vbatch <mode> <budget> <shard> <nshards> [skip...]
func Main() {
	if len(os.Args) < 5 {
		fmt.Fprintln(os.Stderr, "usage: batch <mode> <budget> <shard> <nshards> [case ids to skip]")
		os.Exit(2)
	}
	mode := os.Args[1]
	budget, _ := strconv.Atoi(os.Args[2])
	shard, _ := strconv.Atoi(os.Args[3])
	nshards, _ := strconv.Atoi(os.Args[4])
	Shard, NShards = shard, nshards
	skip := map[string]bool{}
	for _, s := range os.Args[5:] {
		skip[s] = true
	}
	debug.SetMaxStack(64 << 20)
	sort.Slice(cases, func(i, j int) bool { return cases[i].ID < cases[j].ID })
	out := bufio.NewWriter(os.Stdout)
	enc := json.NewEncoder(out)
	for i, c := range cases {
		if skip[c.ID] {
			continue
		}
		_ = i
		fmt.Fprintf(out, "START %s\n", c.ID)
		out.Flush()
		res := &CaseResult{Case: c.ID, Counts: map[string]int{}}
		budget := budget
		if budget < 0 {
			budget = budgets[c.ID]
		}
		func() {
			defer func() {
				if v := recover(); v != nil {
					res.fail("harness", "panic in vlib", fmt.Sprint(v), 0)
				}
			}()
			switch mode {
			case "c02":
				runC02(c, budget, res)
			case "c03":
				runC03(c, budget, res)
			case "c15":
				runC15(c, budget, res)
			case "c04":
				runC04(c, budget, res)
			case "c05":
				runC05(c, budget, res)
			default:
				panic("unknown mode " + mode)
			}
		}()
		res.Done = true
		enc.Encode(res)
		out.Flush()
	}
}

// roundTrip checks C02 on one value; returns the encoded document.
func roundTrip(c *Case, t reflect.Type, v reflect.Value, cost int, desc string, res *CaseResult, prefix string) []byte {
	var data []byte
	var err error
	func() {
		defer func() {
			if p := recover(); p != nil {
				err = fmt.Errorf("panic: %v", p)
			}
		}()
		data, err = json.Marshal(v.Interface())
	}()
	if err != nil {
		if strings.Contains(err.Error(), "unsupported type") && hasUnencodableMapKey(t, map[reflect.Type]bool{}) {
			// encoding/json refuses maps keyed by bool or float types on the original type as well:
			// no document exists, with or without wrappers
			res.Counts["not-encodable-in-plain-go"]++
			return nil
		}
		res.fail(prefix+"marshal", "Marshal fails", fmt.Sprintf("%s: json.Marshal(%s) fails: %v [%s]", t, trunc(fmt.Sprintf("%+v", v.Interface()), 200), err, desc), cost)
		return nil
	}
	res.Counts["documents"]++
	// clause 1: round trip
	back := reflect.New(t)
	func() {
		defer func() {
			if p := recover(); p != nil {
				err = fmt.Errorf("panic: %v", p)
			}
		}()
		err = json.Unmarshal(data, back.Interface())
	}()
	if err != nil {
		res.fail(prefix+"roundtrip", "Unmarshal fails", fmt.Sprintf("%s: json.Unmarshal(%s) fails: %v [%s]", t, trunc(string(data), 300), err, desc), cost)
	} else if !Equal(v, back.Elem()) {
		res.fail(prefix+"roundtrip", "value differs after round trip: "+t.Name(), fmt.Sprintf("%s: %s -> %s -> %s [%s]", t, trunc(fmt.Sprintf("%+v", v.Interface()), 300), trunc(string(data), 300), trunc(fmt.Sprintf("%+v", back.Elem().Interface()), 300), desc), cost)
	}
	// clause 2: wire format
	want, rerr := c.Ref(v)
	if rerr != nil {
		res.Counts["reference-not-applicable"]++
		return data
	}
	got, derr := decodeJSON(data)
	if derr != nil {
		res.fail(prefix+"wire-format", "invalid JSON", fmt.Sprintf("%s: Marshal produced invalid JSON %s", t, trunc(string(data), 300)), cost)
		return data
	}
	if d := diffJSON(want, got, "$"); d != "" {
		g, w := canonJSON(got), canonJSON(want)
		res.fail(prefix+"wire-format", "wire document differs: "+d, fmt.Sprintf("%s: on the wire %s, reference (encoding/json on the original struct, unions as Kind/Data) %s [%s]", t, trunc(g, 400), trunc(w, 400), desc), cost)
	}
	return data
}

// hasUnencodableMapKey reports whether t contains a map whose key encoding/json cannot write
// (neither a string, an integer nor a TextMarshaler).
func hasUnencodableMapKey(t reflect.Type, seen map[reflect.Type]bool) bool {
	if seen[t] {
		return false
	}
	seen[t] = true
	switch t.Kind() {
	case reflect.Map:
		k := t.Key()
		switch k.Kind() {
		case reflect.String, reflect.Int, reflect.Int8, reflect.Int16, reflect.Int32, reflect.Int64,
			reflect.Uint, reflect.Uint8, reflect.Uint16, reflect.Uint32, reflect.Uint64, reflect.Uintptr:
		default:
			if !k.Implements(reflect.TypeOf((*encoding.TextMarshaler)(nil)).Elem()) {
				return true
			}
		}
		return hasUnencodableMapKey(t.Elem(), seen)
	case reflect.Slice, reflect.Array, reflect.Pointer:
		return hasUnencodableMapKey(t.Elem(), seen)
	case reflect.Struct:
		for i := 0; i < t.NumField(); i++ {
			if hasUnencodableMapKey(t.Field(i).Type, seen) {
				return true
			}
		}
	}
	return false
}

// diffJSON names the first difference between two documents.
func diffJSON(want, got any, path string) string {
	switch w := want.(type) {
	case NilOrEmpty:
		switch g := got.(type) {
		case nil:
			return ""
		case []any:
			if len(g) == 0 {
				return ""
			}
		case map[string]any:
			if len(g) == 0 {
				return ""
			}
		}
		return path + ": want null or empty"
	case map[string]any:
		g, ok := got.(map[string]any)
		if !ok {
			return path + ": kind"
		}
		var keys []string
		for k := range w {
			keys = append(keys, k)
		}
		for k := range g {
			if _, ok := w[k]; !ok {
				keys = append(keys, k)
			}
		}
		sort.Strings(keys)
		for _, k := range keys {
			wv, inW := w[k]
			gv, inG := g[k]
			if !inW {
				return path + ": extra key"
			}
			if !inG {
				return path + ": missing key"
			}
			if d := diffJSON(wv, gv, path+".*"); d != "" {
				return d
			}
		}
		return ""
	case []any:
		g, ok := got.([]any)
		if !ok || len(g) != len(w) {
			return path + ": array"
		}
		for i := range w {
			if d := diffJSON(w[i], g[i], path+"[]"); d != "" {
				return d
			}
		}
		return ""
	}
	if canonJSON(want) != canonJSON(got) {
		return path + ": value"
	}
	return ""
}

func runC02(c *Case, budget int, res *CaseResult) {
	for _, t := range c.Types {
		if _, isUnion := c.Unions[t]; isUnion {
			continue // a bare interface value has no wrapper: unions are exercised as components
		}
		st := Values(c, t, budget, func(v reflect.Value, cost int, desc string) {
			res.Counts["values"]++
			roundTrip(c, t, v, cost, desc, res, "")
		})
		res.Counts["value-transitions"] += st.Transitions
	}
}
