package vlib

import (
	"database/sql"
	"fmt"
	"reflect"
	"sort"
	"strings"
	"time"

	"verif.test/mc/models/vsql"
)

// C05: generated CRUD code against the generated schema, explicit-state BFS (DESIGN §8.4).
// State = vsql store; transitions = generated functions; oracle = the obvious map model.

type FKMeta struct {
	Field    string
	Nullable bool   // the field is a {Valid, ID} wrapper
	DataName string // name of the data field of the wrapper
	Unique   bool
}

type TableMeta struct {
	Name       string // Go struct name
	Type       reflect.Type
	Primary    string   // primary key field, "" for link tables
	Guards     []string // guard fields (never written by CRUD code)
	FKs        []FKMeta
	Uniques    [][]string
	SelectKeys [][]string
	Queries    []string // custom query function names
}

// CrudMeta is registered by the driver of C05 programs.
type CrudMeta struct {
	Tables []TableMeta
	Funcs  map[string]any
	DDL    string
	Depth  int
}

var crud = map[string]*CrudMeta{}

func RegisterCrud(id string, m *CrudMeta) { crud[id] = m }

// ------------------------------------------------------------------------------------------
// row variants

var (
	rowTimes = []time.Time{time.Date(2021, 3, 4, 5, 6, 7, 0, time.UTC), time.Date(2022, 11, 12, 13, 14, 15, 0, time.UTC), time.Date(2001, 1, 2, 0, 0, 0, 0, time.UTC)}
	rowDates = []time.Time{time.Date(2021, 3, 4, 0, 0, 0, 0, time.UTC), time.Date(2022, 11, 12, 0, 0, 0, 0, time.UTC), time.Date(2001, 1, 2, 0, 0, 0, 0, time.UTC)}
)

// fill builds the variant-th sample value of t: 0 and 1 are fully populated with pairwise
// distinct scalars, 2 has every nullable NULL, every slice and map nil, scalars zero-ish.
func (c *Case) fill(t reflect.Type, variant int, depth int) reflect.Value {
	v := reflect.New(t).Elem()
	if members, ok := c.Unions[t]; ok {
		v.Set(c.fill(members[variant%len(members)], variant, depth+1))
		return v
	}
	if consts, ok := c.Enums[t]; ok && len(consts) > 0 {
		v.Set(reflect.ValueOf(consts[variant%len(consts)]).Convert(t))
		return v
	}
	if t == timeType || isTimeLike(t) {
		tt := rowTimes[variant]
		if strings.Contains(strings.ToLower(t.Name()), "date") {
			tt = rowDates[variant]
		}
		v.Set(reflect.ValueOf(tt).Convert(t))
		return v
	}
	switch t.Kind() {
	case reflect.Bool:
		v.SetBool(variant == 0)
	case reflect.Int, reflect.Int8, reflect.Int16, reflect.Int32, reflect.Int64:
		v.SetInt([]int64{7, 8, 0}[variant])
	case reflect.Uint, reflect.Uint8, reflect.Uint16, reflect.Uint32, reflect.Uint64:
		v.SetUint([]uint64{7, 8, 0}[variant])
	case reflect.Float32, reflect.Float64:
		v.SetFloat([]float64{1.5, 2.25, 0}[variant])
	case reflect.String:
		v.SetString([]string{"abc", "x'y\"z é", ""}[variant])
	case reflect.Struct:
		// nullable wrappers {Valid bool; X T}: variant 2 is NULL
		if t.NumField() == 2 && (t.Field(0).Name == "Valid" || t.Field(1).Name == "Valid") && variant == 2 {
			return v
		}
		for i := 0; i < t.NumField(); i++ {
			f := t.Field(i)
			if !f.IsExported() {
				continue
			}
			if _, skip := serialTag(f.Tag); skip && depth > 0 {
				continue // dropped by encoding/json inside a jsonb document; a column of the row itself is written whatever its json tag
			}
			if f.Name == "Valid" && f.Type.Kind() == reflect.Bool {
				v.Field(i).SetBool(true)
				continue
			}
			v.Field(i).Set(c.fill(f.Type, variant, depth+1))
		}
	case reflect.Slice:
		if variant == 2 || depth > 4 {
			return v
		}
		n := variant + 1
		s := reflect.MakeSlice(t, n, n)
		for i := 0; i < n; i++ {
			s.Index(i).Set(c.fill(t.Elem(), (variant+i)%2, depth+1))
		}
		v.Set(s)
	case reflect.Array:
		for i := 0; i < t.Len(); i++ {
			v.Index(i).Set(c.fill(t.Elem(), (variant+i)%3, depth+1))
		}
	case reflect.Map:
		if variant == 2 || depth > 4 {
			return v
		}
		m := reflect.MakeMap(t)
		b := &builder{c: c}
		for i := 0; i <= variant; i++ {
			m.SetMapIndex(b.key(t.Key(), i), c.fill(t.Elem(), (variant+i)%2, depth+1))
		}
		v.Set(m)
	}
	return v
}

// fillLink builds the row variants of a link table (see ops).
func (c *Case) fillLink(tm *TableMeta, v int) reflect.Value {
	switch {
	case v < 3:
		return c.fill(tm.Type, v, 0)
	case v == 3:
		row := c.fill(tm.Type, 0, 0)
		f := row.FieldByName(tm.FKs[0].Field)
		f.Set(c.fill(f.Type(), 1, 1))
		return row
	default:
		row := c.fill(tm.Type, 1, 0)
		f := row.FieldByName(tm.FKs[len(tm.FKs)-1].Field)
		f.Set(c.fill(f.Type(), 2, 1))
		return row
	}
}

// ------------------------------------------------------------------------------------------
// model

type mtable struct {
	meta *TableMeta
	rows []reflect.Value // insertion order
	next int64           // next serial
}

type model struct {
	tables map[string]*mtable
}

func (m *model) clone() *model {
	out := &model{tables: map[string]*mtable{}}
	for k, t := range m.tables {
		out.tables[k] = &mtable{meta: t.meta, rows: append([]reflect.Value{}, t.rows...), next: t.next}
	}
	return out
}

func idOf(row reflect.Value, meta *TableMeta) int64 { return row.FieldByName(meta.Primary).Int() }

func (t *mtable) find(id int64) int {
	for i, r := range t.rows {
		if idOf(r, t.meta) == id {
			return i
		}
	}
	return -1
}

// stored is what a row looks like when read back: guard fields are never read.
func stored(row reflect.Value, meta *TableMeta) reflect.Value {
	cp := reflect.New(row.Type()).Elem()
	cp.Set(row)
	for _, g := range meta.Guards {
		f := cp.FieldByName(g)
		if f.IsValid() && f.CanSet() {
			f.Set(reflect.Zero(f.Type()))
		}
	}
	return cp
}

// fkValue returns (value as int64, isNull).
func fkValue(row reflect.Value, fk FKMeta) (int64, bool) {
	f := row.FieldByName(fk.Field)
	if fk.Nullable {
		if !f.FieldByName("Valid").Bool() {
			return 0, true
		}
		return f.FieldByName(fk.DataName).Int(), false
	}
	return f.Int(), false
}

// ------------------------------------------------------------------------------------------
// operations

type crudRun struct {
	c      *Case
	meta   *CrudMeta
	res    *CaseResult
	store  *vsql.Store
	m      *model
	trace  []string
	funcs  map[string]bool // exercised
	failed bool
}

func (r *crudRun) fail(clause, sig, detail string) {
	r.failed = true
	r.res.fail(clause, sig, fmt.Sprintf("%s\nhistory: %s", detail, strings.Join(r.trace, " ; ")), len(r.trace))
}

var errType = reflect.TypeOf((*error)(nil)).Elem()

// call invokes a generated function; returns the non-error results and the error.
func (r *crudRun) call(name string, fn reflect.Value, args ...reflect.Value) (out []reflect.Value, err error, ok bool) {
	r.funcs[name] = true
	defer func() {
		if p := recover(); p != nil {
			r.fail("no-sql-error", name+" panics", fmt.Sprintf("%s panics: %v", name, p))
			ok = false
		}
	}()
	res := fn.Call(args)
	for _, x := range res {
		if x.Type() == errType {
			if !x.IsNil() {
				err = x.Interface().(error)
			}
			continue
		}
		out = append(out, x)
	}
	return out, err, true
}

func isNoRows(err error) bool { return err == sql.ErrNoRows }

func (r *crudRun) sqlError(name string, err error) {
	msg := err.Error()
	r.fail("no-sql-error", name+": "+trunc(normMsg(msg), 80), fmt.Sprintf("%s fails: %s\nlast statement: %s", name, msg, r.lastStmt()))
}

func (r *crudRun) lastStmt() string {
	lg := r.store.Log()
	if len(lg) == 0 {
		return ""
	}
	return fmt.Sprintf("%+v", lg[len(lg)-1])
}

func (r *crudRun) fn(name string) (reflect.Value, bool) {
	f, ok := r.meta.Funcs[name]
	if !ok {
		return reflect.Value{}, false
	}
	return reflect.ValueOf(f), true
}

// rowsOf converts a returned collection (map[id]T or []T) to a list.
func rowsOf(v reflect.Value) []reflect.Value {
	var out []reflect.Value
	switch v.Kind() {
	case reflect.Map:
		it := v.MapRange()
		for it.Next() {
			out = append(out, it.Value())
		}
	case reflect.Slice:
		for i := 0; i < v.Len(); i++ {
			out = append(out, v.Index(i))
		}
	}
	return out
}

// sameRows compares two multisets of rows (order irrelevant).
func sameRows(got, want []reflect.Value) bool {
	if len(got) != len(want) {
		return false
	}
	used := make([]bool, len(want))
	for _, g := range got {
		found := false
		for i, w := range want {
			if !used[i] && Equal(g, w) {
				used[i], found = true, true
				break
			}
		}
		if !found {
			return false
		}
	}
	return true
}

func fmtRows(l []reflect.Value) string {
	var s []string
	for _, r := range l {
		s = append(s, trunc(fmt.Sprintf("%+v", r.Interface()), 160))
	}
	sort.Strings(s)
	return "[" + strings.Join(s, " | ") + "]"
}

type op struct {
	name string
	run  func(r *crudRun)
}

func conv(x int64, t reflect.Type) reflect.Value { return reflect.ValueOf(x).Convert(t) }

// ops lists the transitions enabled for the tables of the case.
func (c *Case) ops(meta *CrudMeta) []op {
	var out []op
	idSets := [][]int64{{}, {1}, {1, 2, 99}}
	for ti := range meta.Tables {
		tm := &meta.Tables[ti]
		T := tm.Name
		if tm.Primary != "" {
			pf, _ := tm.Type.FieldByName(tm.Primary)
			idT := pf.Type
			for v := 0; v < 3; v++ {
				v := v
				out = append(out, op{fmt.Sprintf("%s#%d.Insert", T, v), func(r *crudRun) {
					row := c.fill(tm.Type, v, 0)
					mt := r.m.tables[T]
					res, err, ok := r.call(T+".Insert", row.MethodByName("Insert"), reflect.ValueOf(r.store.DB()))
					if !ok {
						return
					}
					if err != nil {
						r.sqlError(T+".Insert", err)
						return
					}
					want := stored(row, tm)
					want.FieldByName(tm.Primary).SetInt(mt.next)
					mt.next++
					mt.rows = append(mt.rows, want)
					if !Equal(res[0], want) {
						r.fail("insert-returns-row", T+".Insert returns another row", fmt.Sprintf("%s.Insert returned %+v, want %+v", T, res[0].Interface(), want.Interface()))
					}
				}})
				for _, id := range []int64{1, 99} {
					id := id
					out = append(out, op{fmt.Sprintf("%s#%d.Update(id=%d)", T, v, id), func(r *crudRun) {
						row := c.fill(tm.Type, v, 0)
						row.FieldByName(tm.Primary).SetInt(id)
						mt := r.m.tables[T]
						res, err, ok := r.call(T+".Update", row.MethodByName("Update"), reflect.ValueOf(r.store.DB()))
						if !ok {
							return
						}
						i := mt.find(id)
						if i < 0 {
							if !isNoRows(err) {
								r.fail("update-replaces", T+".Update of a missing id", fmt.Sprintf("%s.Update on missing id %d: err=%v, want sql.ErrNoRows", T, id, err))
							}
							return
						}
						if err != nil {
							r.sqlError(T+".Update", err)
							return
						}
						want := stored(row, tm)
						mt.rows[i] = want
						if !Equal(res[0], want) {
							r.fail("update-replaces", T+".Update returns another row", fmt.Sprintf("%s.Update returned %+v, want %+v", T, res[0].Interface(), want.Interface()))
						}
					}})
				}
			}
			if f, ok := meta.Funcs["Select"+T]; ok {
				for _, id := range []int64{1, 2, 99} {
					id := id
					out = append(out, op{fmt.Sprintf("Select%s(%d)", T, id), func(r *crudRun) {
						mt := r.m.tables[T]
						res, err, ok := r.call("Select"+T, reflect.ValueOf(f), reflect.ValueOf(r.store.DB()), conv(id, idT))
						if !ok {
							return
						}
						i := mt.find(id)
						if i < 0 {
							if !isNoRows(err) {
								r.fail("select-by-id", "Select"+T+" of a missing id", fmt.Sprintf("Select%s(%d): err=%v, want sql.ErrNoRows", T, id, err))
							}
							return
						}
						if err != nil {
							r.sqlError("Select"+T, err)
							return
						}
						if !Equal(res[0], mt.rows[i]) {
							r.fail("select-by-id", "Select"+T+" returns another row", fmt.Sprintf("Select%s(%d) = %+v, model has %+v", T, id, res[0].Interface(), mt.rows[i].Interface()))
						}
					}})
				}
			}
			if f, ok := meta.Funcs["Select"+T+"s"]; ok {
				for _, ids := range idSets {
					ids := ids
					out = append(out, op{fmt.Sprintf("Select%ss(%v)", T, ids), func(r *crudRun) {
						mt := r.m.tables[T]
						args := []reflect.Value{reflect.ValueOf(r.store.DB())}
						var want []reflect.Value
						for _, id := range ids {
							args = append(args, conv(id, idT))
							if i := mt.find(id); i >= 0 {
								want = append(want, mt.rows[i])
							}
						}
						res, err, ok := r.call("Select"+T+"s", reflect.ValueOf(f), args...)
						if !ok {
							return
						}
						if err != nil {
							r.sqlError("Select"+T+"s", err)
							return
						}
						if got := rowsOf(res[0]); !sameRows(got, want) {
							r.fail("select-by-ids", "Select"+T+"s returns other rows", fmt.Sprintf("Select%ss(%v) = %s, model has %s", T, ids, fmtRows(got), fmtRows(want)))
						}
					}})
				}
			}
			if f, ok := meta.Funcs["Delete"+T+"ById"]; ok {
				for _, id := range []int64{1, 99} {
					id := id
					out = append(out, op{fmt.Sprintf("Delete%sById(%d)", T, id), func(r *crudRun) {
						mt := r.m.tables[T]
						res, err, ok := r.call("Delete"+T+"ById", reflect.ValueOf(f), reflect.ValueOf(r.store.DB()), conv(id, idT))
						if !ok {
							return
						}
						i := mt.find(id)
						if i < 0 {
							if !isNoRows(err) {
								r.fail("delete-by-id", "Delete"+T+"ById of a missing id", fmt.Sprintf("Delete%sById(%d): err=%v, want sql.ErrNoRows", T, id, err))
							}
							return
						}
						if err != nil {
							r.sqlError("Delete"+T+"ById", err)
							return
						}
						want := mt.rows[i]
						mt.rows = append(append([]reflect.Value{}, mt.rows[:i]...), mt.rows[i+1:]...)
						if !Equal(res[0], want) {
							r.fail("delete-by-id", "Delete"+T+"ById returns another row", fmt.Sprintf("Delete%sById(%d) = %+v, model had %+v", T, id, res[0].Interface(), want.Interface()))
						}
					}})
				}
			}
			if f, ok := meta.Funcs["Delete"+T+"sByIDs"]; ok {
				for _, ids := range idSets {
					ids := ids
					out = append(out, op{fmt.Sprintf("Delete%ssByIDs(%v)", T, ids), func(r *crudRun) {
						mt := r.m.tables[T]
						args := []reflect.Value{reflect.ValueOf(r.store.DB())}
						var want []int64
						for _, id := range ids {
							args = append(args, conv(id, idT))
							if i := mt.find(id); i >= 0 {
								want = append(want, id)
								mt.rows = append(append([]reflect.Value{}, mt.rows[:i]...), mt.rows[i+1:]...)
							}
						}
						res, err, ok := r.call("Delete"+T+"sByIDs", reflect.ValueOf(f), args...)
						if !ok {
							return
						}
						if err != nil {
							r.sqlError("Delete"+T+"sByIDs", err)
							return
						}
						var got []int64
						for i := 0; i < res[0].Len(); i++ {
							got = append(got, res[0].Index(i).Int())
						}
						sort.Slice(got, func(i, j int) bool { return got[i] < got[j] })
						sort.Slice(want, func(i, j int) bool { return want[i] < want[j] })
						if fmt.Sprint(got) != fmt.Sprint(want) {
							r.fail("delete-by-ids", "Delete"+T+"sByIDs returns other ids", fmt.Sprintf("Delete%ssByIDs(%v) = %v, want %v", T, ids, got, want))
						}
					}})
				}
			}
		} else {
			// link table: rows #0..#2 take all their keys from one variant; #3 and #4 mix them
			// (#3 = #0 with the first key of #1, #4 = #1 with the last key of #2, NULL when nullable),
			// so that two stored rows can agree on one key and differ on another
			nv := 3
			if len(tm.FKs) >= 2 {
				nv = 5
			}
			for v := 0; v < nv; v++ {
				v := v
				out = append(out, op{fmt.Sprintf("%s#%d.Insert", T, v), func(r *crudRun) {
					row := c.fillLink(tm, v)
					_, err, ok := r.call(T+".Insert", row.MethodByName("Insert"), reflect.ValueOf(r.store.DB()))
					if !ok {
						return
					}
					if err != nil {
						r.sqlError(T+".Insert", err)
						return
					}
					r.m.tables[T].rows = append(r.m.tables[T].rows, stored(row, tm))
				}})
				out = append(out, op{fmt.Sprintf("%s#%d.Delete", T, v), func(r *crudRun) {
					row := c.fillLink(tm, v)
					_, err, ok := r.call(T+".Delete", row.MethodByName("Delete"), reflect.ValueOf(r.store.DB()))
					if !ok {
						return
					}
					if err != nil {
						r.sqlError(T+".Delete", err)
						return
					}
					mt := r.m.tables[T]
					var keep []reflect.Value
					for _, x := range mt.rows {
						match := true
						for _, fk := range tm.FKs {
							a, an := fkValue(x, fk)
							b, bn := fkValue(row, fk)
							if !((an && bn) || (!an && !bn && a == b)) {
								match = false
							}
						}
						if !match || len(tm.FKs) == 0 {
							keep = append(keep, x)
						}
					}
					mt.rows = keep
				}})
			}
			if f, ok := meta.Funcs["InsertMany"+T+"s"]; ok {
				out = append(out, op{"InsertMany" + T + "s(#0,#2)", func(r *crudRun) {
					rows := []reflect.Value{c.fill(tm.Type, 0, 0), c.fill(tm.Type, 2, 0)}
					db := r.store.DB()
					tx, err := db.Begin()
					if err != nil {
						r.sqlError("Begin", err)
						return
					}
					_, err, ok := r.call("InsertMany"+T+"s", reflect.ValueOf(f), reflect.ValueOf(tx), rows[0], rows[1])
					if !ok {
						tx.Rollback()
						return
					}
					if err != nil {
						tx.Rollback()
						r.sqlError("InsertMany"+T+"s", err)
						return
					}
					if err := tx.Commit(); err != nil {
						r.sqlError("Commit", err)
						return
					}
					for _, row := range rows {
						r.m.tables[T].rows = append(r.m.tables[T].rows, stored(row, tm))
					}
				}})
			}
		}
		// common to both kinds
		if f, ok := meta.Funcs["SelectAll"+T+"s"]; ok {
			out = append(out, op{"SelectAll" + T + "s", func(r *crudRun) {
				res, err, ok := r.call("SelectAll"+T+"s", reflect.ValueOf(f), reflect.ValueOf(r.store.DB()))
				if !ok {
					return
				}
				if err != nil {
					r.sqlError("SelectAll"+T+"s", err)
					return
				}
				if got, want := rowsOf(res[0]), r.m.tables[T].rows; !sameRows(got, want) {
					r.fail("select-all", "SelectAll"+T+"s returns other rows", fmt.Sprintf("SelectAll%ss = %s, model has %s", T, fmtRows(got), fmtRows(want)))
				}
			}})
		}
		for _, fk := range tm.FKs {
			fk := fk
			ft, _ := tm.Type.FieldByName(fk.Field)
			keyT := ft.Type
			if fk.Nullable {
				df, _ := keyT.FieldByName(fk.DataName)
				keyT = df.Type
			}
			matching := func(r *crudRun, keys []int64) (match, rest []reflect.Value) {
				for _, x := range r.m.tables[T].rows {
					v, null := fkValue(x, fk)
					hit := false
					for _, k := range keys {
						hit = hit || (!null && v == k)
					}
					if hit {
						match = append(match, x)
					} else {
						rest = append(rest, x)
					}
				}
				return
			}
			keySets := [][]int64{{}, {7}, {7, 8, 99}}
			if f, ok := meta.Funcs["Select"+T+"sBy"+fk.Field+"s"]; ok {
				for _, keys := range keySets {
					keys := keys
					out = append(out, op{fmt.Sprintf("Select%ssBy%ss(%v)", T, fk.Field, keys), func(r *crudRun) {
						args := []reflect.Value{reflect.ValueOf(r.store.DB())}
						for _, k := range keys {
							args = append(args, conv(k, keyT))
						}
						name := "Select" + T + "sBy" + fk.Field + "s"
						res, err, ok := r.call(name, reflect.ValueOf(f), args...)
						if !ok {
							return
						}
						if err != nil {
							r.sqlError(name, err)
							return
						}
						want, _ := matching(r, keys)
						if got := rowsOf(res[0]); !sameRows(got, want) {
							r.fail("by-foreign-key", name+" returns other rows", fmt.Sprintf("%s(%v) = %s, model has %s", name, keys, fmtRows(got), fmtRows(want)))
						}
					}})
				}
			}
			if f, ok := meta.Funcs["Delete"+T+"sBy"+fk.Field+"s"]; ok {
				for _, keys := range keySets[1:] {
					keys := keys
					out = append(out, op{fmt.Sprintf("Delete%ssBy%ss(%v)", T, fk.Field, keys), func(r *crudRun) {
						args := []reflect.Value{reflect.ValueOf(r.store.DB())}
						for _, k := range keys {
							args = append(args, conv(k, keyT))
						}
						name := "Delete" + T + "sBy" + fk.Field + "s"
						res, err, ok := r.call(name, reflect.ValueOf(f), args...)
						if !ok {
							return
						}
						if err != nil {
							r.sqlError(name, err)
							return
						}
						want, rest := matching(r, keys)
						r.m.tables[T].rows = rest
						if tm.Primary != "" {
							var got, wantIDs []int64
							for i := 0; i < res[0].Len(); i++ {
								got = append(got, res[0].Index(i).Int())
							}
							for _, w := range want {
								wantIDs = append(wantIDs, idOf(w, tm))
							}
							sort.Slice(got, func(i, j int) bool { return got[i] < got[j] })
							sort.Slice(wantIDs, func(i, j int) bool { return wantIDs[i] < wantIDs[j] })
							if fmt.Sprint(got) != fmt.Sprint(wantIDs) {
								r.fail("by-foreign-key", name+" returns other ids", fmt.Sprintf("%s(%v) = %v, want %v", name, keys, got, wantIDs))
							}
						} else if got := rowsOf(res[0]); !sameRows(got, want) {
							r.fail("by-foreign-key", name+" returns other rows", fmt.Sprintf("%s(%v) = %s, model has %s", name, keys, fmtRows(got), fmtRows(want)))
						}
					}})
				}
			}
			if f, ok := meta.Funcs["Select"+T+"By"+fk.Field]; ok && fk.Unique {
				for _, k := range []int64{7, 99} {
					k := k
					out = append(out, op{fmt.Sprintf("Select%sBy%s(%d)", T, fk.Field, k), func(r *crudRun) {
						name := "Select" + T + "By" + fk.Field
						res, err, ok := r.call(name, reflect.ValueOf(f), reflect.ValueOf(r.store.DB()), conv(k, keyT))
						if !ok {
							return
						}
						if err != nil {
							r.sqlError(name, err)
							return
						}
						want, _ := matching(r, []int64{k})
						r.checkUnique(name, res, want)
					}})
				}
			}
		}
		for _, cols := range tm.Uniques {
			cols := cols
			name := "Select" + T + "By" + strings.Join(cols, "And")
			if f, ok := meta.Funcs[name]; ok {
				for v := 0; v < 2; v++ {
					v := v
					out = append(out, op{fmt.Sprintf("%s(#%d)", name, v), func(r *crudRun) {
						probe := c.fill(tm.Type, v, 0)
						args := []reflect.Value{reflect.ValueOf(r.store.DB())}
						for _, col := range cols {
							args = append(args, probe.FieldByName(col))
						}
						res, err, ok := r.call(name, reflect.ValueOf(f), args...)
						if !ok {
							return
						}
						if err != nil {
							r.sqlError(name, err)
							return
						}
						r.checkUnique(name, res, matchCols(r.m.tables[T].rows, probe, cols))
					}})
				}
			}
		}
		for _, cols := range tm.SelectKeys {
			cols := cols
			title := strings.Join(cols, "And")
			for _, kind := range []string{"Select", "Delete"} {
				kind := kind
				name := kind + T + "sBy" + title
				f, ok := meta.Funcs[name]
				if !ok {
					continue
				}
				for v := 0; v < 2; v++ {
					v := v
					out = append(out, op{fmt.Sprintf("%s(#%d)", name, v), func(r *crudRun) {
						probe := c.fill(tm.Type, v, 0)
						args := []reflect.Value{reflect.ValueOf(r.store.DB())}
						for _, col := range cols {
							args = append(args, probe.FieldByName(col))
						}
						res, err, ok := r.call(name, reflect.ValueOf(f), args...)
						if !ok {
							return
						}
						if err != nil {
							r.sqlError(name, err)
							return
						}
						want := matchCols(r.m.tables[T].rows, probe, cols)
						if kind == "Delete" {
							var rest []reflect.Value
							for _, x := range r.m.tables[T].rows {
								if len(matchCols([]reflect.Value{x}, probe, cols)) == 0 {
									rest = append(rest, x)
								}
							}
							r.m.tables[T].rows = rest
						}
						if got := rowsOf(res[0]); !sameRows(got, want) {
							r.fail("by-select-key", name+" returns other rows", fmt.Sprintf("%s(#%d) = %s, model has %s", name, v, fmtRows(got), fmtRows(want)))
						}
					}})
				}
			}
		}
		for _, q := range tm.Queries {
			q := q
			if f, ok := meta.Funcs[q]; ok {
				out = append(out, op{"custom " + q, func(r *crudRun) {
					fv := reflect.ValueOf(f)
					args := []reflect.Value{reflect.ValueOf(r.store.DB())}
					for i := 1; i < fv.Type().NumIn(); i++ {
						args = append(args, c.fill(fv.Type().In(i), 0, 0))
					}
					_, err, ok := r.call(q, fv, args...)
					if ok && err != nil {
						r.sqlError(q, err)
					}
					r.failed = true // the model does not interpret custom queries: do not expand this state
				}})
			}
		}
	}
	return out
}

// verify compares every table of the store (read through the generated SelectAll) with the model.
func (r *crudRun) verify() {
	for ti := range r.meta.Tables {
		T := r.meta.Tables[ti].Name
		f, ok := r.meta.Funcs["SelectAll"+T+"s"]
		if !ok {
			continue
		}
		res, err, ok := r.call("SelectAll"+T+"s", reflect.ValueOf(f), reflect.ValueOf(r.store.DB()))
		if !ok || err != nil {
			if err != nil {
				r.sqlError("SelectAll"+T+"s", err)
			}
			return
		}
		if got, want := rowsOf(res[0]), r.m.tables[T].rows; !sameRows(got, want) {
			r.fail("state-agrees-with-model", "table "+T+" differs from the model after "+opKind(r.trace[len(r.trace)-1]), fmt.Sprintf("after the last operation table %s holds %s, the map model holds %s", T, fmtRows(got), fmtRows(want)))
			return
		}
		r.helpers(&r.meta.Tables[ti], res[0])
	}
}

// helpers checks the pure Go helper methods generated on the collection type (IDs, <F>s, By<F>)
// against the rows of the collection itself.
func (r *crudRun) helpers(tm *TableMeta, coll reflect.Value) {
	rows := rowsOf(coll)
	T := tm.Name
	if m := coll.MethodByName("IDs"); m.IsValid() && tm.Primary != "" {
		r.funcs[T+"s.IDs"] = true
		ids := m.Call(nil)[0]
		var got, want []int64
		for i := 0; i < ids.Len(); i++ {
			got = append(got, ids.Index(i).Int())
		}
		for _, x := range rows {
			want = append(want, idOf(x, tm))
		}
		sort.Slice(got, func(i, j int) bool { return got[i] < got[j] })
		sort.Slice(want, func(i, j int) bool { return want[i] < want[j] })
		if fmt.Sprint(got) != fmt.Sprint(want) {
			r.fail("helpers", T+"s.IDs", fmt.Sprintf("%ss.IDs() = %v, the collection holds ids %v", T, got, want))
		}
	}
	for _, fk := range tm.FKs {
		if fk.Nullable {
			continue
		}
		if m := coll.MethodByName(fk.Field + "s"); m.IsValid() {
			r.funcs[T+"s."+fk.Field+"s"] = true
			l := m.Call(nil)[0]
			var got, want []int64
			for i := 0; i < l.Len(); i++ {
				got = append(got, l.Index(i).Int())
			}
			for _, x := range rows {
				v, _ := fkValue(x, fk)
				want = append(want, v)
			}
			sort.Slice(got, func(i, j int) bool { return got[i] < got[j] })
			sort.Slice(want, func(i, j int) bool { return want[i] < want[j] })
			if fmt.Sprint(got) != fmt.Sprint(want) {
				r.fail("helpers", T+"s."+fk.Field+"s", fmt.Sprintf("%ss.%ss() = %v, want %v", T, fk.Field, got, want))
			}
		}
		if m := coll.MethodByName("By" + fk.Field); m.IsValid() {
			r.funcs[T+"s.By"+fk.Field] = true
			groups := m.Call(nil)[0]
			total := 0
			it := groups.MapRange()
			for it.Next() {
				key := it.Key().Int()
				var members []reflect.Value
				if g := it.Value(); g.Kind() == reflect.Map || g.Kind() == reflect.Slice {
					members = rowsOf(g)
				} else {
					members = []reflect.Value{g}
				}
				total += len(members)
				for _, x := range members {
					if v, _ := fkValue(x, fk); v != key {
						r.fail("helpers", T+"s.By"+fk.Field, fmt.Sprintf("%ss.By%s(): row with %s=%d filed under key %d", T, fk.Field, fk.Field, v, key))
					}
				}
			}
			// with a unique key every row has its own group; otherwise every row appears once
			if !fk.Unique && total != len(rows) {
				r.fail("helpers", T+"s.By"+fk.Field+" loses rows", fmt.Sprintf("%ss.By%s() holds %d rows, the collection %d", T, fk.Field, total, len(rows)))
			}
		}
	}
}

func opKind(name string) string {
	if i := strings.IndexAny(name, "(#"); i > 0 {
		name = name[:i] + name[strings.IndexAny(name, ".(")+0:]
	}
	if i := strings.Index(name, "("); i > 0 {
		name = name[:i]
	}
	return name
}

func matchCols(rows []reflect.Value, probe reflect.Value, cols []string) []reflect.Value {
	var out []reflect.Value
	for _, x := range rows {
		ok := true
		for _, col := range cols {
			a, b := x.FieldByName(col), probe.FieldByName(col)
			// SQL: NULL never equals
			if a.Kind() == reflect.Struct && a.NumField() == 2 && a.FieldByName("Valid").IsValid() && !a.FieldByName("Valid").Bool() {
				ok = false
			}
			if !Equal(a, b) {
				ok = false
			}
		}
		if ok {
			out = append(out, x)
		}
	}
	return out
}

func (r *crudRun) checkUnique(name string, res []reflect.Value, want []reflect.Value) {
	// (item, found)
	var item, found reflect.Value
	for _, x := range res {
		if x.Kind() == reflect.Bool {
			found = x
		} else {
			item = x
		}
	}
	if found.Bool() != (len(want) > 0) {
		r.fail("by-unique", name+" found flag", fmt.Sprintf("%s: found=%v, model has %d matching rows", name, found.Bool(), len(want)))
		return
	}
	if len(want) > 0 {
		ok := false
		for _, w := range want {
			ok = ok || Equal(item, w)
		}
		if !ok {
			r.fail("by-unique", name+" returns another row", fmt.Sprintf("%s = %+v, matching rows in the model: %s", name, item.Interface(), fmtRows(want)))
		}
	}
}

func runC05(c *Case, budget int, res *CaseResult) {
	meta := crud[c.ID]
	if meta == nil {
		res.fail("harness", "no crud metadata", "driver did not register CRUD metadata", 0)
		return
	}
	base, err := vsql.NewStore(meta.DDL)
	if err != nil {
		res.fail("schema-loads", "DDL rejected: "+trunc(normMsg(err.Error()), 70), "the generated schema is rejected: "+err.Error(), 0)
		return
	}
	if w := base.Warnings(); len(w) > 0 {
		res.Counts["ddl-warnings"] += len(w)
	}
	ops := c.ops(meta)
	m0 := &model{tables: map[string]*mtable{}}
	for i := range meta.Tables {
		m0.tables[meta.Tables[i].Name] = &mtable{meta: &meta.Tables[i], next: 1}
	}
	type state struct {
		store *vsql.Store
		m     *model
		trace []string
		depth int
	}
	seen := map[string]bool{base.Canon(): true}
	frontier := []state{{base, m0, nil, 0}}
	funcs := map[string]bool{}
	nstates, ntrans, maxDepth := 1, 0, 0
	depth := budget
	if depth <= 0 {
		depth = 2
	}
	for len(frontier) > 0 {
		s := frontier[0]
		frontier = frontier[1:]
		for oi, o := range ops {
			// shard: level-1 transitions are dealt round-robin
			if s.depth == 0 && oi%NShards != Shard {
				continue
			}
			st := s.store.Clone()
			st.ResetLog()
			r := &crudRun{c: c, meta: meta, res: res, store: st, m: s.m.clone(), trace: append(append([]string{}, s.trace...), o.name), funcs: funcs}
			o.run(r)
			if !r.failed && !strings.HasPrefix(o.name, "Select") && !strings.HasPrefix(o.name, "custom") {
				r.verify() // state invariant: the store and the model hold the same rows
			}
			ntrans++
			res.Counts["transitions"]++
			if r.failed {
				st.Close()
				continue
			}
			key := st.Canon()
			if seen[key] || s.depth+1 >= depth {
				if !seen[key] {
					seen[key] = true
					nstates++
					if s.depth+1 > maxDepth {
						maxDepth = s.depth + 1
					}
				}
				st.Close()
				continue
			}
			seen[key] = true
			nstates++
			if s.depth+1 > maxDepth {
				maxDepth = s.depth + 1
			}
			frontier = append(frontier, state{st, r.m, r.trace, s.depth + 1})
		}
		if s.store != base {
			s.store.Close()
		}
	}
	res.Counts["states"] += nstates
	res.Counts["max-depth"] = maxDepth
	if Shard == 0 {
		res.Counts["operations-enabled"] = len(ops)
	}
	if res.Sets == nil {
		res.Sets = map[string][]string{}
	}
	for f := range funcs {
		res.Sets["functions-exercised"] = append(res.Sets["functions-exercised"], f)
	}
}
