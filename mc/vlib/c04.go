package vlib

import (
	"encoding/json"
	"fmt"
	"reflect"
	"sort"
	"strings"

	"verif.test/mc/models/vpg"
)

// C04: the generated validators accept what Go emits and reject single-point corruptions.

type mutation struct {
	class string
	where string
	doc   any
}

type mutator struct {
	c    *Case
	root any
	out  []mutation
}

func cloneJSON(x any) any {
	switch v := x.(type) {
	case map[string]any:
		m := make(map[string]any, len(v))
		for k, e := range v {
			m[k] = cloneJSON(e)
		}
		return m
	case []any:
		l := make([]any, len(v))
		for i, e := range v {
			l[i] = cloneJSON(e)
		}
		return l
	}
	return x
}

// with returns a copy of the root where the node at path is replaced by f(node).
func (m *mutator) with(path []any, f func(old any) any) any {
	var rec func(node any, p []any) any
	rec = func(node any, p []any) any {
		if len(p) == 0 {
			return f(cloneJSON(node))
		}
		switch k := p[0].(type) {
		case string:
			obj := node.(map[string]any)
			cp := make(map[string]any, len(obj))
			for kk, vv := range obj {
				cp[kk] = vv
			}
			cp[k] = rec(obj[k], p[1:])
			return cp
		case int:
			arr := node.([]any)
			cp := append([]any{}, arr...)
			cp[k] = rec(arr[k], p[1:])
			return cp
		}
		panic("bad path")
	}
	return rec(m.root, path)
}

func pathString(p []any) string {
	var b strings.Builder
	b.WriteString("$")
	for _, k := range p {
		switch x := k.(type) {
		case string:
			b.WriteString("." + x)
		case int:
			fmt.Fprintf(&b, "[%d]", x)
		}
	}
	return b.String()
}

func (m *mutator) add(class string, path []any, f func(old any) any) {
	m.out = append(m.out, mutation{class, pathString(path), m.with(path, f)})
}

func jsonKind(x any) string {
	switch x.(type) {
	case nil:
		return "null"
	case bool:
		return "boolean"
	case json.Number, float64:
		return "number"
	case string:
		return "string"
	case []any:
		return "array"
	case map[string]any:
		return "object"
	}
	return "?"
}

// wrongKinds replaces the node by one value of each JSON kind that Go never emits at this
// position (valid lists the kinds Go can emit there besides the kind of the node itself).
func (m *mutator) wrongKinds(path []any, node any, valid ...string) {
	have := jsonKind(node)
	for _, alt := range []any{nil, true, json.Number("1"), "s", []any{}, map[string]any{}} {
		k := jsonKind(alt)
		ok := k == have
		for _, v := range valid {
			ok = ok || k == v
		}
		if ok {
			continue
		}
		a := alt
		m.add("wrong-kind", path, func(any) any { return a })
	}
}

func child(path []any, k any) []any { return append(append([]any{}, path...), k) }

func (m *mutator) walk(t reflect.Type, v reflect.Value, node any, path []any, nullAllowed bool) {
	c := m.c
	if _, ok := c.Unions[t]; ok {
		obj, isObj := node.(map[string]any)
		m.wrongKinds(path, node)
		if !isObj || v.IsNil() {
			return
		}
		m.add("unknown-key", path, func(old any) any { o := old.(map[string]any); o["zz_unknown"] = json.Number("1"); return o })
		m.add("unknown-kind", child(path, "Kind"), func(any) any { return "zz_NotAMember" })
		m.wrongKinds(child(path, "Kind"), obj["Kind"])
		dyn := v.Elem()
		m.walk(dyn.Type(), dyn, obj["Data"], child(path, "Data"), nilable(dyn.Type()))
		return
	}
	if consts, ok := c.Enums[t]; ok && len(consts) > 0 {
		m.wrongKinds(path, node)
		switch node.(type) {
		case string:
			m.add("non-member-enum", path, func(any) any { return "zz_not_a_member" })
		case json.Number:
			m.add("non-member-enum", path, func(any) any { return json.Number("9999") })
		}
		return
	}
	if !c.generated(t) && (t.Implements(marshalerType) || reflect.PointerTo(t).Implements(marshalerType)) {
		m.wrongKinds(path, node) // user defined encoding (times, dates): a scalar leaf
		return
	}
	switch t.Kind() {
	case reflect.Struct:
		m.wrongKinds(path, node)
		if _, ok := node.(map[string]any); !ok {
			return
		}
		m.add("unknown-key", path, func(old any) any { o := old.(map[string]any); o["zz_unknown"] = json.Number("1"); return o })
		m.walkFields(t, v, node.(map[string]any), path)
	case reflect.Map:
		m.wrongKinds(path, node, "null", "object")
		obj, ok := node.(map[string]any)
		if !ok {
			return
		}
		keys := v.MapKeys()
		sort.Slice(keys, func(i, j int) bool { return fmt.Sprint(keys[i].Interface()) < fmt.Sprint(keys[j].Interface()) })
		for _, k := range keys {
			ks, err := mapKeyString(k)
			if err != nil {
				continue
			}
			if sub, ok := obj[ks]; ok {
				m.walk(t.Elem(), v.MapIndex(k), sub, child(path, ks), nilable(t.Elem()))
			}
		}
	case reflect.Slice:
		if t.Elem().Kind() == reflect.Uint8 {
			return // base64 string: known mismatch, reported by the acceptance clause
		}
		m.wrongKinds(path, node, "null", "array")
		arr, ok := node.([]any)
		if !ok {
			return
		}
		for i := range arr {
			m.walk(t.Elem(), v.Index(i), arr[i], child(path, i), nilable(t.Elem()))
		}
	case reflect.Array:
		m.wrongKinds(path, node)
		arr, ok := node.([]any)
		if !ok {
			return
		}
		if len(arr) > 0 {
			m.add("array-length", path, func(old any) any { a := old.([]any); return append(a, cloneJSON(a[0])) })
			m.add("array-length", path, func(old any) any { a := old.([]any); return a[:len(a)-1] })
			if len(arr) > 1 {
				m.add("array-length", path, func(old any) any { return []any{} }) // the empty array is a wrong length too
			}
		}
		for i := range arr {
			m.walk(t.Elem(), v.Index(i), arr[i], child(path, i), nilable(t.Elem()))
		}
	case reflect.Pointer, reflect.Interface:
		// outside the alphabet
	default:
		m.wrongKinds(path, node)
	}
}

func nilable(t reflect.Type) bool {
	return t.Kind() == reflect.Slice || t.Kind() == reflect.Map
}

func (m *mutator) walkFields(t reflect.Type, v reflect.Value, obj map[string]any, path []any) {
	for i := 0; i < t.NumField(); i++ {
		f := t.Field(i)
		tag := f.Tag.Get("json")
		if tag == "-" {
			continue
		}
		name, _, _ := strings.Cut(tag, ",")
		if f.Anonymous && f.Type.Kind() == reflect.Struct && name == "" {
			m.walkFields(f.Type, v.Field(i), obj, path)
			continue
		}
		if !f.IsExported() {
			continue
		}
		if name == "" {
			name = f.Name
		}
		if f.Tag.Get("gomacro") == "ignore" {
			continue
		}
		sub, ok := obj[name]
		if !ok {
			continue
		}
		m.walk(f.Type, v.Field(i), sub, child(path, name), nilable(f.Type))
	}
}

func runC04(c *Case, budget int, res *CaseResult) {
	script, err := vpg.ParseScript(c.SQL)
	if err != nil {
		res.fail("script-parses", "validator script outside PL/pgSQL subset: "+trunc(err.Error(), 60), "the SQL output cannot be interpreted: "+err.Error(), 0)
		return
	}
	if u := script.UndefinedCalls(); len(u) > 0 && Shard == 0 {
		res.fail("functions-defined", "undefined function", fmt.Sprintf("functions called but not defined in the script: %v", u), 0)
	}
	checkOf := map[string]vpg.Check{}
	for _, ck := range script.Checks {
		checkOf[strings.ToLower(ck.Table+"."+ck.Column)] = ck
	}
	var cols []string
	for k := range c.JSONB {
		cols = append(cols, k)
	}
	sort.Strings(cols)
	for _, col := range cols {
		t := c.JSONB[col]
		ck, ok := checkOf[strings.ToLower(col)]
		if !ok || ck.Func == "" {
			if Shard == 0 {
				res.fail("check-wired", "no CHECK for jsonb column", "jsonb column "+col+" has no CHECK (fn(col)) constraint", 0)
			}
			continue
		}
		if Shard == 0 {
			res.Counts["jsonb-columns"]++
		}
		st := Values(c, t, budget, func(v reflect.Value, cost int, desc string) {
			var data []byte
			var merr error
			func() {
				defer func() {
					if p := recover(); p != nil {
						merr = fmt.Errorf("panic: %v", p)
					}
				}()
				data, merr = json.Marshal(v.Interface())
			}()
			if merr != nil {
				// the generated wrappers fail on this value (C02's business); the document the column must
				// admit is still defined: the wire format of C02, written by the reference encoder
				res.Counts["marshal-failed(C02)"]++
				ref, rerr := c.Ref(v)
				if rerr != nil {
					return
				}
				data = []byte(canonJSON(ref))
				res.Counts["reference-document-used"]++
			}
			doc, derr := decodeJSON(data)
			if derr != nil {
				return
			}
			res.Counts["documents"]++
			tri, cerr := script.Call(ck.Func, doc)
			if cerr != nil || tri == vpg.False {
				why := "evaluates to FALSE"
				if cerr != nil {
					why = "raises: " + cerr.Error()
				}
				res.fail("accepts-go-documents", "rejected: "+trunc(normMsg(why), 70)+" ["+trunc(desc, 80)+"]", fmt.Sprintf("column %s (%s): CHECK %s(%s) %s on the document Go emits: %s [%s]", col, t, ck.Func, ck.Column, why, trunc(string(data), 400), desc), cost)
				return
			}
			m := &mutator{c: c, root: doc}
			m.walk(t, v, doc, nil, false)
			for _, mu := range m.out {
				res.Counts["corruptions"]++
				tri, cerr := script.Call(ck.Func, mu.doc)
				if cerr == nil && tri != vpg.False {
					bad, _ := json.Marshal(mu.doc)
					res.fail("rejects-"+mu.class, mu.class+" at "+normPath(mu.where)+" of "+t.String(), fmt.Sprintf("column %s (%s): CHECK %s does not evaluate to FALSE (it yields %s) on %s, a %s corruption at %s of the Go document %s", col, t, ck.Func, triName(tri), trunc(string(bad), 400), mu.class, mu.where, trunc(string(data), 300)), cost)
				}
			}
		})
		res.Counts["value-transitions"] += st.Transitions
	}
}

func triName(t vpg.Tri) string {
	switch t {
	case vpg.True:
		return "TRUE"
	case vpg.False:
		return "FALSE"
	}
	return "NULL"
}
