package vlib

import (
	"encoding/json"
	"fmt"
	"reflect"
	"regexp"
	"strings"

	"verif.test/mc/explore"
	"verif.test/mc/models/tsparse"
	"verif.test/mc/vlib/vrand"
)

// ------------------------------------------------------------------------------------------
// C15: generated random-data functions

func (c *Case) wellFormed(v reflect.Value, path string, problems *[]string) {
	t := v.Type()
	add := func(s string) {
		if len(*problems) < 5 {
			*problems = append(*problems, path+": "+s)
		}
	}
	if members, ok := c.Unions[t]; ok {
		if v.IsNil() {
			add("nil union value")
			return
		}
		dyn := v.Elem()
		ok := false
		for _, m := range members {
			if m == dyn.Type() {
				ok = true
			}
		}
		if !ok {
			add(fmt.Sprintf("dynamic type %s is not a member of the union %s", dyn.Type(), t))
			return
		}
		c.wellFormed(dyn, path+"("+dyn.Type().Name()+")", problems)
		return
	}
	if consts, ok := c.EnumsExp[t]; ok {
		found := false
		for _, k := range consts {
			if reflect.ValueOf(k).Convert(t).Interface() == v.Interface() {
				found = true
			}
		}
		if !found {
			add(fmt.Sprintf("enum value %v is not one of the exported constants %v", v.Interface(), consts))
		}
		return
	}
	if t == timeType || isTimeLike(t) {
		return
	}
	switch t.Kind() {
	case reflect.Struct:
		for i := 0; i < t.NumField(); i++ {
			f := t.Field(i)
			fv := v.Field(i)
			if !f.IsExported() {
				if f.Anonymous && f.Type.Kind() == reflect.Struct {
					c.wellFormed(fv, path+"."+f.Name, problems) // promoted fields
				}
				continue
			}
			if c.SkipData[t.Name()+"."+f.Name] {
				if !fv.IsZero() {
					add("field " + f.Name + " is marked gomacro-data:\"ignore\" but is not zero")
				}
				continue
			}
			c.wellFormed(fv, path+"."+f.Name, problems)
		}
	case reflect.Slice:
		if v.Len() == 0 {
			add("slice is not populated")
		}
		for i := 0; i < v.Len() && i < 3; i++ {
			c.wellFormed(v.Index(i), fmt.Sprintf("%s[%d]", path, i), problems)
		}
	case reflect.Array:
		for i := 0; i < v.Len(); i++ {
			c.wellFormed(v.Index(i), fmt.Sprintf("%s[%d]", path, i), problems)
		}
	case reflect.Map:
		if v.Len() == 0 {
			add("map is not populated")
		}
		it := v.MapRange()
		n := 0
		for it.Next() && n < 3 {
			c.wellFormed(it.Key(), path+"{key}", problems)
			c.wellFormed(it.Value(), path+"{value}", problems)
			n++
		}
	case reflect.Pointer:
		if !v.IsNil() {
			c.wellFormed(v.Elem(), path+"*", problems)
		}
	case reflect.Interface:
		if v.IsNil() {
			add("nil interface value")
		}
	}
}

func runC15(c *Case, budget int, res *CaseResult) {
	for _, t := range c.Types {
		f := c.Rand[t]
		if f == nil {
			continue
		}
		res.Counts["rand-functions"]++
		distinct := map[string]bool{}
		interior := map[string]bool{} // values of the calls that only deviated inside the large draw ranges
		interiorRuns := 0
		hadChoice := false
		aborted := false
		var st explore.Stats
		type abort struct{}
		func() {
			defer func() {
				if p := recover(); p != nil {
					if _, ok := p.(abort); !ok {
						panic(p)
					}
				}
			}()
			var (
				val  any
				perr any
			)
			explore.EnumerateSharded(budget, func(ch explore.Chooser) {
				if aborted {
					panic(abort{})
				}
				vrand.C, vrand.Calls = ch, 0
				vrand.Deviated, vrand.Boundary = false, false
				val, perr = nil, nil
				func() {
					defer func() { perr = recover() }()
					val = f()
				}()
				if perr == nil {
					distinct[fmt.Sprintf("%#v", val)] = true
					if !vrand.Boundary {
						interior[fmt.Sprintf("%#v", val)] = true
						interiorRuns++
					}
				}
			}, func(r *explore.Run) {
				cost := explore.Cost(r.Choices)
				desc := "rand answers " + explore.VecString(r.Vec())
				for _, p := range r.Points {
					if p.N > 1 {
						hadChoice = true
					}
				}
				res.Counts["rand-calls"]++
				if perr != nil {
					if _, ok := perr.(vrand.LimitExceeded); ok {
						res.fail("terminates", "does not terminate", fmt.Sprintf("rand function of %s draws more than %d random numbers: unbounded recursion", t, vrand.Limit), cost)
						aborted = true
					} else {
						res.fail("no-panic", "panics: "+trunc(fmt.Sprint(perr), 60), fmt.Sprintf("rand function of %s panics: %v [%s]", t, perr, desc), cost)
					}
					return
				}
				v := reflect.ValueOf(val)
				if v.Type() != t {
					if v.Type().ConvertibleTo(t) {
						v = v.Convert(t)
					} else {
						res.fail("well-formed", "wrong type", fmt.Sprintf("rand function of %s returns a %s", t, v.Type()), cost)
						return
					}
				}
				var problems []string
				c.wellFormed(v, t.Name(), &problems)
				if len(problems) > 0 {
					sig := problems[0]
					if i := strings.Index(sig, ": "); i >= 0 {
						sig = sig[i+2:]
					}
					res.fail("well-formed", trunc(sig, 70), fmt.Sprintf("value returned for %s: %s [%s]", t, strings.Join(problems, "; "), desc), cost)
				}
				if _, isUnion := c.Unions[t]; !isUnion {
					if len(problems) == 0 && c.holdsNilUnion(v, 0) {
						// the only nil unions of a well-formed value sit in fields marked to be skipped:
						// such a value is outside C02 (no document is defined for a nil union)
						res.Counts["round-trip-undefined:nil-union-in-skipped-field"]++
					} else {
						roundTrip(c, t, v, cost, desc, res, "rand-")
					}
				}
			}, &st, Shard, NShards)
		}()
		res.Counts["rand-transitions"] += st.Transitions
		if budget >= 2 && !aborted {
			c.tableSweep(t, f, res)
		}
		if res.Sets == nil {
			res.Sets = map[string][]string{}
		}
		res.Counts["interior-runs:"+t.String()] += interiorRuns
		ni := 0
		for h := range interior {
			if ni < 3 {
				res.Sets["interior:"+t.String()] = append(res.Sets["interior:"+t.String()], evidHash(h))
			}
			ni++
		}
		n := 0
		for h := range distinct {
			if n < 3 {
				res.Sets["distinct:"+t.String()] = append(res.Sets["distinct:"+t.String()], evidHash(h))
			}
			n++
		}
		if hadChoice && !aborted {
			res.Counts["hadchoice:"+t.String()]++
		}
		res.Counts["runs:"+t.String()] += st.Runs
		vrand.C = nil
	}
}

// ------------------------------------------------------------------------------------------
// C03: documents inhabit the generated TypeScript types

func runC03(c *Case, budget int, res *CaseResult) {
	env, err := tsparse.Parse(c.TS)
	if err != nil {
		msg := err.Error()
		sig := msg
		if i := strings.Index(sig, ": "); i >= 0 {
			sig = sig[i+2:]
		}
		res.fail("well-formed", "not valid TypeScript: "+trunc(sig, 60), "the TypeScript output is not in the accepted grammar: "+msg, 0)
		return
	}
	if !c.Sel(0) {
		goto docs // the program-level clauses are evaluated by one shard only
	}
	if u := env.Undeclared(); len(u) > 0 {
		res.fail("self-contained", "undeclared name", fmt.Sprintf("type names mentioned but not declared: %v", u), 0)
	}
	if d := env.Duplicates(); len(d) > 0 {
		res.fail("self-contained", "duplicate declaration", fmt.Sprintf("names declared more than once: %v", d), 0)
	}
	if d := env.DuplicateProps(); len(d) > 0 {
		res.fail("well-formed", "duplicate property", fmt.Sprintf("property declared twice: %v", d), 0)
	}
docs:
	for _, t := range c.Types {
		name := c.TSNames[t]
		if _, isUnion := c.Unions[t]; isUnion || name == "" {
			continue
		}
		if _, ok := env.Types[name]; !ok {
			res.fail("self-contained", "analysed type not declared", fmt.Sprintf("no TypeScript declaration %s for the analysed type %s", name, t), 0)
			continue
		}
		st := Values(c, t, budget, func(v reflect.Value, cost int, desc string) {
			var data []byte
			var err error
			func() {
				defer func() {
					if p := recover(); p != nil {
						err = fmt.Errorf("panic: %v", p)
					}
				}()
				data, err = json.Marshal(v.Interface())
			}()
			if err != nil {
				res.Counts["marshal-failed(C02)"]++
				return
			}
			doc, derr := decodeJSON(data)
			if derr != nil {
				return
			}
			res.Counts["documents"]++
			if ierr := env.Inhabits(name, doc); ierr != nil {
				msg := ierr.Error()
				res.fail("inhabits", trunc(normMsg(msg), 110), fmt.Sprintf("%s: document %s does not inhabit %s: %s [%s]", t, trunc(string(data), 400), name, msg, desc), cost)
			}
		})
		res.Counts["value-transitions"] += st.Transitions
	}
}

func evidHash(s string) string {
	h := uint64(14695981039346656037)
	for i := 0; i < len(s); i++ {
		h ^= uint64(s[i])
		h *= 1099511628211
	}
	return fmt.Sprintf("%016x", h)
}

var reQuoted = regexp.MustCompile(`"[^"]*"`)

// normMsg drops indices, keys and literal values from a mismatch message.
func normMsg(msg string) string {
	if i := strings.Index(msg, "; closest alternative"); i >= 0 {
		msg = msg[:i]
	}
	return reQuoted.ReplaceAllString(normPath(msg), `"..."`)
}

// normPath drops array indices and map keys from a mismatch message so that similar failures group.
func normPath(msg string) string {
	var b strings.Builder
	depth := 0
	for _, r := range msg {
		switch {
		case r == '[':
			depth++
			b.WriteString("[")
		case r == ']':
			if depth > 0 {
				depth--
			}
			b.WriteString("]")
		case depth > 0:
		default:
			b.WriteRune(r)
		}
	}
	return b.String()
}

// holdsNilUnion reports whether v contains a nil value of a union type.
func (c *Case) holdsNilUnion(v reflect.Value, depth int) bool {
	if depth > 12 || !v.IsValid() {
		return false
	}
	if _, ok := c.Unions[v.Type()]; ok {
		if v.IsNil() {
			return true
		}
		return c.holdsNilUnion(v.Elem(), depth+1)
	}
	switch v.Kind() {
	case reflect.Struct:
		for i := 0; i < v.NumField(); i++ {
			if c.holdsNilUnion(v.Field(i), depth+1) {
				return true
			}
		}
	case reflect.Slice, reflect.Array:
		for i := 0; i < v.Len(); i++ {
			if c.holdsNilUnion(v.Index(i), depth+1) {
				return true
			}
		}
	case reflect.Map:
		it := v.MapRange()
		for it.Next() {
			if c.holdsNilUnion(it.Value(), depth+1) {
				return true
			}
		}
	case reflect.Pointer, reflect.Interface:
		if !v.IsNil() {
			return c.holdsNilUnion(v.Elem(), depth+1)
		}
	}
	return false
}

// tableSweep (scaffold program only): the budgeted exploration answers a draw on more than 8 values
// from {0, n-1, n/3, n/2}; a draw on 9..64 values is usually an index into a small table (the letters
// of randstring), every entry of which can be drawn. Each such draw of the default call is given, one
// at a time, every value of its range; the returned value must be well formed and survive the round trip.
func (c *Case) tableSweep(t reflect.Type, f func() any, res *CaseResult) {
	call := func(sp *vrand.SweepSpec) (val any, perr any) {
		vrand.Sweep, vrand.Calls = sp, 0
		defer func() { vrand.Sweep = nil }()
		defer func() { perr = recover() }()
		return f(), nil
	}
	probe := &vrand.SweepSpec{Index: -1}
	if _, perr := call(probe); perr != nil {
		return
	}
	draws := probe.Seen()
	if draws > 48 {
		draws = 48
	}
	for i := 0; i < draws; i++ {
		for v := 1; v < 64; v++ {
			sp := &vrand.SweepSpec{Index: i, Value: v}
			val, perr := call(sp)
			if !sp.Hit {
				break // the range of this draw holds fewer values
			}
			res.Counts["table-sweep-calls"]++
			desc := fmt.Sprintf("table sweep: draw %d on a small range answers %d, every other draw 0", i, v)
			if perr != nil {
				res.fail("no-panic", "panics: "+trunc(fmt.Sprint(perr), 60), fmt.Sprintf("rand function of %s panics: %v [%s]", t, perr, desc), 1)
				continue
			}
			rv := reflect.ValueOf(val)
			if rv.Type() != t {
				if !rv.Type().ConvertibleTo(t) {
					continue
				}
				rv = rv.Convert(t)
			}
			var problems []string
			c.wellFormed(rv, t.Name(), &problems)
			if len(problems) > 0 {
				res.fail("well-formed", trunc(problems[0], 70), fmt.Sprintf("value returned for %s: %s [%s]", t, strings.Join(problems, "; "), desc), 1)
			}
			if _, isUnion := c.Unions[t]; !isUnion && !(len(problems) == 0 && c.holdsNilUnion(rv, 0)) {
				roundTrip(c, t, rv, 1, desc, res, "rand-")
			}
		}
	}
}
