// Package verifhook exists only in the build overlay used by the checks of /verif (it is never
// committed to the repository): instrumented copies of gomacro's files call it instead of sync,
// os/exec and plain map ranges, so that an explorer can decide lock / exec / spawn order (C20)
// and map iteration order (C07). With no scheduler / order hook installed every shim delegates
// to the real primitive.
package verifhook

import (
	"bytes"
	"context"
	"fmt"
	"io"
	"os/exec"
	"reflect"
	"sort"
	"strings"
	"sync"
)

// ---------------------------------------------------------------------------- scheduling (C20)

type Sched interface {
	Lock(m *Mutex)
	Unlock(m *Mutex)
	Run(c *Cmd) error
	Go(f func())
	// Block is a scheduling point: the calling task gives the hand back and may be resumed only
	// once ready() holds (used for the channel operations).
	Block(kind string, ready func() bool)
	Add(wg *WaitGroup, n int)
	Done(wg *WaitGroup)
	Wait(wg *WaitGroup)
}

// S is the installed scheduler (nil: real primitives).
var S Sched

type Mutex struct {
	real sync.Mutex
	Held bool // scheduler state
	ID   int
}

func (m *Mutex) Lock() {
	if S == nil {
		m.real.Lock()
		return
	}
	S.Lock(m)
}

func (m *Mutex) Unlock() {
	if S == nil {
		m.real.Unlock()
		return
	}
	S.Unlock(m)
}

// TryLock stands for sync.Mutex.TryLock.
func (m *Mutex) TryLock() bool {
	if S == nil {
		return m.real.TryLock()
	}
	if m.Held {
		return false
	}
	S.Lock(m)
	return true
}

type WaitGroup struct {
	real sync.WaitGroup
	N    int
}

func (w *WaitGroup) Add(n int) {
	if S == nil {
		w.real.Add(n)
		return
	}
	S.Add(w, n)
}

func (w *WaitGroup) Done() {
	if S == nil {
		w.real.Done()
		return
	}
	S.Done(w)
}

func (w *WaitGroup) Wait() {
	if S == nil {
		w.real.Wait()
		return
	}
	S.Wait(w)
}

// the error types and values of os/exec that a caller may test for
type (
	ExitError = exec.ExitError
	Error     = exec.Error
)

var ErrNotFound = exec.ErrNotFound

// Cmd stands for exec.Cmd: the fields and methods a caller may reasonably use are mirrored so
// that a changed repository still builds against the shim.
type Cmd struct {
	Path   string
	Args   []string
	Env    []string
	Dir    string
	Stdin  io.Reader
	Stdout io.Writer
	Stderr io.Writer
	real   *exec.Cmd
}

func Command(name string, args ...string) *Cmd {
	c := &Cmd{Path: name, Args: append([]string{name}, args...)}
	if S == nil {
		c.real = exec.Command(name, args...)
	}
	return c
}

// CommandContext stands for exec.CommandContext (the context is only honoured by the real command).
func CommandContext(ctx context.Context, name string, args ...string) *Cmd {
	c := &Cmd{Path: name, Args: append([]string{name}, args...)}
	if S == nil {
		c.real = exec.CommandContext(ctx, name, args...)
	}
	return c
}

func (c *Cmd) sync() {
	c.real.Env, c.real.Dir, c.real.Stdin, c.real.Stdout, c.real.Stderr = c.Env, c.Dir, c.Stdin, c.Stdout, c.Stderr
}

func (c *Cmd) Run() error {
	if S == nil {
		c.sync()
		return c.real.Run()
	}
	err := S.Run(c)
	if err != nil && c.Stderr != nil {
		// what a failing tool would print
		fmt.Fprintf(c.Stderr, "%s: cannot process %s\n", c.Args[0], c.Args[len(c.Args)-1])
	}
	return err
}

func (c *Cmd) Start() error { return c.Run() }

func (c *Cmd) Wait() error { return nil }

func (c *Cmd) String() string { return strings.Join(c.Args, " ") }

func (c *Cmd) Output() ([]byte, error) {
	if S == nil {
		c.sync()
		return c.real.Output()
	}
	return nil, c.Run()
}

func (c *Cmd) CombinedOutput() ([]byte, error) {
	if S == nil {
		c.sync()
		return c.real.CombinedOutput()
	}
	var b bytes.Buffer
	c.Stderr = &b
	err := c.Run()
	return b.Bytes(), err
}

// LookPath stands for exec.LookPath (decided by the scheduler's environment through a probe).
func LookPath(file string) (string, error) {
	if S == nil {
		return exec.LookPath(file)
	}
	if err := S.Run(&Cmd{Path: "which", Args: []string{"which", file}}); err != nil {
		return "", err
	}
	return "/usr/bin/" + file, nil
}

// ---------------------------------------------------------------------------- channels
//
// Under a scheduler the channel operations of the instrumented files are served by a model of the
// channel (a queue of the channel's capacity plus the senders waiting on it), so that a task
// waiting on a channel is visible to the scheduler instead of blocking its goroutine. Every
// operation is a scheduling point. With no scheduler installed they are the plain operations.

type pendingSend struct {
	v     any
	taken bool
}

type chanModel struct {
	buf     []any
	cap     int
	closed  bool
	senders []*pendingSend
}

var chanModels = map[uintptr]*chanModel{}

// ResetChans forgets the channels of the previous run.
func ResetChans() { chanModels = map[uintptr]*chanModel{} }

func modelOf(ch any) *chanModel {
	v := reflect.ValueOf(ch)
	p := v.Pointer()
	m := chanModels[p]
	if m == nil {
		m = &chanModel{cap: v.Cap()}
		chanModels[p] = m
	}
	return m
}

func always() bool { return true }

func Send[T any](ch chan<- T, v T) {
	if S == nil {
		ch <- v
		return
	}
	S.Block("chan send", always)
	m := modelOf(ch)
	if m.closed {
		panic("send on closed channel")
	}
	// values are kept behind a *T: a nil interface value must come out as a nil interface value
	if len(m.buf) < m.cap {
		m.buf = append(m.buf, &v)
		return
	}
	ps := &pendingSend{v: &v}
	m.senders = append(m.senders, ps)
	S.Block("chan send (waiting for a receiver)", func() bool { return ps.taken || m.closed })
	if !ps.taken {
		panic("send on closed channel")
	}
}

func Recv2[T any](ch <-chan T) (T, bool) {
	if S == nil {
		v, ok := <-ch
		return v, ok
	}
	S.Block("chan recv", always)
	m := modelOf(ch)
	ready := func() bool { return len(m.buf) > 0 || len(m.senders) > 0 || m.closed }
	if !ready() {
		S.Block("chan recv (waiting for a sender)", ready)
	}
	if len(m.buf) > 0 {
		v := m.buf[0]
		m.buf = m.buf[1:]
		if len(m.senders) > 0 { // a waiting sender takes the freed slot
			ps := m.senders[0]
			m.senders = m.senders[1:]
			m.buf = append(m.buf, ps.v)
			ps.taken = true
		}
		return *(v.(*T)), true
	}
	if len(m.senders) > 0 {
		ps := m.senders[0]
		m.senders = m.senders[1:]
		ps.taken = true
		return *(ps.v.(*T)), true
	}
	var zero T
	return zero, false
}

func Recv[T any](ch <-chan T) T {
	v, _ := Recv2(ch)
	return v
}

func Close[T any](ch chan<- T) {
	if S == nil {
		close(ch)
		return
	}
	S.Block("chan close", always)
	m := modelOf(ch)
	if m.closed {
		panic("close of closed channel")
	}
	m.closed = true
}

// Len and Cap stand for len(ch) and cap(ch).
func Len[T any](ch <-chan T) int {
	if S == nil {
		return len(ch)
	}
	return len(modelOf(ch).buf)
}

func Cap[T any](ch <-chan T) int { return cap(ch) }

// Go replaces the go statement.
func Go(f func()) {
	if S == nil {
		go f()
		return
	}
	S.Go(f)
}

// ---------------------------------------------------------------------------- map order (C07)

// Order, when installed, permutes the canonically sorted keys of the ranged map at `site`.
// It receives the number of keys and returns a permutation of 0..n-1 (nil: identity).
var Order func(site string, keys []string) []int

// Keys returns the keys of m in the order decided by the hook: canonical order (sorted by their
// printed form, ties by first-seen index) then the permutation chosen by Order.
func Keys[M ~map[K]V, K comparable, V any](site string, m M) []K {
	keys := make([]K, 0, len(m))
	for k := range m {
		keys = append(keys, k)
	}
	if Order == nil {
		return keys
	}
	names := make([]string, len(keys))
	for i, k := range keys {
		names[i] = keyName(k)
	}
	idx := make([]int, len(keys))
	for i := range idx {
		idx[i] = i
	}
	sort.SliceStable(idx, func(a, b int) bool { return names[idx[a]] < names[idx[b]] })
	sorted := make([]K, len(keys))
	sortedNames := make([]string, len(keys))
	for i, j := range idx {
		sorted[i], sortedNames[i] = keys[j], names[j]
	}
	perm := Order(site, sortedNames)
	if perm == nil {
		return sorted
	}
	out := make([]K, len(sorted))
	for i, p := range perm {
		out[i] = sorted[p]
	}
	return out
}

// KV is one entry of a ranged map.
type KV[K comparable, V any] struct {
	K K
	V V
}

// Pairs returns the entries of m in the order decided by the hook (see Keys).
func Pairs[M ~map[K]V, K comparable, V any](site string, m M) []KV[K, V] {
	keys := Keys(site, m)
	out := make([]KV[K, V], len(keys))
	for i, k := range keys {
		out[i] = KV[K, V]{k, m[k]}
	}
	return out
}

var (
	registry   = map[any]int{}
	registryMu sync.Mutex
)

// keyName prints a key; distinct keys with the same printed form (structurally equal types) are
// told apart by a registry index assigned at first sight.
func keyName(k any) string {
	var s string
	switch x := k.(type) {
	case string:
		return x
	case fmt.Stringer:
		s = x.String()
	default:
		s = fmt.Sprint(k)
	}
	registryMu.Lock()
	defer registryMu.Unlock()
	n, ok := registry[k]
	if !ok {
		n = len(registry)
		registry[k] = n
	}
	return fmt.Sprintf("%s#%06d", s, n)
}

// ResetRegistry forgets the first-seen indices (between programs).
func ResetRegistry() {
	registryMu.Lock()
	registry = map[any]int{}
	registryMu.Unlock()
}

// RWMutex and Once are provided so that a repository change to another sync primitive still builds.
type RWMutex struct{ Mutex }

func (m *RWMutex) RLock()   { m.Lock() }
func (m *RWMutex) RUnlock() { m.Unlock() }

type Once struct {
	m    Mutex
	done bool
}

// OnceFunc, OnceValue and OnceValues stand for their sync namesakes, built on the scheduler-aware
// Mutex (a goroutine blocked in the real sync.Once would be invisible to the scheduler).
func OnceFunc(f func()) func() {
	var o Once
	return func() { o.Do(f) }
}

func OnceValue[T any](f func() T) func() T {
	var o Once
	var v T
	return func() T {
		o.Do(func() { v = f() })
		return v
	}
}

func OnceValues[T1, T2 any](f func() (T1, T2)) func() (T1, T2) {
	var o Once
	var v1 T1
	var v2 T2
	return func() (T1, T2) {
		o.Do(func() { v1, v2 = f() })
		return v1, v2
	}
}

// the parts of sync that never block
type (
	Pool = sync.Pool
	Map  = sync.Map
)

func (o *Once) Do(f func()) {
	o.m.Lock()
	defer o.m.Unlock()
	if !o.done {
		o.done = true
		f()
	}
}
