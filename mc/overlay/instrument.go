// Package overlay builds the `go build -overlay` description used by C07 and C20: instrumented
// copies of /repo's current files plus the virtual package verifhook (DESIGN §3.7). Nothing is
// written to /repo.
package overlay

import (
	"bytes"
	"encoding/json"
	"fmt"
	"go/ast"
	"go/format"
	"go/parser"
	"go/token"
	"go/types"
	"os"
	"path/filepath"
	"strconv"
	"strings"

	"golang.org/x/tools/go/ast/astutil"
	"golang.org/x/tools/go/packages"
)

const HookPath = "github.com/benoitkugler/gomacro/verifhook"

// RepoDir is the tree under verification (VERIF_REPO, default /repo).
var RepoDir = func() string {
	if v := os.Getenv("VERIF_REPO"); v != "" {
		return v
	}
	return "/repo"
}()

type Overlay struct {
	Replace map[string]string
	Sites   []string // instrumented sites, for the evidence
}

func New(verifDir string) *Overlay {
	return &Overlay{Replace: map[string]string{
		RepoDir + "/verifhook/hook.go": filepath.Join(verifDir, "mc", "overlay", "verifhook", "hook.go"),
	}}
}

// Write stores the overlay JSON in dir and returns its path.
func (o *Overlay) Write(dir string) (string, error) {
	b, _ := json.MarshalIndent(map[string]any{"Replace": o.Replace}, "", " ")
	p := filepath.Join(dir, "overlay.json")
	return p, os.WriteFile(p, b, 0o644)
}

// Sync rewrites the imports of sync and os/exec of the given file to the verifhook shims.
func (o *Overlay) Sync(file, dir string) error {
	// the file is taken from its type-checked package, so that a range over a channel can be told
	// from the other ranges
	cfg := &packages.Config{Dir: RepoDir, Mode: packages.NeedName | packages.NeedFiles | packages.NeedCompiledGoFiles | packages.NeedSyntax | packages.NeedTypes | packages.NeedTypesInfo | packages.NeedImports | packages.NeedDeps,
		Env: append(os.Environ(), "GOFLAGS=-mod=mod", "GOPROXY=off", "GOSUMDB=off", "GOTOOLCHAIN=local")}
	pkgs, err := packages.Load(cfg, "file="+file)
	if err != nil {
		return err
	}
	var fset *token.FileSet
	var f *ast.File
	var info *types.Info
	for _, p := range pkgs {
		for i, name := range p.CompiledGoFiles {
			if name == file && i < len(p.Syntax) {
				fset, f, info = p.Fset, p.Syntax[i], p.TypesInfo
			}
		}
	}
	if f == nil {
		// the package does not load (it should: the repository builds): fall back on the syntax alone
		fset = token.NewFileSet()
		if f, err = parser.ParseFile(fset, file, nil, parser.ParseComments); err != nil {
			return err
		}
	}
	isChan := func(e ast.Expr) bool {
		if info == nil {
			return false
		}
		t := info.TypeOf(e)
		if t == nil {
			return false
		}
		_, ok := t.Underlying().(*types.Chan)
		return ok
	}
	n := 0
	for _, is := range f.Imports {
		p, _ := strconv.Unquote(is.Path.Value)
		switch p {
		case "sync":
			is.Path.Value = strconv.Quote(HookPath)
			is.Name = ast.NewIdent("sync")
			n++
		case "os/exec":
			is.Path.Value = strconv.Quote(HookPath)
			is.Name = ast.NewIdent("exec")
			n++
		}
	}
	// go statements -> verifhook.Go(func() { call })
	ngo := 0
	astutil.Apply(f, func(c *astutil.Cursor) bool {
		gs, ok := c.Node().(*ast.GoStmt)
		if !ok {
			return true
		}
		var fn ast.Expr
		if lit, isLit := gs.Call.Fun.(*ast.FuncLit); isLit && len(gs.Call.Args) == 0 {
			fn = lit
		} else {
			fn = &ast.FuncLit{Type: &ast.FuncType{Params: &ast.FieldList{}}, Body: &ast.BlockStmt{List: []ast.Stmt{&ast.ExprStmt{X: gs.Call}}}}
		}
		c.Replace(&ast.ExprStmt{X: &ast.CallExpr{Fun: &ast.SelectorExpr{X: ast.NewIdent("verifhookgo"), Sel: ast.NewIdent("Go")}, Args: []ast.Expr{fn}}})
		ngo++
		return true
	}, nil)
	// channel operations -> verifhook.Send / Recv / Recv2 / Close (the stand-ins make a task waiting
	// on a channel visible to the scheduler); select statements and range over channels are refused
	nchan := 0
	hook := func(name string, args ...ast.Expr) *ast.CallExpr {
		nchan++
		return &ast.CallExpr{Fun: &ast.SelectorExpr{X: ast.NewIdent("verifhookgo"), Sel: ast.NewIdent(name)}, Args: args}
	}
	var unsupported string
	astutil.Apply(f, func(c *astutil.Cursor) bool {
		switch n := c.Node().(type) {
		case *ast.SelectStmt:
			for _, cl := range n.Body.List {
				if cc, ok := cl.(*ast.CommClause); ok && cc.Comm != nil {
					unsupported = fmt.Sprintf("%s: select over channels is not supported by the scheduler stand-ins", fset.Position(n.Pos()))
				}
			}
		case *ast.SendStmt:
			c.Replace(&ast.ExprStmt{X: hook("Send", n.Chan, n.Value)})
		case *ast.AssignStmt:
			if len(n.Lhs) == 2 && len(n.Rhs) == 1 {
				if u, ok := n.Rhs[0].(*ast.UnaryExpr); ok && u.Op == token.ARROW {
					n.Rhs[0] = hook("Recv2", u.X)
				}
			}
		case *ast.ValueSpec:
			if len(n.Names) == 2 && len(n.Values) == 1 {
				if u, ok := n.Values[0].(*ast.UnaryExpr); ok && u.Op == token.ARROW {
					n.Values[0] = hook("Recv2", u.X)
				}
			}
		case *ast.UnaryExpr:
			if n.Op == token.ARROW {
				c.Replace(hook("Recv", n.X))
			}
		case *ast.CallExpr:
			if id, ok := n.Fun.(*ast.Ident); ok && len(n.Args) == 1 {
				switch {
				case id.Name == "close":
					c.Replace(hook("Close", n.Args[0]))
				case id.Name == "len" && isChan(n.Args[0]):
					c.Replace(hook("Len", n.Args[0]))
				case id.Name == "cap" && isChan(n.Args[0]):
					c.Replace(hook("Cap", n.Args[0]))
				}
			}
		case *ast.RangeStmt:
			if !isChan(n.X) {
				break
			}
			// for v := range ch { body }  ->  for { v, ok := Recv2(ch); if !ok { break }; body }
			if n.Value != nil || (n.Key != nil && n.Tok != token.DEFINE) {
				unsupported = fmt.Sprintf("%s: this form of range over a channel is not supported by the scheduler stand-ins", fset.Position(n.Pos()))
				break
			}
			key := ast.Expr(ast.NewIdent("_"))
			if n.Key != nil {
				key = n.Key
			}
			okID := ast.NewIdent("verifhookOK")
			recv := &ast.AssignStmt{Lhs: []ast.Expr{key, okID}, Tok: token.DEFINE, Rhs: []ast.Expr{hook("Recv2", n.X)}}
			stop := &ast.IfStmt{Cond: &ast.UnaryExpr{Op: token.NOT, X: okID}, Body: &ast.BlockStmt{List: []ast.Stmt{&ast.BranchStmt{Tok: token.BREAK}}}}
			body := &ast.BlockStmt{List: append([]ast.Stmt{recv, stop}, n.Body.List...)}
			c.Replace(&ast.ForStmt{Body: body})
		}
		return true
	}, nil)
	if unsupported != "" {
		return fmt.Errorf("%s", unsupported)
	}
	ngo += nchan
	if ngo > 0 {
		imp := &ast.ImportSpec{Name: ast.NewIdent("verifhookgo"), Path: &ast.BasicLit{Kind: token.STRING, Value: strconv.Quote(HookPath)}}
		f.Decls = append([]ast.Decl{&ast.GenDecl{Tok: token.IMPORT, Specs: []ast.Spec{imp}}}, f.Decls...)
		n += ngo - nchan
	}
	var buf bytes.Buffer
	if err := format.Node(&buf, fset, f); err != nil {
		return err
	}
	out := filepath.Join(dir, strings.ReplaceAll(strings.TrimPrefix(file, "/"), "/", "_"))
	if err := os.WriteFile(out, buf.Bytes(), 0o644); err != nil {
		return err
	}
	o.Replace[file] = out
	o.Sites = append(o.Sites, fmt.Sprintf("%s: %d sync/exec imports redirected", file, n))
	return nil
}

// Maps rewrites every `for k, v := range m` over a map, in the non-test files of the given
// package patterns of /repo, into a loop over verifhook.Keys(site, m).
func (o *Overlay) Maps(dir string, patterns ...string) error {
	cfg := &packages.Config{Dir: RepoDir, Mode: packages.NeedName | packages.NeedFiles | packages.NeedSyntax | packages.NeedTypes | packages.NeedTypesInfo | packages.NeedImports | packages.NeedDeps,
		Env: append(os.Environ(), "GOFLAGS=-mod=mod", "GOPROXY=off", "GOSUMDB=off", "GOTOOLCHAIN=local")}
	pkgs, err := packages.Load(cfg, patterns...)
	if err != nil {
		return err
	}
	for _, p := range pkgs {
		if len(p.Errors) > 0 {
			// packages that do not type-check (stale generated fixtures) are not part of the tool
			if strings.Contains(p.PkgPath, "/test") {
				continue
			}
			return fmt.Errorf("package %s: %v", p.PkgPath, p.Errors[0])
		}
		if strings.Contains(p.PkgPath, "/test") || strings.HasSuffix(p.PkgPath, "testutils") {
			continue
		}
		for _, f := range p.Syntax {
			file := p.Fset.Position(f.Pos()).Filename
			if strings.HasSuffix(file, "_test.go") {
				continue
			}
			n, err := o.rewriteMapRanges(p, f, file, dir)
			if err != nil {
				return err
			}
			_ = n
		}
	}
	return nil
}

func (o *Overlay) rewriteMapRanges(p *packages.Package, f *ast.File, file, dir string) (int, error) {
	type edit struct {
		rs   *ast.RangeStmt
		site string
	}
	var edits []edit
	ast.Inspect(f, func(n ast.Node) bool {
		rs, ok := n.(*ast.RangeStmt)
		if !ok {
			return true
		}
		t := p.TypesInfo.TypeOf(rs.X)
		if t == nil {
			return true
		}
		if _, isMap := t.Underlying().(*types.Map); !isMap {
			return true
		}
		pos := p.Fset.Position(rs.Pos())
		edits = append(edits, edit{rs, fmt.Sprintf("%s:%d", strings.TrimPrefix(pos.Filename, RepoDir+"/"), pos.Line)})
		return true
	})
	if len(edits) == 0 {
		return 0, nil
	}
	for _, e := range edits {
		rs := e.rs
		if rs.Tok != token.DEFINE && rs.Key != nil {
			return 0, fmt.Errorf("%s: map range with assignment (=) is not rewritable", e.site)
		}
		// for k, v := range m { body }  =>  for _, verifKV := range verifhook.Pairs(site, m) { k := verifKV.K; v := verifKV.V; body }
		// (the ranged expression is evaluated once, as in the original statement)
		keyIdent, _ := rs.Key.(*ast.Ident)
		var valIdent *ast.Ident
		if rs.Value != nil {
			valIdent, _ = rs.Value.(*ast.Ident)
		}
		if (rs.Key != nil && keyIdent == nil) || (rs.Value != nil && valIdent == nil) {
			return 0, fmt.Errorf("%s: map range with non-identifier variables is not rewritable", e.site)
		}
		call := &ast.CallExpr{
			Fun:  &ast.SelectorExpr{X: ast.NewIdent("verifhook"), Sel: ast.NewIdent("Pairs")},
			Args: []ast.Expr{&ast.BasicLit{Kind: token.STRING, Value: strconv.Quote(e.site)}, rs.X},
		}
		var pre []ast.Stmt
		def := func(name, field string) {
			pre = append(pre, &ast.AssignStmt{
				Lhs: []ast.Expr{ast.NewIdent(name)}, Tok: token.DEFINE,
				Rhs: []ast.Expr{&ast.SelectorExpr{X: ast.NewIdent("verifKV"), Sel: ast.NewIdent(field)}},
			})
		}
		if keyIdent != nil && keyIdent.Name != "_" {
			def(keyIdent.Name, "K")
		}
		if valIdent != nil && valIdent.Name != "_" {
			def(valIdent.Name, "V")
		}
		if len(pre) == 0 {
			pre = append(pre, &ast.AssignStmt{Lhs: []ast.Expr{ast.NewIdent("_")}, Tok: token.ASSIGN, Rhs: []ast.Expr{ast.NewIdent("verifKV")}})
		}
		rs.Key = ast.NewIdent("_")
		rs.Value = ast.NewIdent("verifKV")
		rs.Tok = token.DEFINE
		rs.X = call
		rs.Body.List = append(pre, rs.Body.List...)
		o.Sites = append(o.Sites, e.site)
	}
	// add the import
	imp := &ast.ImportSpec{Path: &ast.BasicLit{Kind: token.STRING, Value: strconv.Quote(HookPath)}}
	f.Decls = append([]ast.Decl{&ast.GenDecl{Tok: token.IMPORT, Specs: []ast.Spec{imp}}}, f.Decls...)
	var buf bytes.Buffer
	if err := format.Node(&buf, p.Fset, f); err != nil {
		return 0, err
	}
	out := filepath.Join(dir, strings.ReplaceAll(strings.TrimPrefix(file, "/"), "/", "_"))
	if err := os.WriteFile(out, buf.Bytes(), 0o644); err != nil {
		return 0, err
	}
	o.Replace[file] = out
	return len(edits), nil
}
