// Package tsparse is a strict recursive-descent reader for the TypeScript subset
// emitted by gomacro's generator/typescript (type aliases, interfaces, enum-like
// "as const" objects and their Labels records), plus a closed-world structural
// check that a decoded JSON value inhabits one of the declared types.
//
// Accepted grammar (comments // and /* */ and white space are allowed between tokens):
//
//	file      = { ";" | "export" decl } .
//	decl      = "type" NAME "=" type end
//	          | "interface" NAME object [";"]
//	          | "const" NAME [ ":" type ] "=" "{" [ cprop { "," cprop } [","] ] "}" [ "as" "const" ] end .
//	end       = ";" | line break | end of file .
//	cprop     = ( IDENT | STRING | NUMBER | "[" IDENT { "." IDENT } "]" ) ":" ( ["-"] NUMBER | STRING | "true" | "false" ) .
//	type      = [ "|" ] inter { "|" inter } .
//	inter     = postfix { "&" postfix } .
//	postfix   = primary { "[" "]" } .
//	primary   = "(" "typeof" X ")" "[" "keyof" "typeof" X "]"
//	          | "(" type ")" | "[" [ type { "," type } [","] ] "]" | object
//	          | "Record" "<" type "," type ">"
//	          | STRING | ["-"] NUMBER | "true" | "false"
//	          | "string" | "number" | "boolean" | "unknown" | "null" | "never" | "any" | IDENT .
//	object    = "{" { pname ["?"] ":" type psep } "}" .
//	pname     = IDENT | STRING | NUMBER .
//	psep      = "," | ";" | line break | (nothing before "}") .
//
// Everything else is a *SyntaxError; nothing is skipped silently.
package tsparse

import (
	"fmt"
	"strings"
)

// Env is the result of parsing one generated file.
type Env struct {
	Types      map[string]Type   // type namespace: first declaration of each name
	Consts     map[string]*Const // value namespace: first declaration of each name
	DeclCount  map[string]int    // number of declarations per type name
	ConstCount map[string]int    // number of declarations per const name
	Order      []string          // type names in order of first declaration

	// StrictRecord makes Inhabits additionally require, for Record<K,V> with a
	// finite K (enum / literal union), that every key of K is present, as tsc does.
	// The default (false) only checks that each present key is acceptable.
	StrictRecord bool

	allTypes  []Type   // every declared type, duplicates included (for reference walking)
	allConsts []*Const // same for consts
}

type Const struct {
	Props   []ConstProp
	AsConst bool
	Annot   Type // optional annotation, nil if absent
}

type ConstProp struct {
	Key     string // property name; "" for computed keys
	KeyExpr string // raw text inside [...] for computed keys such as [Color.Red]
	Value   any    // string | float64 | bool
}

type Type interface{ String() string }

type (
	Prim     struct{ Name string } // string number boolean unknown null never any
	Lit      struct{ Value any }   // string | float64 | bool
	Ref      struct{ Name string }
	Array    struct{ Elem Type }
	Tuple    struct{ Elems []Type }
	Union    struct{ Alts []Type }
	Inter    struct{ Parts []Type }
	Object   struct{ Props []Prop }
	Record   struct{ Key, Value Type }
	ValuesOf struct{ Const string } // (typeof X)[keyof typeof X]
	Prop     struct {
		Name     string
		Type     Type
		Optional bool
	}
)

func join(ts []Type, sep string) string {
	s := make([]string, len(ts))
	for i, t := range ts {
		s[i] = t.String()
	}
	return strings.Join(s, sep)
}

func (t Prim) String() string     { return t.Name }
func (t Lit) String() string      { return litString(t.Value) }
func (t Ref) String() string      { return t.Name }
func (t Array) String() string    { return "(" + t.Elem.String() + ")[]" }
func (t Tuple) String() string    { return "[" + join(t.Elems, ", ") + "]" }
func (t Union) String() string    { return "(" + join(t.Alts, " | ") + ")" }
func (t Inter) String() string    { return "(" + join(t.Parts, " & ") + ")" }
func (t Record) String() string   { return "Record<" + t.Key.String() + ", " + t.Value.String() + ">" }
func (t ValuesOf) String() string { return "(typeof " + t.Const + ")[keyof typeof " + t.Const + "]" }
func (t Object) String() string {
	s := make([]string, len(t.Props))
	for i, p := range t.Props {
		opt := ""
		if p.Optional {
			opt = "?"
		}
		s[i] = fmt.Sprintf("%q%s: %s", p.Name, opt, p.Type)
	}
	return "{ " + strings.Join(s, "; ") + " }"
}

var prims = map[string]bool{"string": true, "number": true, "boolean": true, "unknown": true, "null": true, "never": true, "any": true}

// Names that cannot be declared as a type: ECMAScript reserved words (syntax
// error) and predefined type names (TS2457 / TS2427).
var undeclarable = func() map[string]bool {
	m := map[string]bool{}
	for _, w := range strings.Fields(`break case catch class const continue debugger default delete do else enum export
		extends false finally for function if import in instanceof new null return super switch this throw true try
		typeof var void while with any unknown never string number boolean symbol object undefined bigint`) {
		m[w] = true
	}
	return m
}()

type parser struct {
	src       string
	toks      []token
	i         int
	recordUse *token // first use of the builtin generic Record<K,V>
	recordDef *token // first local declaration of a type named Record
}

// Parse reads a whole generated .ts text; the error, if any, is a *SyntaxError.
func Parse(src string) (env *Env, err error) {
	toks, err := lex(src)
	if err != nil {
		return nil, err
	}
	p := &parser{src: src, toks: toks}
	defer func() {
		if r := recover(); r != nil {
			se, ok := r.(*SyntaxError)
			if !ok {
				panic(r)
			}
			env, err = nil, se
		}
	}()
	env = &Env{Types: map[string]Type{}, Consts: map[string]*Const{}, DeclCount: map[string]int{}, ConstCount: map[string]int{}}
	for p.peek().kind != tEOF {
		if !p.acceptP(";") {
			p.decl(env)
		}
	}
	if p.recordDef != nil && p.recordUse != nil {
		p.fail(*p.recordUse, "Record<K,V> is used but a non-generic type named Record is declared at line %d (TS2315)", p.recordDef.line)
	}
	return env, nil
}

func (p *parser) fail(t token, format string, args ...any) {
	panic(syntaxErr(p.src, t.pos, t.line, format, args...))
}
func (p *parser) peek() token { return p.toks[p.i] }
func (p *parser) next() token {
	t := p.toks[p.i]
	if t.kind != tEOF {
		p.i++
	}
	return t
}
func (p *parser) isP(s string) bool  { t := p.peek(); return t.kind == tPunct && t.text == s }
func (p *parser) isId(s string) bool { t := p.peek(); return t.kind == tIdent && t.text == s }
func (p *parser) acceptP(s string) bool {
	if p.isP(s) {
		p.i++
		return true
	}
	return false
}
func (p *parser) acceptId(s string) bool {
	if p.isId(s) {
		p.i++
		return true
	}
	return false
}
func (p *parser) expectP(s string) token {
	if !p.isP(s) {
		p.fail(p.peek(), "expected '%s', found %s", s, p.peek())
	}
	return p.next()
}
func (p *parser) expectId(s string) {
	if !p.acceptId(s) {
		p.fail(p.peek(), "expected '%s', found %s", s, p.peek())
	}
}
func (p *parser) ident(what string) token {
	if p.peek().kind != tIdent {
		p.fail(p.peek(), "expected %s, found %s", what, p.peek())
	}
	return p.next()
}

// end requires a statement terminator: ';', a line break or the end of the file.
func (p *parser) end() {
	if t := p.peek(); !p.acceptP(";") && t.kind != tEOF && !t.nl {
		p.fail(t, "expected ';' or a line break after the declaration, found %s", t)
	}
}

func (p *parser) decl(env *Env) {
	if !p.isId("export") {
		p.fail(p.peek(), "unknown statement: expected 'export', found %s", p.peek())
	}
	p.next()
	kw := p.next()
	if kw.kind != tIdent || kw.text != "type" && kw.text != "interface" && kw.text != "const" {
		p.fail(kw, "unknown statement: expected 'type', 'interface' or 'const' after 'export', found %s", kw)
	}
	name := p.ident("a declaration name")
	if undeclarable[name.text] {
		p.fail(name, "%s is a reserved word or predefined type and cannot be declared", name)
	}
	if kw.text == "const" {
		c := p.constDecl()
		if env.ConstCount[name.text]++; env.ConstCount[name.text] == 1 {
			env.Consts[name.text] = c
		}
		env.allConsts = append(env.allConsts, c)
		return
	}
	var t Type
	if kw.text == "type" {
		p.expectP("=")
		t = p.typ()
		p.end()
	} else {
		t = p.object()
		p.acceptP(";")
	}
	if name.text == "Record" && p.recordDef == nil {
		p.recordDef = &name
	}
	if env.DeclCount[name.text]++; env.DeclCount[name.text] == 1 {
		env.Types[name.text] = t
		env.Order = append(env.Order, name.text)
	}
	env.allTypes = append(env.allTypes, t)
}

// constDecl parses  [: type] = { ... } [as const] end  (after "export const NAME").
func (p *parser) constDecl() *Const {
	c := &Const{}
	if p.acceptP(":") {
		c.Annot = p.typ()
	}
	p.expectP("=")
	p.expectP("{")
	for !p.isP("}") {
		var cp ConstProp
		switch t := p.next(); {
		case t.kind == tIdent || t.kind == tString:
			cp.Key = t.text
		case t.kind == tNumber:
			cp.Key = jsNumString(t.num)
		case t.kind == tPunct && t.text == "[":
			p.ident("an identifier in the computed key")
			for p.acceptP(".") {
				p.ident("a member name in the computed key")
			}
			cp.KeyExpr = strings.TrimSpace(p.src[t.end:p.expectP("]").pos])
		default:
			p.fail(t, "expected a property name, found %s", t)
		}
		p.expectP(":")
		cp.Value = p.literal("a string, number or boolean literal")
		c.Props = append(c.Props, cp)
		if !p.acceptP(",") && !p.isP("}") {
			p.fail(p.peek(), "expected ',' or '}' in the object literal, found %s", p.peek())
		}
	}
	p.expectP("}")
	if p.acceptId("as") {
		p.expectId("const")
		c.AsConst = true
	}
	p.end()
	return c
}

// literal parses a string, (negative) number or boolean literal.
func (p *parser) literal(what string) any {
	t := p.next()
	switch {
	case t.kind == tString:
		return t.text
	case t.kind == tNumber:
		return t.num
	case t.kind == tPunct && t.text == "-" && p.peek().kind == tNumber:
		return -p.next().num
	case t.kind == tIdent && (t.text == "true" || t.text == "false"):
		return t.text == "true"
	}
	p.fail(t, "expected %s, found %s", what, t)
	return nil
}

func (p *parser) typ() Type {
	p.acceptP("|") // optional leading bar
	alts := []Type{p.inter()}
	for p.acceptP("|") {
		alts = append(alts, p.inter())
	}
	if len(alts) == 1 {
		return alts[0]
	}
	return Union{alts}
}

func (p *parser) inter() Type {
	parts := []Type{p.postfix()}
	for p.acceptP("&") {
		parts = append(parts, p.postfix())
	}
	if len(parts) == 1 {
		return parts[0]
	}
	return Inter{parts}
}

func (p *parser) postfix() Type {
	t := p.primary()
	for p.isP("[") && !p.peek().nl {
		p.next()
		p.expectP("]")
		t = Array{t}
	}
	return t
}

func (p *parser) primary() Type {
	t := p.peek()
	switch {
	case t.kind == tPunct && t.text == "(":
		p.next()
		if p.acceptId("typeof") {
			x := p.ident("a const name after 'typeof'")
			p.expectP(")")
			p.expectP("[")
			p.expectId("keyof")
			p.expectId("typeof")
			if y := p.ident("a const name after 'typeof'"); y.text != x.text {
				p.fail(y, "(typeof %s)[keyof typeof %s]: the two names differ", x.text, y.text)
			}
			p.expectP("]")
			return ValuesOf{x.text}
		}
		inner := p.typ()
		p.expectP(")")
		return inner
	case t.kind == tPunct && t.text == "[":
		p.next()
		tu := Tuple{Elems: []Type{}}
		for !p.isP("]") {
			tu.Elems = append(tu.Elems, p.typ())
			if !p.acceptP(",") && !p.isP("]") {
				p.fail(p.peek(), "expected ',' or ']' in the tuple type, found %s", p.peek())
			}
		}
		p.next()
		return tu
	case t.kind == tPunct && t.text == "{":
		return p.object()
	case t.kind == tString, t.kind == tNumber, t.kind == tPunct && t.text == "-",
		t.kind == tIdent && (t.text == "true" || t.text == "false"):
		return Lit{p.literal("a literal type")}
	case t.kind == tIdent && t.text == "Record":
		p.next()
		if p.recordUse == nil {
			p.recordUse = &t
		}
		p.expectP("<")
		k := p.typ()
		p.expectP(",")
		v := p.typ()
		p.expectP(">")
		return Record{k, v}
	case t.kind == tIdent && prims[t.text]:
		p.next()
		return Prim{t.text}
	case t.kind == tIdent && (undeclarable[t.text] || t.text == "keyof"):
		p.fail(t, "expected a type of the accepted subset, found keyword %s", t)
	case t.kind == tIdent:
		p.next()
		if p.isP("<") || p.isP(".") {
			p.fail(p.peek(), "generic or qualified type references are not in the accepted subset")
		}
		return Ref{t.text}
	}
	p.fail(t, "expected a type, found %s", t)
	return nil
}

// object parses an object type literal / interface body.
func (p *parser) object() Type {
	p.expectP("{")
	o := Object{Props: []Prop{}}
	for !p.isP("}") {
		var pr Prop
		switch t := p.next(); t.kind {
		case tIdent, tString:
			pr.Name = t.text
		case tNumber:
			pr.Name = jsNumString(t.num)
		default:
			p.fail(t, "expected a property name, found %s", t)
		}
		pr.Optional = p.acceptP("?")
		p.expectP(":")
		pr.Type = p.typ()
		o.Props = append(o.Props, pr)
		if t := p.peek(); !p.acceptP(",") && !p.acceptP(";") && !p.isP("}") && !t.nl {
			p.fail(t, "expected ',', ';', a line break or '}' after the property, found %s", t)
		}
	}
	p.next()
	return o
}

// SplitAxios splits the text produced by typescript.GenerateAxios into the
// type declarations (header comment and the two import lines removed) and the
// class part, which starts at the "/** AbstractAPI" comment.
func SplitAxios(src string) (typesPart, classPart string, err error) {
	const classMarker = "/** AbstractAPI provides"
	imports := []string{`import type { AxiosResponse } from "axios";`, `import Axios from "axios";`}
	pos := 0
	for _, want := range imports {
		for {
			nl := strings.IndexByte(src[pos:], '\n')
			if nl < 0 {
				return "", "", fmt.Errorf("SplitAxios: import line %q not found", want)
			}
			line := strings.TrimSpace(src[pos : pos+nl])
			pos += nl + 1
			if line == want {
				break
			}
			if line != "" && !strings.HasPrefix(line, "//") {
				return "", "", fmt.Errorf("SplitAxios: unexpected text %q before %q", line, want)
			}
		}
	}
	// The marker must start a line, so that it cannot be found inside a (single-line) string literal.
	for from := pos; ; {
		idx := strings.Index(src[from:], classMarker)
		if idx < 0 {
			return "", "", fmt.Errorf("SplitAxios: class marker %q not found", classMarker)
		}
		idx += from
		if bol := strings.LastIndexByte(src[:idx], '\n') + 1; strings.TrimSpace(src[bol:idx]) == "" {
			return src[pos:idx], src[idx:], nil
		}
		from = idx + 1
	}
}
