package tsparse

import (
	"encoding/json"
	"errors"
	"fmt"
	"maps"
	"regexp"
	"slices"
	"strconv"
	"strings"
)

// ---------------------------------------------------------------------------
// Name resolution
// ---------------------------------------------------------------------------

// walk calls f on t and all the types nested in t.
func walk(t Type, f func(Type)) {
	f(t)
	switch t := t.(type) {
	case Array:
		walk(t.Elem, f)
	case Tuple:
		for _, e := range t.Elems {
			walk(e, f)
		}
	case Union:
		for _, e := range t.Alts {
			walk(e, f)
		}
	case Inter:
		for _, e := range t.Parts {
			walk(e, f)
		}
	case Object:
		for _, p := range t.Props {
			walk(p.Type, f)
		}
	case Record:
		walk(t.Key, f)
		walk(t.Value, f)
	}
}

func sortedKeys[V any](m map[string]V) []string { return slices.Sorted(maps.Keys(m)) }

// Undeclared returns, sorted, every referenced name that has no declaration:
// "X" for a missing type, "typeof X" for a missing const (referenced by
// (typeof X)[keyof typeof X] or by a computed key [X.M]), and "X.M" when const X
// exists but has no member M.
func (e *Env) Undeclared() []string {
	missing := map[string]bool{}
	visit := func(t Type) {
		switch t := t.(type) {
		case Ref:
			if e.DeclCount[t.Name] == 0 {
				missing[t.Name] = true
			}
		case ValuesOf:
			if e.ConstCount[t.Const] == 0 {
				missing["typeof "+t.Const] = true
			}
		}
	}
	for _, t := range e.allTypes {
		walk(t, visit)
	}
	for _, c := range e.allConsts {
		if c.Annot != nil {
			walk(c.Annot, visit)
		}
		for _, p := range c.Props {
			if p.KeyExpr == "" {
				continue
			}
			parts := strings.Split(p.KeyExpr, ".")
			for i := range parts {
				parts[i] = strings.TrimSpace(parts[i])
			}
			target := e.Consts[parts[0]]
			if target == nil {
				missing["typeof "+parts[0]] = true
			} else if len(parts) != 2 || !hasKey(target, parts[1]) {
				missing[strings.Join(parts, ".")] = true
			}
		}
	}
	return sortedKeys(missing)
}

func hasKey(c *Const, key string) bool {
	for _, p := range c.Props {
		if p.KeyExpr == "" && p.Key == key {
			return true
		}
	}
	return false
}

// Duplicates returns, sorted, the names declared more than once: "X" in the
// type namespace, "const X" in the value namespace.
func (e *Env) Duplicates() []string {
	dup := map[string]bool{}
	for n, c := range e.DeclCount {
		if c > 1 {
			dup[n] = true
		}
	}
	for n, c := range e.ConstCount {
		if c > 1 {
			dup["const "+n] = true
		}
	}
	return sortedKeys(dup)
}

// DuplicateProps returns "Owner.prop" for every property name occurring twice
// in one object type / interface (TS2300) or const object literal (TS1117).
// Owner is the declared name (first declaration only), nested object types
// are reported under the same owner.
func (e *Env) DuplicateProps() []string {
	dup := map[string]bool{}
	for name, t := range e.Types {
		walk(t, func(t Type) {
			if o, ok := t.(Object); ok {
				seen := map[string]bool{}
				for _, p := range o.Props {
					if seen[p.Name] {
						dup[name+"."+p.Name] = true
					}
					seen[p.Name] = true
				}
			}
		})
	}
	for name, c := range e.Consts {
		seen := map[string]bool{}
		for _, p := range c.Props {
			k := p.Key + "\x00" + p.KeyExpr
			if seen[k] {
				dup["const "+name+"."+p.Key+p.KeyExpr] = true
			}
			seen[k] = true
		}
	}
	return sortedKeys(dup)
}

// ---------------------------------------------------------------------------
// Inhabitation
// ---------------------------------------------------------------------------

// Mismatch is the error returned by Inhabits and InhabitsType.
type Mismatch struct {
	Path  string    // JSON path of the offending value, e.g. $.L[2].Data.V
	Want  string    // what the type requires there
	Got   string    // what the document has there
	Cause *Mismatch // for unions: the failure of the closest alternative

	score int // how far the check went before failing; ranks union alternatives
}

func (m *Mismatch) Error() string {
	s := fmt.Sprintf("%s: expected %s, found %s", m.Path, m.Want, m.Got)
	if m.Cause != nil {
		s += "; closest alternative: " + m.Cause.Error()
	}
	return s
}

// Inhabits reports whether doc (decoded by encoding/json, preferably with
// UseNumber) is a structural inhabitant of the declared type name.
func (e *Env) Inhabits(name string, doc any) error {
	if _, ok := e.Types[name]; !ok {
		return &Mismatch{Path: "$", Want: "declared type " + name, Got: "no such declaration"}
	}
	return e.InhabitsType(Ref{name}, doc)
}

func (e *Env) InhabitsType(t Type, doc any) error {
	if m := e.check(t, doc, "$", false, nil); m != nil {
		return m
	}
	return nil
}

func kindOf(doc any) string {
	switch doc.(type) {
	case nil:
		return "null"
	case bool:
		return "boolean"
	case string:
		return "string"
	case json.Number, float64, int, int64:
		return "number"
	case []any:
		return "array"
	case map[string]any:
		return "object"
	}
	return fmt.Sprintf("non-JSON Go value %T", doc)
}

func describe(doc any) string {
	b, err := json.Marshal(doc)
	if err != nil {
		return kindOf(doc)
	}
	s := string(b)
	if len(s) > 60 {
		s = s[:60] + "..."
	}
	if k := kindOf(doc); k == "object" || k == "array" {
		return k + " " + s
	}
	return s
}

func toFloat(doc any) (float64, bool) {
	switch v := doc.(type) {
	case json.Number:
		f, err := v.Float64()
		return f, err == nil || errors.Is(err, strconv.ErrRange) // out of range: ±Inf, as in JS
	case float64:
		return v, true
	case int:
		return float64(v), true
	case int64:
		return float64(v), true
	}
	return 0, false
}

// litEqual compares a JSON value with a literal (string | float64 | bool), typed.
func litEqual(lit, doc any) bool {
	switch l := lit.(type) {
	case string:
		s, ok := doc.(string)
		return ok && s == l
	case bool:
		b, ok := doc.(bool)
		return ok && b == l
	case float64:
		f, ok := toFloat(doc)
		return ok && f == l
	}
	return false
}

// jsNumString mimics JavaScript's Number.prototype.toString for the common cases.
func jsNumString(f float64) string {
	if f > -1e21 && f < 1e21 && (f == 0 || f >= 1e-6 || f <= -1e-6) {
		return strconv.FormatFloat(f, 'f', -1, 64)
	}
	return strconv.FormatFloat(f, 'g', -1, 64)
}

func litString(v any) string {
	switch v := v.(type) {
	case string:
		return strconv.Quote(v)
	case float64:
		return jsNumString(v)
	}
	return fmt.Sprint(v)
}

// keyString is the property key JavaScript derives from a literal value.
func keyString(v any) string {
	if s, ok := v.(string); ok {
		return s
	}
	return litString(v)
}

func pathKey(path, key string) string {
	if simpleKey.MatchString(key) {
		return path + "." + key
	}
	return path + "[" + strconv.Quote(key) + "]"
}

var (
	simpleKey  = regexp.MustCompile(`^[A-Za-z_$][A-Za-z0-9_$]*$`)
	numericKey = regexp.MustCompile(`^-?(\d+\.?\d*|\.\d+)([eE][+-]?\d+)?$`)
)

// isBrand reports whether t is an object type of the form { __opaque__: ... }.
func isBrand(t Type) bool {
	o, ok := t.(Object)
	return ok && len(o.Props) == 1 && o.Props[0].Name == "__opaque__"
}

// unbrand removes the brand parts of an intersection (unless all parts are brands).
func unbrand(t Inter) []Type {
	var rest []Type
	for _, p := range t.Parts {
		if !isBrand(p) {
			rest = append(rest, p)
		}
	}
	if len(rest) == 0 {
		return t.Parts
	}
	return rest
}

// check is the inhabitation judgement. open allows extra keys in Object types
// (set below a non-brand intersection); via lists the aliases already expanded
// at this very document node, to stop on cyclic aliases such as type A = A | null.
func (e *Env) check(t Type, doc any, path string, open bool, via []string) *Mismatch {
	bad := func(want string) *Mismatch { return &Mismatch{Path: path, Want: want, Got: describe(doc)} }
	within := func(m *Mismatch, passed int) *Mismatch { m.score += 1 + passed; return m }
	switch t := t.(type) {
	case Prim:
		if k := kindOf(doc); t.Name == "unknown" || t.Name == "any" || (t.Name != "never" && k == t.Name) {
			return nil
		}
		return bad(t.Name)
	case Lit:
		if !litEqual(t.Value, doc) {
			return bad("literal " + t.String())
		}
	case ValuesOf:
		c := e.Consts[t.Const]
		if c == nil {
			return bad("a value of undeclared const " + t.Const)
		}
		vals := make([]string, len(c.Props))
		for i, p := range c.Props {
			if litEqual(p.Value, doc) {
				return nil
			}
			vals[i] = litString(p.Value)
		}
		return bad("one of the values of " + t.Const + " {" + strings.Join(vals, ", ") + "}")
	case Ref:
		target, ok := e.Types[t.Name]
		if !ok {
			return bad("undeclared type " + t.Name)
		}
		if slices.Contains(via, t.Name) {
			return bad("a non-circular alias (" + strings.Join(via, " -> ") + " -> " + t.Name + ")")
		}
		return e.check(target, doc, path, open, append(via[:len(via):len(via)], t.Name))
	case Inter:
		parts := unbrand(t)
		if len(parts) == 1 {
			return e.check(parts[0], doc, path, open, via)
		}
		for _, p := range parts {
			if m := e.check(p, doc, path, true, via); m != nil {
				return m
			}
		}
	case Union:
		var best *Mismatch
		for _, a := range t.Alts {
			m := e.check(a, doc, path, open, via)
			if m == nil {
				return nil
			}
			if best == nil || m.score > best.score { // ties: the first alternative
				best = m
			}
		}
		if best == nil {
			return bad("never (empty union)")
		}
		return &Mismatch{Path: path, Want: t.String(), Got: describe(doc), Cause: best, score: best.score}
	case Array:
		arr, ok := doc.([]any)
		if !ok {
			return bad("array " + t.String())
		}
		for i, el := range arr {
			if m := e.check(t.Elem, el, fmt.Sprintf("%s[%d]", path, i), false, nil); m != nil {
				return within(m, i)
			}
		}
	case Tuple:
		arr, ok := doc.([]any)
		if !ok || len(arr) != len(t.Elems) {
			return bad(fmt.Sprintf("tuple of length %d", len(t.Elems)))
		}
		for i, el := range arr {
			if m := e.check(t.Elems[i], el, fmt.Sprintf("%s[%d]", path, i), false, nil); m != nil {
				return within(m, i)
			}
		}
	case Object:
		obj, ok := doc.(map[string]any)
		if !ok {
			return bad("object " + t.String())
		}
		names := map[string]bool{}
		for i, p := range t.Props {
			names[p.Name] = true
			v, present := obj[p.Name]
			if !present && !p.Optional {
				return within(&Mismatch{Path: pathKey(path, p.Name), Want: "required property of type " + p.Type.String(), Got: "missing key"}, i)
			}
			if present {
				if m := e.check(p.Type, v, pathKey(path, p.Name), false, nil); m != nil {
					return within(m, i)
				}
			}
		}
		for _, k := range sortedKeys(obj) {
			if !names[k] && !open {
				return within(&Mismatch{Path: pathKey(path, k), Want: "no such property in " + t.String(), Got: "extra key"}, len(t.Props))
			}
		}
	case Record:
		obj, ok := doc.(map[string]any)
		if !ok {
			return bad("object " + t.String())
		}
		keys := sortedKeys(obj)
		for i, k := range keys {
			if why := e.keyOK(t.Key, k, nil); why != "" {
				return within(&Mismatch{Path: pathKey(path, k), Want: "a key of type " + t.Key.String() + " (" + why + ")", Got: "key " + strconv.Quote(k)}, i)
			}
			if m := e.check(t.Value, obj[k], pathKey(path, k), false, nil); m != nil {
				return within(m, i)
			}
		}
		if all, finite := e.finiteKeys(t.Key, nil); e.StrictRecord && finite {
			for _, k := range all {
				if _, present := obj[k]; !present {
					return within(&Mismatch{Path: pathKey(path, k), Want: "required key of " + t.String(), Got: "missing key"}, len(keys))
				}
			}
		}
	default:
		return bad(fmt.Sprintf("a supported type (got %T)", t))
	}
	return nil
}

// keyOK returns "" if the JSON object key is acceptable for the Record key
// type k, or else a short reason.
func (e *Env) keyOK(k Type, key string, via []string) string {
	switch k := k.(type) {
	case Prim:
		switch {
		case k.Name == "string" || k.Name == "any":
			return ""
		case k.Name == "number" && numericKey.MatchString(key):
			return ""
		case k.Name == "number":
			return "not a numeric key"
		case k.Name == "never":
			return "no key is allowed"
		}
		return k.Name + " cannot be a Record key type"
	case Ref:
		target, ok := e.Types[k.Name]
		if !ok || slices.Contains(via, k.Name) {
			return "key type " + k.Name + " is undeclared or circular"
		}
		return e.keyOK(target, key, append(via[:len(via):len(via)], k.Name))
	case Inter:
		for _, p := range unbrand(k) {
			if why := e.keyOK(p, key, via); why != "" {
				return why
			}
		}
		return ""
	case Union:
		for _, a := range k.Alts {
			if e.keyOK(a, key, via) == "" {
				return ""
			}
		}
		return "no alternative accepts the key"
	case Lit, ValuesOf:
		all, _ := e.finiteKeys(k, nil)
		if slices.Contains(all, key) {
			return ""
		}
		return "allowed keys are " + strings.Join(all, ", ")
	}
	return k.String() + " cannot be a Record key type"
}

// finiteKeys enumerates the keys of a key type built from literals, enum
// value sets and unions of those; finite is false for string, number, etc.
func (e *Env) finiteKeys(k Type, via []string) (keys []string, finite bool) {
	switch k := k.(type) {
	case Lit:
		return []string{keyString(k.Value)}, true
	case ValuesOf:
		c := e.Consts[k.Const]
		if c == nil {
			return nil, true
		}
		for _, p := range c.Props {
			keys = append(keys, keyString(p.Value))
		}
		return keys, true
	case Ref:
		if target, ok := e.Types[k.Name]; ok && !slices.Contains(via, k.Name) {
			return e.finiteKeys(target, append(via[:len(via):len(via)], k.Name))
		}
	case Union:
		for _, a := range k.Alts {
			sub, ok := e.finiteKeys(a, via)
			if !ok {
				return nil, false
			}
			keys = append(keys, sub...)
		}
		return keys, true
	case Prim:
		return nil, k.Name == "never"
	}
	return nil, false
}
