package tsparse

import (
	"encoding/json"
	"os"
	"reflect"
	"strings"
	"sync"
	"testing"

	"github.com/benoitkugler/gomacro/analysis"
	"github.com/benoitkugler/gomacro/generator"
	"github.com/benoitkugler/gomacro/generator/typescript"
)

const defsFile = "/repo/testutils/testsource/defs.go"

var rawOnce struct {
	sync.Once
	src string
	err error
}

// rawGenerated runs the real generator on the repo test source: raw template text, no prettier.
func rawGenerated(t *testing.T) string {
	t.Helper()
	rawOnce.Do(func() {
		pkg, err := analysis.LoadSource(defsFile)
		if err != nil {
			rawOnce.err = err
			return
		}
		rawOnce.src = generator.WriteDeclarations(typescript.Generate(analysis.NewAnalysisFromFile(pkg, defsFile)))
	})
	if rawOnce.err != nil {
		t.Skipf("cannot load %s: %v", defsFile, rawOnce.err)
	}
	return rawOnce.src
}

func mustParse(t *testing.T, src string) *Env {
	t.Helper()
	env, err := Parse(src)
	if err != nil {
		t.Fatalf("Parse: %v", err)
	}
	return env
}

func decode(t *testing.T, s string) any {
	t.Helper()
	dec := json.NewDecoder(strings.NewReader(s))
	dec.UseNumber()
	var v any
	if err := dec.Decode(&v); err != nil {
		t.Fatalf("bad test JSON %s: %v", s, err)
	}
	return v
}

// envs returns the prettier-formatted fixture and the raw generator output.
func envs(t *testing.T) map[string]*Env {
	fixture, err := os.ReadFile("testdata/gen.ts")
	if err != nil {
		t.Fatal(err)
	}
	return map[string]*Env{"prettier": mustParse(t, string(fixture)), "raw": mustParse(t, rawGenerated(t))}
}

func TestParseGenerated(t *testing.T) {
	for label, env := range envs(t) {
		if u := env.Undeclared(); len(u) != 0 {
			t.Errorf("%s: undeclared %v", label, u)
		}
		if d := env.Duplicates(); len(d) != 0 {
			t.Errorf("%s: duplicates %v", label, d)
		}
		if d := env.DuplicateProps(); len(d) != 0 {
			t.Errorf("%s: duplicate props %v", label, d)
		}
		for _, name := range []string{"Int", "Time", "Date_", "Ar5_Ar5_boolean", "ComplexStruct", "ItfType", "ItfType2", "EnumInt", "ItfTypeKind", "RecursiveType", "NamedSlice", "Basic1", "MyDate"} {
			if env.DeclCount[name] != 1 || env.Types[name] == nil {
				t.Errorf("%s: type %s declared %d times", label, name, env.DeclCount[name])
			}
		}
		for _, name := range []string{"EnumInt", "EnumIntLabels", "EnumUInt", "Enum", "EnumLabels", "ItfTypeKind", "ItfType2Kind"} {
			if env.ConstCount[name] != 1 || env.Consts[name] == nil {
				t.Errorf("%s: const %s declared %d times", label, name, env.ConstCount[name])
			}
		}
		if len(env.Order) != len(env.Types) {
			t.Errorf("%s: Order has %d names for %d types", label, len(env.Order), len(env.Types))
		}
		// shapes
		want := Inter{[]Type{Prim{"number"}, Object{[]Prop{{Name: "__opaque__", Type: Lit{"Int"}}}}}}
		if got := env.Types["Int"]; !reflect.DeepEqual(got, want) {
			t.Errorf("%s: Int = %v", label, got)
		}
		if got := env.Types["EnumInt"]; got != (ValuesOf{"EnumInt"}) {
			t.Errorf("%s: EnumInt = %v", label, got)
		}
		c := env.Consts["EnumInt"]
		if !c.AsConst || c.Annot != nil || !reflect.DeepEqual(c.Props, []ConstProp{{Key: "Ai", Value: 0.0}, {Key: "Bi", Value: 1.0}, {Key: "Ci", Value: 2.0}, {Key: "Di", Value: 4.0}}) {
			t.Errorf("%s: const EnumInt = %+v", label, c)
		}
		l := env.Consts["EnumIntLabels"]
		if l.AsConst || !reflect.DeepEqual(l.Annot, Record{Ref{"EnumInt"}, Prim{"string"}}) || len(l.Props) != 4 ||
			l.Props[1] != (ConstProp{KeyExpr: "EnumInt.Bi", Value: "sdsdB"}) {
			t.Errorf("%s: const EnumIntLabels = %+v", label, l)
		}
		cs := env.Types["ComplexStruct"].(Object)
		if len(cs.Props) != 14 || cs.Props[0].Name != "with_tag" ||
			!reflect.DeepEqual(cs.Props[0].Type, Union{[]Type{Record{Ref{"Int"}, Ref{"Int"}}, Prim{"null"}}}) {
			t.Errorf("%s: ComplexStruct = %v", label, cs)
		}
		if got, want := env.Types["ConcretType1"].(Object).Props[0].Type, (Union{[]Type{Array{Ref{"Int"}}, Prim{"null"}}}); !reflect.DeepEqual(got, want) {
			t.Errorf("%s: List2 = %v", label, got)
		}
		if it := env.Types["ItfType"].(Union); len(it.Alts) != 2 ||
			!reflect.DeepEqual(it.Alts[1], Object{[]Prop{{Name: "Kind", Type: Lit{"ConcretType2"}}, {Name: "Data", Type: Ref{"ConcretType2"}}}}) {
			t.Errorf("%s: ItfType = %v", label, it)
		}
		if tu := env.Types["Ar5_boolean"].(Tuple); len(tu.Elems) != 5 || tu.Elems[4] != (Prim{"boolean"}) {
			t.Errorf("%s: Ar5_boolean = %v", label, tu)
		}
	}
}

const five = `[true,false,true,false,true]`
const fiveByFive = `[` + five + `,` + five + `,` + five + `,` + five + `,` + five + `]`

// complexDoc builds a ComplexStruct document, with overrides of / additions to the valid base.
func complexDoc(t *testing.T, override map[string]string, drop ...string) any {
	base := map[string]string{
		"with_tag": `{"1":2,"-3":4}`, "Time": `"2024-01-02T03:04:05Z"`, "B": `"b"`,
		"Value": `{"Kind":"ConcretType1","Data":{"List2":[1,2],"V":3}}`,
		"L":     `[{"Kind":"ConcretType2","Data":{"D":1.5}},{"Kind":"ConcretType1","Data":{"List2":null,"V":0}}]`,
		"A":     `7`, "E": `4`, "E2": `0`, "Date": `"2024-01-02"`, "F": fiveByFive,
		"Imported": `{"A":1}`, "EnumMap": `{"0":true,"4":false}`, "OptID1": `{"Id":1}`, "OptID2": `{"Id":2}`,
	}
	for k, v := range override {
		base[k] = v
	}
	for _, k := range drop {
		delete(base, k)
	}
	var parts []string
	for k, v := range base {
		parts = append(parts, `"`+k+`":`+v)
	}
	return decode(t, "{"+strings.Join(parts, ",")+"}")
}

func TestInhabitsGenerated(t *testing.T) {
	type tc struct {
		typ, doc string
		wantErr  string // "" = inhabits; otherwise a substring of the error
	}
	cases := []tc{
		// brands
		{"Int", `3`, ""}, {"Int", `-3.5`, ""}, {"Int", `"3"`, "$: expected number"}, {"Int", `null`, "expected number"},
		{"Time", `"x"`, ""}, {"Time", `1`, "expected string"}, {"MyDate", `"2020-01-01"`, ""}, {"MyDate", `{}`, "expected string"},
		{"IdCamp", `12`, ""}, {"Basic1", `true`, "expected number"}, {"Basic2", `true`, ""}, {"Basic2", `0`, "expected boolean"},
		{"Basic3", `1e3`, ""}, {"Basic4", `""`, ""}, {"Basic4", `null`, "expected string"},
		// enums
		{"EnumInt", `0`, ""}, {"EnumInt", `4`, ""}, {"EnumInt", `4.0`, ""}, {"EnumInt", `3`, "one of the values of EnumInt {0, 1, 2, 4}"},
		{"EnumInt", `"0"`, "one of the values"}, {"EnumInt", `null`, "one of the values"},
		{"ItfTypeKind", `"ConcretType2"`, ""}, {"ItfTypeKind", `"ConcretType3"`, "one of the values"}, {"ItfTypeKind", `0`, "one of the values"},
		// structs
		{"ConcretType2", `{"D":1.5}`, ""},
		{"ConcretType2", `{}`, "$.D: expected required property"},
		{"ConcretType2", `{"D":1,"E":2}`, "$.E: expected no such property"},
		{"ConcretType2", `{"d":1}`, "$.D"},
		{"ConcretType2", `{"D":"1"}`, "$.D: expected number, found \"1\""},
		{"ConcretType2", `[1]`, "$: expected object"},
		{"ConcretType2", `null`, "$: expected object"},
		// nullable slices
		{"ConcretType1", `{"List2":null,"V":1}`, ""}, {"ConcretType1", `{"List2":[],"V":1}`, ""}, {"ConcretType1", `{"List2":[1,2,3],"V":1}`, ""},
		{"ConcretType1", `{"List2":[1,"2",3],"V":1}`, "$.List2[1]: expected number"},
		{"ConcretType1", `{"List2":{},"V":1}`, "$.List2"},
		{"ConcretType1", `{"V":1}`, "$.List2: expected required property"},
		{"NamedSlice", `[0,1,2]`, ""}, {"NamedSlice", `null`, ""}, {"NamedSlice", `[0,3]`, "$[1]: expected one of the values of Enum"},
		// unions
		{"ItfType", `{"Kind":"ConcretType1","Data":{"List2":null,"V":1}}`, ""},
		{"ItfType", `{"Kind":"ConcretType2","Data":{"D":0}}`, ""},
		{"ItfType", `{"Kind":"ConcretType2","Data":{"List2":null,"V":1}}`, "closest alternative: $.Data.D"},
		{"ItfType", `{"Kind":"ConcretType1","Data":{"D":0}}`, "closest alternative: $.Data.List2"},
		{"ItfType", `{"Kind":"ConcretType1","Data":null}`, "closest alternative: $.Data: expected object"},
		{"ItfType", `{"Kind":"Other","Data":{"D":0}}`, "$.Kind: expected literal"},
		{"ItfType", `{"Kind":"ConcretType2"}`, "$.Data: expected required property"},
		{"ItfType", `{"Kind":"ConcretType2","Data":{"D":0},"X":1}`, "$.X"},
		{"ItfType", `{"Data":{"D":0}}`, "$.Kind"},
		{"ItfType", `null`, "$: expected"},
		{"ItfType2", `{"Kind":"ConcretType1","Data":{"List2":null,"V":1}}`, ""},
		{"ItfType2", `{"Kind":"ConcretType2","Data":{"D":0}}`, "$.Kind: expected literal \"ConcretType1\""},
		{"ItfList", `null`, ""}, {"ItfList", `[{"Kind":"ConcretType2","Data":{"D":0}}]`, ""},
		{"ItfList", `[{"Kind":"ConcretType2","Data":{"D":0}},{"Kind":"ConcretType2","Data":{"D":false}}]`, "$[1].Data.D: expected number, found false"},
		// tuples
		{"Ar5_boolean", five, ""}, {"Ar5_boolean", `[true,false,true,false]`, "tuple of length 5"},
		{"Ar5_boolean", `[true,false,true,false,true,true]`, "tuple of length 5"}, {"Ar5_boolean", `[true,false,true,false,1]`, "$[4]: expected boolean"},
		{"Ar5_boolean", `null`, "tuple of length 5"},
		{"Ar5_Ar5_boolean", fiveByFive, ""}, {"Ar5_Ar5_boolean", `[` + five + `]`, "$: expected tuple of length 5"},
		// recursion
		{"RecursiveType", `{"Children":null}`, ""},
		{"RecursiveType", `{"Children":[{"Children":[]},{"Children":[{"Children":null}]}]}`, ""},
		{"RecursiveType", `{"Children":[{"Children":[]},{"Children":[{"Children":0}]}]}`, "$.Children[1].Children[0].Children"},
		{"RecursiveType", `{"Children":[{}]}`, "$.Children[0].Children: expected required property"},
		// opaque fields and nested refs
		{"WithOpaque", `{"F1":{"Field1":null,"Field2":[1],"Field3":0},"F2":{"anything":[1,null]},"F3":null}`, ""},
		{"WithOpaque", `{"F1":{"Field1":null,"Field2":[9],"Field3":0},"F2":1,"F3":null}`, "$.F1.Field2[0]"},
		{"WithOpaque", `{"F1":{"Field1":null,"Field2":[1],"Field3":0},"F2":1}`, "$.F3"},
		{"Generic_IdCamp", `{"Id":5}`, ""}, {"Generic_IdCamp", `{"Id":"5"}`, "$.Id: expected number"},
		{"NoSuchType", `1`, "no such declaration"},
	}
	for label, env := range envs(t) {
		for _, c := range cases {
			err := env.Inhabits(c.typ, decode(t, c.doc))
			switch {
			case c.wantErr == "" && err != nil:
				t.Errorf("%s: %s should accept %s: %v", label, c.typ, c.doc, err)
			case c.wantErr != "" && err == nil:
				t.Errorf("%s: %s should reject %s", label, c.typ, c.doc)
			case c.wantErr != "" && !strings.Contains(err.Error(), c.wantErr):
				t.Errorf("%s: %s on %s: error %q does not contain %q", label, c.typ, c.doc, err, c.wantErr)
			}
		}
		// the big struct: maps with branded-number and enum keys
		type cc struct {
			override map[string]string
			drop     []string
			wantErr  string
		}
		for _, c := range []cc{
			{nil, nil, ""},
			{map[string]string{"with_tag": `null`, "EnumMap": `null`, "L": `null`}, nil, ""},
			{map[string]string{"with_tag": `{}`, "EnumMap": `{}`}, nil, ""},
			{map[string]string{"with_tag": `{"a":1}`}, nil, `$.with_tag.a: expected a key of type Int (not a numeric key), found key "a"`},
			{map[string]string{"with_tag": `{"1":"x"}`}, nil, `$.with_tag["1"]: expected number`},
			{map[string]string{"with_tag": `[]`}, nil, `$.with_tag`},
			{map[string]string{"EnumMap": `{"3":true}`}, nil, `$.EnumMap["3"]: expected a key of type EnumInt (allowed keys are 0, 1, 2, 4)`},
			{map[string]string{"EnumMap": `{"Ai":true}`}, nil, `$.EnumMap.Ai: expected a key of type EnumInt`},
			{map[string]string{"EnumMap": `{"1":1}`}, nil, `$.EnumMap["1"]: expected boolean`},
			{map[string]string{"E": `3`}, nil, `$.E: expected one of the values of EnumInt`},
			{map[string]string{"E2": `5`}, nil, `$.E2`},
			{map[string]string{"Time": `null`}, nil, `$.Time: expected string`},
			{map[string]string{"F": `[]`}, nil, `$.F: expected tuple of length 5`},
			{map[string]string{"Imported": `{"A":1,"B":2}`}, nil, `$.Imported.B`},
			{map[string]string{"NoJSON": `0`}, nil, `$.NoJSON: expected no such property`},
			{map[string]string{"OptID1": `{"Id":null}`}, nil, `$.OptID1.Id`},
			{nil, []string{"Date"}, `$.Date: expected required property`},
			{map[string]string{"L": `[{"Kind":"ConcretType2","Data":{"D":null}}]`}, nil, `$.L[0].Data.D: expected number, found null`},
		} {
			err := env.Inhabits("ComplexStruct", complexDoc(t, c.override, c.drop...))
			switch {
			case c.wantErr == "" && err != nil:
				t.Errorf("%s: ComplexStruct %v should be accepted: %v", label, c.override, err)
			case c.wantErr != "" && err == nil:
				t.Errorf("%s: ComplexStruct %v -%v should be rejected", label, c.override, c.drop)
			case c.wantErr != "" && !strings.Contains(err.Error(), c.wantErr):
				t.Errorf("%s: ComplexStruct %v: error %q does not contain %q", label, c.override, err, c.wantErr)
			}
		}
		// StrictRecord: tsc requires every enum key of Record<EnumInt, boolean>.
		env.StrictRecord = true
		if err := env.Inhabits("ComplexStruct", complexDoc(t, nil)); err == nil || !strings.Contains(err.Error(), `$.EnumMap["1"]: expected required key`) {
			t.Errorf("%s: StrictRecord: %v", label, err)
		}
		if err := env.Inhabits("ComplexStruct", complexDoc(t, map[string]string{"EnumMap": `{"0":true,"1":true,"2":true,"4":true}`})); err != nil {
			t.Errorf("%s: StrictRecord: %v", label, err)
		}
		env.StrictRecord = false
	}
}

// Hand-written declarations exercising the corners of the grammar.
const handWritten = `
// Code generated by gomacro/generator/typescript. DO NOT EDIT.
/** block
    comment */
export type Empty = Record<string, never>
export type Ar0_Int = []
export type Ar2_string = [string,string,];;
export type Int = number & { __opaque__: 'Int' };
export type Name = string & { __opaque__: "Name" }
export type Dict = (Record<Name,( Int[] | null)> | null)
export type ByColor = Record<Color, string>; export type ByFlag = Record<"a" | 'b' | 1, boolean>
export const Color = {
	Red : "r", // trailing comment
	Green : 'g',
	"quoted key" : "q",
} as const
export type Color = (typeof Color)[keyof typeof Color];
export const ColorLabels: Record<Color, string> = {
	[Color.Red]: "it's \"red\"\té\x41\a",
	[ Color.Green ]: "",
};
export const Mixed = {
	Neg : -1,
	Frac : 2.5,
	Exp : 1e+06,
	Yes : true,
	No : false,
	7 : "seven"
} as const;
export type Mixed = (typeof Mixed)[keyof typeof Mixed]
export const Nothing = {
} as const;
export type Nothing = (typeof Nothing)[keyof typeof Nothing];
export interface Tree {
	Kids: ( Tree[] | null),
	"my-key"?: -1 | 2.5 | true
	Opt?: string; Last: null
}
export interface Sep { A: string
	B: number }
export type Loop = Loop | null
export type Both = { a: string } & { b: number }
export type Node =
	| { Kind : "Leaf", Data: Int}
	| { Kind : "Pair", Data: Ar2_Node}
export type Ar2_Node = [Node,Node,]
export type Anything = any | unknown
export interface Record2 { R: Record<string,Record<Int,Tree[][]>> }
`

func TestHandWritten(t *testing.T) {
	env := mustParse(t, handWritten)
	if u, d, dp := env.Undeclared(), env.Duplicates(), env.DuplicateProps(); len(u)+len(d)+len(dp) != 0 {
		t.Fatalf("undeclared %v, duplicates %v, duplicate props %v", u, d, dp)
	}
	wantOrder := "Empty Ar0_Int Ar2_string Int Name Dict ByColor ByFlag Color Mixed Nothing Tree Sep Loop Both Node Ar2_Node Anything Record2"
	if got := strings.Join(env.Order, " "); got != wantOrder {
		t.Errorf("Order = %s", got)
	}
	if got := env.Consts["ColorLabels"].Props; !reflect.DeepEqual(got, []ConstProp{{KeyExpr: "Color.Red", Value: "it's \"red\"\té" + "Aa"}, {KeyExpr: "Color.Green", Value: ""}}) {
		t.Errorf("ColorLabels = %#v", got)
	}
	if got := env.Consts["Mixed"].Props; !reflect.DeepEqual(got, []ConstProp{{Key: "Neg", Value: -1.0}, {Key: "Frac", Value: 2.5}, {Key: "Exp", Value: 1e6}, {Key: "Yes", Value: true}, {Key: "No", Value: false}, {Key: "7", Value: "seven"}}) {
		t.Errorf("Mixed = %#v", got)
	}
	if got := env.Types["Ar0_Int"]; !reflect.DeepEqual(got, Tuple{[]Type{}}) {
		t.Errorf("Ar0_Int = %#v", got)
	}
	tree := env.Types["Tree"].(Object)
	if len(tree.Props) != 4 || !tree.Props[1].Optional || tree.Props[1].Name != "my-key" || tree.Props[0].Optional || tree.Props[3].Type != (Prim{"null"}) {
		t.Errorf("Tree = %v", tree)
	}
	cases := []struct{ typ, doc, wantErr string }{
		{"Empty", `{}`, ""}, {"Empty", `{"a":1}`, "$.a: expected never"}, {"Empty", `null`, "expected object"},
		{"Ar0_Int", `[]`, ""}, {"Ar0_Int", `[1]`, "tuple of length 0"}, {"Ar0_Int", `null`, "tuple of length 0"},
		{"Ar2_string", `["a","b"]`, ""}, {"Ar2_string", `["a"]`, "tuple of length 2"},
		{"Dict", `null`, ""}, {"Dict", `{}`, ""}, {"Dict", `{"any key at all":[1,2],"":null}`, ""}, {"Dict", `{"k":[1,"x"]}`, "$.k[1]: expected number"},
		{"ByColor", `{"r":"x","q":"y"}`, ""}, {"ByColor", `{"Red":"x"}`, "allowed keys are r, g, q"},
		{"ByFlag", `{"a":true,"1":false}`, ""}, {"ByFlag", `{"c":true}`, "no alternative accepts the key"},
		{"Color", `"r"`, ""}, {"Color", `"Red"`, `one of the values of Color {"r", "g", "q"}`},
		{"Mixed", `-1`, ""}, {"Mixed", `2.5`, ""}, {"Mixed", `1000000`, ""}, {"Mixed", `true`, ""}, {"Mixed", `false`, ""}, {"Mixed", `"seven"`, ""},
		{"Mixed", `1`, "one of the values"}, {"Mixed", `"true"`, "one of the values"}, {"Mixed", `null`, "one of the values"},
		{"Nothing", `0`, "one of the values of Nothing {}"},
		{"Tree", `{"Kids":null,"Last":null}`, ""},
		{"Tree", `{"Kids":[{"Kids":[],"Last":null,"Opt":"o"}],"my-key":-1,"Last":null}`, ""},
		{"Tree", `{"Kids":null,"my-key":true,"Last":null}`, ""},
		{"Tree", `{"Kids":null,"my-key":false,"Last":null}`, `$["my-key"]`},
		{"Tree", `{"Kids":null,"Opt":null,"Last":null}`, "$.Opt: expected string"},
		{"Tree", `{"Kids":null}`, "$.Last: expected required property"},
		{"Tree", `{"Kids":[{"Kids":[],"Last":0}],"Last":null}`, "$.Kids[0].Last: expected null, found 0"},
		{"Sep", `{"A":"","B":0}`, ""}, {"Sep", `{"A":""}`, "$.B"},
		{"Loop", `null`, ""}, {"Loop", `1`, "non-circular alias (Loop -> Loop)"},
		{"Both", `{"a":"x","b":1}`, ""}, {"Both", `{"a":"x"}`, "$.b: expected required property"}, {"Both", `{"a":"x","b":"y"}`, "$.b: expected number"},
		{"Both", `{"a":"x","b":1,"c":2}`, ""}, // extra keys tolerated only below a genuine intersection
		{"Node", `{"Kind":"Pair","Data":[{"Kind":"Leaf","Data":1},{"Kind":"Pair","Data":[{"Kind":"Leaf","Data":2},{"Kind":"Leaf","Data":3}]}]}`, ""},
		{"Node", `{"Kind":"Pair","Data":[{"Kind":"Leaf","Data":1},{"Kind":"Pair","Data":[{"Kind":"Leaf","Data":2},{"Kind":"Leaf","Data":"3"}]}]}`, "$.Data[1].Data[1].Data: expected number"},
		{"Node", `{"Kind":"Pair","Data":[{"Kind":"Leaf","Data":1}]}`, "$.Data: expected tuple of length 2"},
		{"Anything", `{"x":[1]}`, ""}, {"Anything", `null`, ""},
		{"Record2", `{"R":{"x":{"1":[[{"Kids":null,"Last":null}],[]],"2e3":[]}}}`, ""},
		{"Record2", `{"R":{"x":{"0x1":[]}}}`, "not a numeric key"},
		{"Record2", `{"R":{"x":{"1":[[{"Kids":null}]]}}}`, `$.R.x["1"][0][0].Last`},
	}
	for _, c := range cases {
		err := env.Inhabits(c.typ, decode(t, c.doc))
		switch {
		case c.wantErr == "" && err != nil:
			t.Errorf("%s should accept %s: %v", c.typ, c.doc, err)
		case c.wantErr != "" && err == nil:
			t.Errorf("%s should reject %s", c.typ, c.doc)
		case c.wantErr != "" && !strings.Contains(err.Error(), c.wantErr):
			t.Errorf("%s on %s: error %q does not contain %q", c.typ, c.doc, err, c.wantErr)
		}
	}
	// float64 documents (decoded without UseNumber) are accepted as well
	if err := env.InhabitsType(Array{Ref{"Int"}}, []any{1.0, 2.5}); err != nil {
		t.Error(err)
	}
	if err := env.InhabitsType(Prim{"never"}, nil); err == nil {
		t.Error("never must be uninhabited")
	}
	if err := env.InhabitsType(Ref{"Missing"}, nil); err == nil || !strings.Contains(err.Error(), "undeclared type Missing") {
		t.Errorf("unresolved ref: %v", err)
	}
	if err := env.InhabitsType(Lit{18446744073709551615.0}, json.Number("18446744073709551615")); err != nil {
		t.Error(err)
	}
}

func TestUndeclaredAndDuplicates(t *testing.T) {
	env := mustParse(t, `
export interface A { X: B, Y: (Record<C, D[]> | null), Z: [E, A] }
export type A = string
export interface A { }
export type F = (typeof G)[keyof typeof G];
export const H = { a: 1 } as const
export const H = { a: 2 } as const
export const L: Record<M, string> = { [H.a]: "", [H.zz]: "", [N.a]: "" , k: 1, k: 2 }
export interface Dup { p: string, q: number, p: string }
`)
	if got, want := env.Undeclared(), []string{"B", "C", "D", "E", "H.zz", "M", "typeof G", "typeof N"}; !reflect.DeepEqual(got, want) {
		t.Errorf("Undeclared = %v, want %v", got, want)
	}
	if got, want := env.Duplicates(), []string{"A", "const H"}; !reflect.DeepEqual(got, want) {
		t.Errorf("Duplicates = %v, want %v", got, want)
	}
	if env.DeclCount["A"] != 3 || env.ConstCount["H"] != 2 || env.DeclCount["F"] != 1 || env.DeclCount["H"] != 0 {
		t.Errorf("counts: %v %v", env.DeclCount, env.ConstCount)
	}
	if got, want := env.DuplicateProps(), []string{"Dup.p", "const L.k"}; !reflect.DeepEqual(got, want) {
		t.Errorf("DuplicateProps = %v, want %v", got, want)
	}
	if _, ok := env.Types["A"].(Object); !ok || len(env.Order) != 3 {
		t.Errorf("first declaration must win: %v, order %v", env.Types["A"], env.Order)
	}
}

func TestParseErrors(t *testing.T) {
	cases := []struct {
		name, src string
		line      int
		msg       string
	}{
		{"comma in key", "export interface S {\n\ta: string,\n\tb,omitempty: string,\n}", 3, "expected ':', found ','"},
		{"dash in key", "export interface S {\n\ta-b: string,\n}", 2, "expected ':', found '-'"},
		{"dash key", "export interface S {\n\t-: string,\n}", 2, "expected a property name"},
		{"empty key", "export interface S {\n\t: string,\n}", 2, "expected a property name"},
		{"unknown statement", "export type A = string\nlet x = 1", 2, "unknown statement"},
		{"import", "import Axios from \"axios\";", 1, "unknown statement"},
		{"export class", "export abstract class X {}", 1, "unknown statement"},
		{"export default", "export default 3", 1, "unknown statement"},
		{"stray text", "export type A = string\n}\n", 2, "unknown statement"},
		{"unbalanced brace", "export interface S {\n\ta: string,\n\nexport type B = number", 4, "expected ':'"},
		{"unbalanced eof", "export interface S {\n\ta: string,\n", 3, "expected a property name, found end of file"},
		{"unbalanced paren", "export type A = ( string[] | null", 1, "expected ')'"},
		{"unbalanced bracket", "export type A = [string,", 1, "expected a type, found end of file"},
		{"unbalanced const", "export const A = {\n a : 1,\n", 3, "expected a property name"},
		{"missing type", "export type A = \nexport type B = number", 2, "found keyword 'export'"},
		{"empty union", "export type A = \n\n", 3, "expected a type"},
		{"two on a line", "export type A = string export type B = number", 1, "expected ';' or a line break"},
		{"props on a line", "export interface S { a: string b: number }", 1, "expected ',', ';', a line break or '}'"},
		{"const missing comma", "export const A = {\n a : 1\n b : 2\n} as const;", 3, "expected ',' or '}'"},
		{"const bad value", "export const A = {\n a : b,\n} as const;", 2, "expected a string, number or boolean literal"},
		{"const as", "export const A = { } as string;", 1, "expected 'const'"},
		{"tuple double comma", "export type A = [string,,]", 1, "expected a type"},
		{"bad type name", "export type Generic_[]int = string", 1, "expected '='"},
		{"reserved name", "export type delete = string", 1, "cannot be declared"},
		{"predefined name", "export interface string { a: number }", 1, "cannot be declared"},
		{"generic ref", "export type A = Array<string>", 1, "not in the accepted subset"},
		{"bare Record", "export type A = Record", 1, "expected '<'"},
		{"shadowed Record", "export interface Record {\n a: string,\n}\nexport type M = (Record<string,Int> | null)", 4, "TS2315"},
		{"valuesof mismatch", "export type A = (typeof A)[keyof typeof B]", 1, "the two names differ"},
		{"unterminated string", "export type A = { Kind: \"x, Data: B}", 1, "unterminated string"},
		{"unterminated comment", "/* x\nexport type A = string", 1, "unterminated block comment"},
		{"template string", "export type A = `x`", 1, "unexpected character"},
		{"octal escape", `export const A = { a : "\1" } as const`, 1, "octal"},
		{"bad number", "export const A = { a : 12ab } as const", 1, "malformed number"},
		{"legacy octal", "export const A = { a : 012 } as const", 1, "malformed number"},
		{"array on next line", "export type A = string\n[]", 2, "unknown statement"},
		{"function type", "export type A = () => void", 1, "expected a type"},
		{"void", "export type A = void", 1, "found keyword 'void'"},
	}
	for _, c := range cases {
		env, err := Parse(c.src)
		se, ok := err.(*SyntaxError)
		if !ok || env != nil {
			t.Errorf("%s: expected a *SyntaxError, got env=%v err=%v", c.name, env, err)
			continue
		}
		if se.Line != c.line || !strings.Contains(se.Msg, c.msg) || se.Excerpt == "" && c.src != "" {
			t.Errorf("%s: got line %d %q (excerpt %q), want line %d %q", c.name, se.Line, se.Msg, se.Excerpt, c.line, c.msg)
		}
	}
	// Declaring a type named Record is fine as long as the builtin is not used.
	if _, err := Parse("export interface Record { a: string }"); err != nil {
		t.Error(err)
	}
	// The raw output must survive any truncation as an error or a shorter env, never a panic.
	raw := rawGenerated(t)
	for i := 0; i < len(raw); i += 7 {
		Parse(raw[:i])
	}
}

func TestSplitAxios(t *testing.T) {
	src := typescript.GenerateAxios(nil)
	types, class, err := SplitAxios(src)
	if err != nil {
		t.Fatal(err)
	}
	if strings.TrimSpace(types) != "" || !strings.HasPrefix(class, "/** AbstractAPI provides") || !strings.HasSuffix(class, "}") {
		t.Errorf("types=%q class=%q", types, class)
	}
	// splice real declarations where renderTypes puts them
	decls := rawGenerated(t) + "\nexport const XLabels: Record<EnumInt, string> = { [EnumInt.Ai]: \"/** AbstractAPI provides\", };\n"
	marker := "import Axios from \"axios\";\n"
	i := strings.Index(src, marker) + len(marker)
	j := strings.Index(src, "/** AbstractAPI")
	types, class2, err := SplitAxios(src[:i] + "\n\t" + decls + "\n\n\t" + src[j:])
	if err != nil {
		t.Fatal(err)
	}
	if class2 != class || strings.Contains(types, "import") || strings.TrimSpace(types) != strings.TrimSpace(decls) {
		t.Errorf("bad split: types=%q", types)
	}
	env := mustParse(t, types)
	if len(env.Undeclared())+len(env.Duplicates()) != 0 || env.Types["ComplexStruct"] == nil {
		t.Errorf("undeclared %v duplicates %v", env.Undeclared(), env.Duplicates())
	}
	for _, bad := range []string{"", "export type A = string", src[:j], strings.Replace(src, "import Axios", "import Axioz", 1), "let x = 1\n" + src} {
		if _, _, err := SplitAxios(bad); err == nil {
			t.Errorf("SplitAxios(%.40q) should fail", bad)
		}
	}
}
