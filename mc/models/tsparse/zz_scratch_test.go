package tsparse_test

import (
	"fmt"
	"go/ast"
	"go/importer"
	goparser "go/parser"
	gotoken "go/token"
	"go/types"
	"testing"

	"verif.test/mc/models/tsparse"

	"github.com/benoitkugler/gomacro/analysis"
	"github.com/benoitkugler/gomacro/generator"
	"github.com/benoitkugler/gomacro/generator/typescript"
	"golang.org/x/tools/go/packages"
)

const scratchSrc = `package p
import "time"
type E int
const (
	EA E = -1 // label "a"
	EB E = 3 // b
)
type S string
const (
	SA S = "x\ay" // la
	SB S = "é\n"
)
type Empty struct{}
type Z struct {
	A [1]int
	B string ` + "`json:\"b\"`" + `
	C map[string][]E
	D map[E]map[int]time.Time
	F [2][3]S
	G float64
	Rec Empty
}

`

func TestScratch(t *testing.T) {
	fset := gotoken.NewFileSet()
	f, err := goparser.ParseFile(fset, "/tmp/p/p.go", scratchSrc, goparser.ParseComments)
	if err != nil {
		t.Fatal(err)
	}
	info := &types.Info{Types: map[ast.Expr]types.TypeAndValue{}, Defs: map[*ast.Ident]types.Object{}, Uses: map[*ast.Ident]types.Object{}}
	conf := types.Config{Importer: importer.ForCompiler(fset, "source", nil)}
	tp, err := conf.Check("example.com/p", fset, []*ast.File{f}, info)
	if err != nil {
		t.Fatal(err)
	}
	pkg := &packages.Package{PkgPath: "example.com/p", Name: "p", Fset: fset, Syntax: []*ast.File{f}, Types: tp, TypesInfo: info, GoFiles: []string{"/tmp/p/p.go"}, CompiledGoFiles: []string{"/tmp/p/p.go"}}
	out := generator.WriteDeclarations(typescript.Generate(analysis.NewAnalysisFromFile(pkg, "/tmp/p/p.go")))
	fmt.Println(out)
	env, err := tsparse.Parse(out)
	fmt.Println("ERR:", err)
	if env != nil {
		fmt.Println(env.Undeclared(), env.Duplicates(), env.DuplicateProps())
		for _, n := range env.Order {
			fmt.Println(n, "=", env.Types[n])
		}
	}
}
