package tsparse

import (
	"fmt"
	"strconv"
	"strings"
	"unicode"
	"unicode/utf8"
)

type tokKind int

const (
	tEOF    tokKind = iota
	tIdent          // identifiers and keywords
	tString         // text holds the decoded value
	tNumber         // text holds the raw spelling, num the value
	tPunct          // one character of  { } [ ] ( ) < > , ; : | & = . ? -
)

type token struct {
	kind     tokKind
	text     string
	num      float64
	pos, end int  // byte offsets in the source
	line     int  // 1-based
	nl       bool // at least one line terminator precedes the token
}

func (t token) String() string {
	switch t.kind {
	case tEOF:
		return "end of file"
	case tString:
		return strconv.Quote(t.text)
	}
	return "'" + t.text + "'"
}

// SyntaxError is returned by Parse.
type SyntaxError struct {
	Line    int
	Msg     string
	Excerpt string // the offending source line, trimmed and clipped
}

func (e *SyntaxError) Error() string {
	return fmt.Sprintf("ts syntax error line %d: %s (near %q)", e.Line, e.Msg, e.Excerpt)
}

func syntaxErr(src string, pos, line int, format string, args ...any) *SyntaxError {
	if pos > len(src) {
		pos = len(src)
	}
	start := strings.LastIndexByte(src[:pos], '\n') + 1
	end := len(src)
	if i := strings.IndexByte(src[pos:], '\n'); i >= 0 {
		end = pos + i
	}
	ex := strings.TrimSpace(src[start:end])
	if ex == "" { // blank line or end of file: show the last non-blank line before
		before := strings.Split(strings.TrimSpace(src[:start]), "\n")
		ex = strings.TrimSpace(before[len(before)-1])
	}
	if len(ex) > 70 {
		ex = ex[:70] + "..."
	}
	return &SyntaxError{Line: line, Msg: fmt.Sprintf(format, args...), Excerpt: ex}
}

func isIdentStart(r rune) bool { return r == '_' || r == '$' || unicode.IsLetter(r) }
func isIdentPart(r rune) bool  { return isIdentStart(r) || unicode.IsDigit(r) }
func isDigit(c byte) bool      { return '0' <= c && c <= '9' }

// lex splits src into tokens, dropping white space, // comments and /* */ comments.
func lex(src string) ([]token, error) {
	var toks []token
	i, line, nl := 0, 1, false
	emit := func(k tokKind, text string, num float64, start int) {
		toks = append(toks, token{kind: k, text: text, num: num, pos: start, end: i, line: line, nl: nl})
		nl = false
	}
	for i < len(src) {
		c := src[i]
		switch {
		case c == '\n':
			line, nl, i = line+1, true, i+1
		case c == ' ' || c == '\t' || c == '\r':
			i++
		case strings.HasPrefix(src[i:], "//"):
			for i < len(src) && src[i] != '\n' {
				i++
			}
		case strings.HasPrefix(src[i:], "/*"):
			end := strings.Index(src[i+2:], "*/")
			if end < 0 {
				return nil, syntaxErr(src, i, line, "unterminated block comment")
			}
			if n := strings.Count(src[i:i+2+end], "\n"); n > 0 {
				line, nl = line+n, true
			}
			i += 2 + end + 2
		case c == '"' || c == '\'':
			start := i
			val, n, err := lexString(src[i:])
			if err != "" {
				return nil, syntaxErr(src, i, line, "%s", err)
			}
			i += n
			emit(tString, val, 0, start)
			line += strings.Count(src[start:i], "\n") // escaped line continuations
		case isDigit(c) || c == '.' && i+1 < len(src) && isDigit(src[i+1]):
			start := i
			i += scanNumber(src[i:])
			raw := src[start:i]
			r, _ := utf8.DecodeRuneInString(src[i:])
			v, err := strconv.ParseFloat(raw, 64)
			bad := len(raw) > 1 && raw[0] == '0' && isDigit(raw[1]) // legacy octal
			if (err != nil && v == 0) || bad || (i < len(src) && isIdentPart(r)) {
				return nil, syntaxErr(src, start, line, "malformed number literal")
			}
			emit(tNumber, raw, v, start)
		case strings.IndexByte("{}[]()<>,;:|&=.?-", c) >= 0:
			i++
			emit(tPunct, string(c), 0, i-1)
		default:
			r, n := utf8.DecodeRuneInString(src[i:])
			if !isIdentStart(r) {
				return nil, syntaxErr(src, i, line, "unexpected character %q", r)
			}
			start := i
			for i < len(src) && isIdentPart(r) {
				i += n
				r, n = utf8.DecodeRuneInString(src[i:])
			}
			emit(tIdent, src[start:i], 0, start)
		}
	}
	emit(tEOF, "", 0, i)
	return toks, nil
}

// scanNumber returns the length of the decimal literal  digits [. digits] [e [+-] digits]
func scanNumber(s string) int {
	i := 0
	digits := func() {
		for i < len(s) && isDigit(s[i]) {
			i++
		}
	}
	digits()
	if i < len(s) && s[i] == '.' {
		i++
		digits()
	}
	if i < len(s) && (s[i] == 'e' || s[i] == 'E') {
		j := i
		i++
		if i < len(s) && (s[i] == '+' || s[i] == '-') {
			i++
		}
		if i < len(s) && isDigit(s[i]) {
			digits()
		} else {
			i = j // not an exponent: the caller rejects the trailing identifier
		}
	}
	return i
}

// lexString decodes the quoted literal starting s, with JavaScript escape semantics
// (unknown escapes such as \a or \U denote the character itself). It returns
// the value, the number of bytes consumed, and an error message or "".
func lexString(s string) (string, int, string) {
	quote := s[0]
	var b strings.Builder
	for i := 1; i < len(s); {
		c := s[i]
		switch {
		case c == quote:
			return b.String(), i + 1, ""
		case c == '\n':
			return "", 0, "unterminated string literal"
		case c != '\\':
			b.WriteByte(c)
			i++
		default:
			if i+1 >= len(s) {
				return "", 0, "unterminated string literal"
			}
			i += 2
			switch e := s[i-1]; e {
			case 'n', 't', 'r', 'b', 'f', 'v':
				b.WriteByte("\n\t\r\b\f\v"[strings.IndexByte("ntrbfv", e)])
			case '\n': // line continuation
			case '0', '1', '2', '3', '4', '5', '6', '7', '8', '9':
				if e != '0' || (i < len(s) && isDigit(s[i])) {
					return "", 0, "octal escape sequences are not allowed"
				}
				b.WriteByte(0)
			case 'x', 'u':
				width := map[byte]int{'x': 2, 'u': 4}[e]
				hex := ""
				if e == 'u' && i < len(s) && s[i] == '{' {
					end := strings.IndexByte(s[i:], '}')
					if end < 0 {
						return "", 0, "malformed \\u{...} escape"
					}
					hex, i = s[i+1:i+end], i+end+1
				} else if i+width <= len(s) {
					hex, i = s[i:i+width], i+width
				}
				v, err := strconv.ParseUint(hex, 16, 32)
				if err != nil || v > unicode.MaxRune {
					return "", 0, "malformed \\" + string(e) + " escape"
				}
				// Lone surrogates cannot be represented in a Go string; they become U+FFFD.
				b.WriteRune(rune(v))
			default:
				r, n := utf8.DecodeRuneInString(s[i-1:])
				b.WriteRune(r)
				i += n - 1
			}
		}
	}
	return "", 0, "unterminated string literal"
}
