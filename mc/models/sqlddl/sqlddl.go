// Package sqlddl reads the schema text emitted by gomacro's generator/sql:
// CREATE TABLE / CREATE TYPE / ALTER TABLE statements and validation functions.
package sqlddl

import (
	"fmt"
	"regexp"
	"strings"
)

type Column struct {
	Name    string
	Type    string // SQL type text, normalised spaces
	NotNull bool
	Serial  bool     // serial PRIMARY KEY
	Checks  []string // inline CHECK (...) bodies, outer parentheses removed
}

type Table struct {
	Name    string
	Columns []Column
}

type Composite struct {
	Name   string
	Fields [][2]string // name, type
}

type Schema struct {
	Tables     []Table
	Types      []Composite
	Statements []string          // every other statement (ALTER TABLE ..., free-standing), trimmed, without the final ';', in output order
	Functions  map[string]string // validation function name -> whole text
	FuncOrder  []string
}

var (
	reFunc    = regexp.MustCompile(`(?s)CREATE OR REPLACE FUNCTION\s+(\w+)\s*\(.*?\$\$.*?\$\$\s*LANGUAGE 'plpgsql'\s*IMMUTABLE;`)
	reComment = regexp.MustCompile(`(?m)^\s*--.*$`)
	reSpaces  = regexp.MustCompile(`\s+`)
)

func norm(s string) string { return strings.TrimSpace(reSpaces.ReplaceAllString(s, " ")) }

// splitTop splits s on sep at parenthesis depth 0, outside single quoted strings.
func splitTop(s string, sep byte) []string {
	var out []string
	depth, start := 0, 0
	inStr := false
	for i := 0; i < len(s); i++ {
		c := s[i]
		switch {
		case inStr:
			if c == '\'' {
				inStr = false
			}
		case c == '\'':
			inStr = true
		case c == '(':
			depth++
		case c == ')':
			depth--
		case c == sep && depth == 0:
			out = append(out, s[start:i])
			start = i + 1
		}
	}
	out = append(out, s[start:])
	return out
}

func Parse(text string) (*Schema, error) {
	sc := &Schema{Functions: map[string]string{}}
	// functions first
	for _, m := range reFunc.FindAllStringSubmatch(text, -1) {
		if _, dup := sc.Functions[m[1]]; dup {
			return nil, fmt.Errorf("function %s defined twice", m[1])
		}
		sc.Functions[m[1]] = m[0]
		sc.FuncOrder = append(sc.FuncOrder, m[1])
	}
	rest := reFunc.ReplaceAllString(text, "")
	if strings.Contains(rest, "$$") {
		return nil, fmt.Errorf("unparsed function body remains")
	}
	rest = reComment.ReplaceAllString(rest, "")
	for _, st := range splitTop(rest, ';') {
		st = strings.TrimSpace(st)
		if st == "" {
			continue
		}
		up := strings.ToUpper(st)
		switch {
		case strings.HasPrefix(up, "CREATE TABLE"):
			t, err := parseTable(st)
			if err != nil {
				return nil, err
			}
			sc.Tables = append(sc.Tables, t)
		case strings.HasPrefix(up, "CREATE TYPE"):
			c, err := parseComposite(st)
			if err != nil {
				return nil, err
			}
			sc.Types = append(sc.Types, c)
		default:
			sc.Statements = append(sc.Statements, norm(st))
		}
	}
	return sc, nil
}

var reCreateTable = regexp.MustCompile(`(?s)^CREATE TABLE\s+(\S+)\s*\((.*)\)$`)

func parseTable(st string) (Table, error) {
	m := reCreateTable.FindStringSubmatch(st)
	if m == nil {
		return Table{}, fmt.Errorf("malformed CREATE TABLE: %q", st)
	}
	t := Table{Name: m[1]}
	body := strings.TrimSpace(m[2])
	if body == "" {
		return t, nil
	}
	for _, cs := range splitTop(body, ',') {
		cs = norm(cs)
		if cs == "" {
			return Table{}, fmt.Errorf("empty column definition in table %s", t.Name)
		}
		name, rest, _ := strings.Cut(cs, " ")
		col := Column{Name: name}
		rest = strings.TrimSpace(rest)
		if rest == "serial PRIMARY KEY" {
			col.Serial, col.Type, col.NotNull = true, "serial", true
			t.Columns = append(t.Columns, col)
			continue
		}
		// inline checks
		for {
			i := strings.Index(rest, "CHECK (")
			if i < 0 {
				break
			}
			depth, j := 0, i+6
			for ; j < len(rest); j++ {
				if rest[j] == '(' {
					depth++
				} else if rest[j] == ')' {
					depth--
					if depth == 0 {
						break
					}
				}
			}
			if j >= len(rest) {
				return Table{}, fmt.Errorf("unbalanced CHECK in column %s.%s", t.Name, name)
			}
			col.Checks = append(col.Checks, rest[i+7:j])
			rest = rest[:i] + rest[j+1:]
		}
		rest = norm(rest)
		if strings.HasSuffix(rest, "NOT NULL") {
			col.NotNull = true
			rest = strings.TrimSpace(strings.TrimSuffix(rest, "NOT NULL"))
		}
		col.Type = rest
		t.Columns = append(t.Columns, col)
	}
	return t, nil
}

var reCreateType = regexp.MustCompile(`(?s)^CREATE TYPE\s+(\S+)\s+AS\s*\((.*)\)$`)

func parseComposite(st string) (Composite, error) {
	m := reCreateType.FindStringSubmatch(st)
	if m == nil {
		return Composite{}, fmt.Errorf("malformed CREATE TYPE: %q", st)
	}
	c := Composite{Name: m[1]}
	if strings.TrimSpace(m[2]) == "" {
		return c, nil
	}
	for _, f := range splitTop(m[2], ',') {
		f = norm(f)
		n, ty, _ := strings.Cut(f, " ")
		c.Fields = append(c.Fields, [2]string{n, ty})
	}
	return c, nil
}

func (s *Schema) Table(name string) *Table {
	for i := range s.Tables {
		if s.Tables[i].Name == name {
			return &s.Tables[i]
		}
	}
	return nil
}

// StripComments removes /* ... */ comments and normalises spaces.
func StripComments(s string) string {
	s = norm(regexp.MustCompile(`/\*.*?\*/`).ReplaceAllString(s, " "))
	s = strings.ReplaceAll(s, " )", ")")
	s = strings.ReplaceAll(s, "( ", "(")
	return s
}
