package vpg

import (
	"encoding/json"
	"errors"
	"os"
	"path/filepath"
	"reflect"
	"regexp"
	"strings"
	"testing"

	"github.com/benoitkugler/gomacro/analysis"
	"github.com/benoitkugler/gomacro/generator"
	gensql "github.com/benoitkugler/gomacro/generator/sql"
)

type bodyCase struct{ body, doc, want string }

func runBodies(t *testing.T, cases []bodyCase) {
	t.Helper()
	for _, c := range cases {
		s := mustParse(t, fn("f", c.body))
		if got := outcome(s.Call("F", js(t, c.doc))); got != c.want {
			t.Errorf("%s\non %s: got %s, want %s", c.body, c.doc, got, c.want)
		}
	}
}

func TestPLpgSQLStatements(t *testing.T) {
	runBodies(t, []bodyCase{
		// functions are not STRICT: the body runs on a NULL argument
		{`BEGIN RETURN TRUE; END;`, `SQLNULL`, "T"},
		{`BEGIN RETURN NULL; END`, `1`, "N"},
		// DECLARE: initial value computed at block entry, NULL without one
		{`DECLARE v boolean := jsonb_typeof(data) = 'number'; BEGIN RETURN v; END;`, `1`, "T"},
		{`DECLARE v boolean; BEGIN RETURN v; END;`, `1`, "N"},
		{`DECLARE v boolean DEFAULT FALSE; w bool := NOT v; BEGIN RETURN w; END;`, `1`, "T"},
		{`DECLARE v boolean := data::int = 1; BEGIN RETURN TRUE; END;`, `"x"`, "E:22023"},
		{`DECLARE v boolean := data#>>'{}' IN (1); BEGIN RETURN TRUE; END;`, `"x"`, "E:42883"},
		{`DECLARE v boolean := w; w boolean; BEGIN RETURN TRUE; END;`, `1`, "E:42703"},
		// assignment
		{`DECLARE v boolean; BEGIN v := data::int = 1; v := NOT v; RETURN v; END;`, `1`, "F"},
		// IF: taken iff TRUE
		{`BEGIN IF jsonb_typeof(data) = 'null' THEN RETURN TRUE; END IF; RETURN FALSE; END;`, `null`, "T"},
		{`BEGIN IF jsonb_typeof(data) = 'null' THEN RETURN TRUE; END IF; RETURN FALSE; END;`, `1`, "F"},
		{`BEGIN IF jsonb_typeof(data) = 'null' THEN RETURN TRUE; END IF; RETURN FALSE; END;`, `SQLNULL`, "F"},
		{`BEGIN IF jsonb_typeof(data) != 'object' THEN RETURN FALSE; ELSE RETURN TRUE; END IF; END;`, `SQLNULL`, "T"},
		{`BEGIN IF NOT NULL THEN RETURN TRUE; END IF; RETURN FALSE; END;`, `1`, "F"},
		{`BEGIN IF FALSE THEN IF data::int = 1 THEN RETURN FALSE; END IF; END IF; RETURN TRUE; END;`, `"x"`, "T"},
		// a parse analysis error is raised only when the statement is reached
		{`BEGIN IF FALSE THEN RETURN data#>>'{}' = 1; END IF; RETURN TRUE; END;`, `1`, "T"},
		{`BEGIN IF TRUE THEN RETURN data#>>'{}' = 1; END IF; RETURN TRUE; END;`, `1`, "E:42883"},
		// searched CASE statement
		{`BEGIN CASE WHEN data->>'k' = 'a' THEN RETURN TRUE; WHEN data->>'k' = 'b' THEN RETURN FALSE; ELSE RETURN NULL; END CASE; END;`, `{"k":"a"}`, "T"},
		{`BEGIN CASE WHEN data->>'k' = 'a' THEN RETURN TRUE; WHEN data->>'k' = 'b' THEN RETURN FALSE; ELSE RETURN NULL; END CASE; END;`, `{"k":"b"}`, "F"},
		{`BEGIN CASE WHEN data->>'k' = 'a' THEN RETURN TRUE; WHEN data->>'k' = 'b' THEN RETURN FALSE; ELSE RETURN NULL; END CASE; END;`, `{"k":"c"}`, "N"},
		{`BEGIN CASE WHEN TRUE THEN RETURN TRUE; WHEN TRUE THEN RETURN FALSE; END CASE; END;`, `1`, "T"},
		{`BEGIN CASE WHEN data->>'k' = 'a' THEN RETURN TRUE; END CASE; RETURN FALSE; END;`, `{"k":"b"}`, "E:20000"},
		{`BEGIN CASE WHEN data->>'k' = 'a' THEN RETURN TRUE; END CASE; RETURN FALSE; END;`, `{"k":null}`, "E:20000"},
		{`DECLARE v boolean; BEGIN CASE WHEN FALSE THEN RETURN FALSE; ELSE v := TRUE; END CASE; RETURN v; END;`, `1`, "T"},
		// end of function without RETURN
		{`BEGIN IF FALSE THEN RETURN TRUE; END IF; END;`, `1`, "E:2F005"},
		{`BEGIN END;`, `1`, "E:2F005"},
		// RAISE WARNING has no effect (its parameters are evaluated)
		{`BEGIN RAISE WARNING '% is not a %% number', data; RETURN FALSE; END;`, `1`, "F"},
		{`BEGIN RAISE WARNING 'hello'; RETURN TRUE; END;`, `1`, "T"},
		{`BEGIN RAISE WARNING '%', data::int; RETURN TRUE; END;`, `"x"`, "E:22023"},
		// comments, case
		{"begin -- note ; end\n if /* a /* nested */ b */ True then return true; end if; Return False; End;", `1`, "T"},
		// a variable named like a sub-select column is ambiguous inside the sub-select only
		{`DECLARE value boolean := TRUE; BEGIN RETURN value; END;`, `1`, "T"},
		{`DECLARE value boolean := TRUE; BEGIN RETURN (SELECT bool_and(jsonb_typeof(value) = 'number') FROM jsonb_array_elements(data)); END;`, `[1]`, "E:42702"},
	})
}

func TestRecursionAndUndefined(t *testing.T) {
	s := mustParse(t, fn("tree", `BEGIN
		IF jsonb_typeof(data) != 'array' THEN RETURN FALSE; END IF;
		IF jsonb_array_length(data) = 0 THEN RETURN TRUE; END IF;
		RETURN (SELECT bool_and(tree(value)) FROM jsonb_array_elements(data)); END;`)+
		fn("rec", `BEGIN RETURN rec(data); END;`)+
		fn("g", `BEGIN RETURN FALSE AND missing(data); END;`)+
		fn("h", `BEGIN IF FALSE THEN RETURN missing(data); END IF; RETURN TRUE; END;`)+
		"ALTER TABLE t ADD CONSTRAINT c CHECK (other(col));")
	for doc, want := range map[string]string{`[[],[[]]]`: "T", `[[],[1]]`: "F"} {
		if got := outcome(s.Call("tree", js(t, doc))); got != want {
			t.Errorf("tree(%s) = %s, want %s", doc, got, want)
		}
	}
	if got := outcome(s.Call("rec", nil)); got != "E:54001" {
		t.Errorf("unbounded recursion: %s", got)
	}
	// an unknown function fails the whole expression when it is reached
	if got := outcome(s.Call("g", nil)); got != "E:undefined" {
		t.Errorf("g: %s", got)
	}
	if got := outcome(s.Call("h", nil)); got != "T" {
		t.Errorf("h: %s", got)
	}
	if _, err := s.Call("nosuch", nil); !errors.Is(err, ErrUndefinedFunction) {
		t.Errorf("nosuch: %v", err)
	}
	if _, err := s.EvalCheck(s.Checks[0], nil); !errors.Is(err, ErrUndefinedFunction) {
		t.Errorf("check: %v", err)
	}
	if got, want := s.UndefinedCalls(), []string{"missing", "other"}; !reflect.DeepEqual(got, want) {
		t.Errorf("UndefinedCalls = %v, want %v", got, want)
	}
}

func TestDocuments(t *testing.T) {
	s := mustParse(t, fn("f", `BEGIN RETURN TRUE; END;`))
	for _, bad := range []any{1, 1.5, []string{"a"}, []any{map[string]int{}}, json.Number("abc"), json.Number("01"), json.Number("1."), json.Number("1e"), json.Number("+1")} {
		if _, err := s.Call("f", bad); err == nil || outcome(Null, err)[:3] != "E:?" {
			t.Errorf("document %#v: got %v, want a usage error", bad, err)
		}
	}
	// values jsonb cannot hold: PostgreSQL rejects the row before any CHECK
	if got := outcome(s.Call("f", map[string]any{"a": "x\x00"})); got != "E:22P05" {
		t.Errorf("NUL in string: %s", got)
	}
	if got := outcome(s.Call("f", js(t, `[1e200000]`))); got != "E:22003" {
		t.Errorf("huge number: %s", got)
	}
}

func TestParseFailures(t *testing.T) {
	ret := func(e string) string { return fn("f", "BEGIN RETURN "+e+"; END;") }
	for _, c := range []struct{ sql, offending string }{
		{ret(`data::text = 'a'`), `text = 'a'`},
		{ret(`data IS NULL`), `IS NULL`},
		{ret(`data::int NOT IN (1)`), `NOT IN`},
		{ret(`data::int IN (SELECT 1)`), `SELECT 1`},
		{ret(`data::int = 1.5`), `1.5`},
		{ret(`data::int = 1 = TRUE`), `= TRUE`},
		{ret(`data::int > 1`), `> 1`},
		{ret(`data::int + 1 = 2`), `+ 1`},
		{ret(`data->0 = data`), `0 = data`},
		{ret(`data#>>'{a}' = 'x'`), `'{a}'`},
		{ret(`data = data`), `; END`}, // jsonb comparison: reported after the operands
		{ret(`data = '1'`), `; END`},
		{ret(`jsonb_typeof('1') = 'number'`), `jsonb_typeof('1')`},
		{ret(`coalesce(data::int = 1, FALSE)`), `, FALSE`},
		{ret(`f()`), `)`},
		{ret(`bool_and(TRUE)`), `bool_and(TRUE)`},
		{ret(`(SELECT TRUE)`), `TRUE)`},
		{ret(`(SELECT bool_and(TRUE) FROM jsonb_object_keys(data))`), `jsonb_object_keys`},
		{ret(`(SELECT bool_and(TRUE) FROM jsonb_each(data) AS t)`), `AS t`},
		{ret(`(SELECT bool_and(TRUE, FALSE) FROM jsonb_each(data))`), `, FALSE`},
		{ret(`"Data"::int = 1`), `Data\"::int`},
		{ret(`data::int = E'1'`), `E'1'`},
		{ret(`'abc`), `'abc`},
		{ret(`'true' AND TRUE`), `argument of AND`},
		{ret(`TRUE = 'true'`), `; END`},
		{ret(`jsonb_typeof(data)`), `jsonb_typeof(data)`},
		{ret(`data::int`), `data::int`},
		{ret(`- data::int = 1`), `data::int`},
		{ret(`99999999999999999999 = data::int`), `99999999999999999999`},
		{ret(``), `; END`},
		{fn("f", `BEGIN CASE data->>'k' WHEN 'a' THEN RETURN TRUE; END CASE; END;`), `data->>'k' WHEN`},
		{fn("f", `BEGIN IF TRUE THEN RETURN TRUE; ELSIF FALSE THEN RETURN FALSE; END IF; END;`), `ELSIF`},
		{fn("f", `BEGIN LOOP RETURN TRUE; END LOOP; END;`), `LOOP`},
		{fn("f", `BEGIN RETURN; END;`), `; END`},
		{fn("f", `BEGIN RETURN TRUE END;`), `END`},
		{fn("f", `BEGIN PERFORM 1; RETURN TRUE; END;`), `PERFORM`},
		{fn("f", `BEGIN RAISE EXCEPTION 'x'; END;`), `EXCEPTION`},
		{fn("f", `BEGIN RAISE WARNING '% %', data; RETURN TRUE; END;`), `; RETURN`},
		{fn("f", `BEGIN RAISE WARNING 'x', data; RETURN TRUE; END;`), `; RETURN`},
		{fn("f", `BEGIN v := TRUE; RETURN v; END;`), `v := TRUE`},
		{fn("f", `BEGIN data := NULL; RETURN TRUE; END;`), `data := NULL`},
		{fn("f", `DECLARE v text; BEGIN RETURN TRUE; END;`), `text;`},
		{fn("f", `DECLARE v boolean; v boolean; BEGIN RETURN TRUE; END;`), `v boolean; BEGIN`},
		{fn("f", `DECLARE data boolean; BEGIN RETURN TRUE; END;`), `data boolean`},
		{fn("f", `BEGIN RETURN TRUE; END; RETURN FALSE;`), `RETURN FALSE`},
		{fn("f", `BEGIN RETURN TRUE;`), `end of text`},
		{strings.Replace(fn("f", `BEGIN RETURN TRUE; END;`), "IMMUTABLE", "IMMUTABLE STRICT", 1), `STRICT`},
		{strings.Replace(fn("f", `BEGIN RETURN TRUE; END;`), "IMMUTABLE", "STRICT", 1), `STRICT`},
		{strings.Replace(fn("f", `BEGIN RETURN TRUE; END;`), "'plpgsql'", "sql", 1), `sql`},
		{strings.Replace(fn("f", `BEGIN RETURN TRUE; END;`), "RETURNS boolean", "RETURNS text", 1), `text`},
		{strings.Replace(fn("f", `BEGIN RETURN TRUE; END;`), "data jsonb", "data json", 1), `json)`},
		{strings.Replace(fn("f", `BEGIN RETURN TRUE; END;`), "data jsonb", "a jsonb, b jsonb", 1), `, b jsonb`},
		{strings.Replace(fn("f", `BEGIN RETURN TRUE; END;`), "IMMUTABLE;", "IMMUTABLE", 1), `unterminated`},
		{fn("f", `BEGIN RETURN TRUE; END;`) + "/* open", `unterminated`},
		{strings.Replace(fn("f", `BEGIN RETURN TRUE; END;`), "CREATE OR", "CREATE", 1), `CREATE REPLACE FUNCTION`},
		{"DO $$ BEGIN NULL; END $$;", `DO $$`},
	} {
		s, err := ParseScript(c.sql)
		if err == nil {
			t.Errorf("accepted: %s (%d functions)", c.sql, len(s.Funcs))
		} else if !strings.Contains(err.Error(), c.offending) {
			t.Errorf("error %q does not show %q", err, c.offending)
		}
	}
}

func TestScriptStatements(t *testing.T) {
	s := mustParse(t, `-- header; with a semicolon
	CREATE TYPE Composite AS (A integer, B smallint);
	CREATE TABLE t (Id serial PRIMARY KEY, Doc jsonb NOT NULL, V smallint CHECK (V IN (0, 1)) NOT NULL, S text[] );
	ALTER TABLE t ADD FOREIGN KEY(Id) REFERENCES u ON DELETE CASCADE;
	ALTER TABLE t ADD UNIQUE(Id, V);
	ALTER TABLE t ADD PRIMARY KEY (Id);
	ALTER TABLE t ALTER COLUMN V SET DEFAULT 0 /* E.A; */;
	ALTER TABLE t ADD CHECK(V = 0 /* E.A */ OR V = 1);
	ALTER TABLE t ADD CONSTRAINT fk FOREIGN KEY (Id) REFERENCES u;
	CREATE UNIQUE INDEX index_name ON t (V);
	COMMENT ON TABLE t IS 'a;b';
	ALTER TABLE t ADD CONSTRAINT c1 CHECK (v_ok(Doc)) NOT VALID;
	alter table T add constraint Doc_gomacro check ( V_OK (Doc) );
	ALTER TABLE t ADD CONSTRAINT c2 CHECK (length(S) > 0 AND v_ok(Doc) AND Tag IN ('x(', 'y'));
	`+fn("V_ok", "BEGIN RETURN jsonb_typeof(data) = 'object'; END;"))
	wantSkipped := []string{"CREATE UNIQUE INDEX index_name ON t (V)", "COMMENT ON TABLE t IS 'a;b'",
		"ALTER TABLE t ADD CONSTRAINT c1 CHECK (v_ok(Doc)) NOT VALID"}
	if !reflect.DeepEqual(s.Skipped, wantSkipped) {
		t.Errorf("Skipped = %q", s.Skipped)
	}
	wantChecks := []Check{
		{Table: "T", Constraint: "Doc_gomacro", Expr: "V_OK (Doc)", Func: "V_OK", Column: "Doc"},
		{Table: "t", Constraint: "c2", Expr: "length(S) > 0 AND v_ok(Doc) AND Tag IN ('x(', 'y')"},
	}
	if !reflect.DeepEqual(s.Checks, wantChecks) {
		t.Errorf("Checks = %+v", s.Checks)
	}
	if s.Funcs["v_ok"] == nil || len(s.Funcs) != 1 {
		t.Errorf("Funcs = %v", s.Funcs)
	}
	if got := outcome(s.EvalCheck(s.Checks[0], js(t, `{}`))); got != "T" {
		t.Errorf("EvalCheck: %s", got)
	}
	if got := outcome(s.EvalCheck(s.Checks[0], SQLNull)); got != "N" {
		t.Errorf("EvalCheck(NULL): %s", got)
	}
	if _, err := s.EvalCheck(s.Checks[1], nil); err == nil {
		t.Error("EvalCheck accepted a CHECK that is not fn(col)")
	}
	if got := s.UndefinedCalls(); !reflect.DeepEqual(got, []string{"length"}) {
		t.Errorf("UndefinedCalls = %v", got)
	}
}

// generateFixture runs the real generator on the fixture used by its own test
// (generator/sql/tables_test.go: analysis/sql/test/models.go). The sources are
// copied into a scratch module named github.com/benoitkugler/...: the committed
// crud_gen.go next to them does not compile, and the analysis only follows
// packages sharing the two first path elements of the root package.
func generateFixture(t *testing.T) string {
	root := t.TempDir()
	write := func(name, content string) {
		if err := os.MkdirAll(filepath.Dir(filepath.Join(root, name)), 0o755); err != nil {
			t.Fatal(err)
		}
		if err := os.WriteFile(filepath.Join(root, name), []byte(content), 0o644); err != nil {
			t.Fatal(err)
		}
	}
	read := func(name string) string {
		b, err := os.ReadFile(name)
		if err != nil {
			t.Fatal(err)
		}
		return string(b)
	}
	write("go.mod", "module github.com/benoitkugler/vpgfixture\n\ngo 1.23.0\n\nrequire github.com/benoitkugler/gomacro v0.0.0\n\nreplace github.com/benoitkugler/gomacro => /repo\n")
	write("go.sum", read("../../go.sum"))
	for _, f := range []string{"models.go", "other.go"} {
		write("test/"+f, read("/repo/analysis/sql/test/"+f))
	}
	source := filepath.Join(root, "test", "models.go")
	pkg, err := analysis.LoadSource(source)
	if err != nil {
		t.Fatal(err)
	}
	return generator.WriteDeclarations(gensql.Generate(analysis.NewAnalysisFromFile(pkg, source)))
}

const validPage = `{"with_tag":{"1":2},"Time":"2020-01-01T00:00:00Z","B":"s",
	"Value":{"Kind":"ConcretType1","Data":{"List2":null,"V":1}},
	"L":[{"Kind":"ConcretType2","Data":{"D":1.5}},{"Kind":"ConcretType1","Data":{"List2":[1,2],"V":0}}],
	"A":3,"E":4,"E2":3,"Date":"2020-01-01",
	"F":[[true,false,true,false,true],[true,false,true,false,true],[true,false,true,false,true],[true,false,true,false,true],[true,false,true,false,true]],
	"Imported":{"A":1},"EnumMap":{"0":true},"OptID1":{"Id":1},"OptID2":{"Id":2}}`

// mutate returns validPage with one top-level member replaced (or removed when
// text is empty, or added).
func mutate(t *testing.T, key, text string) any {
	doc := js(t, validPage).(map[string]any)
	if text == "" {
		delete(doc, key)
	} else {
		doc[key] = js(t, text)
	}
	return doc
}

func checkPage(t *testing.T, s *Script, fn string, pgFormatted bool) {
	t.Helper()
	for _, c := range []struct{ key, text, want string }{
		{"A", `3`, "T"},
		{"L", `null`, "T"}, // nil slice
		{"L", `[]`, "T"},
		{"with_tag", `null`, "T"}, // nil map
		{"EnumMap", `{}`, "N"},    // bool_and over no row is NULL (the CHECK passes)
		{"A", ``, "N"},            // missing member: f(NULL) is NULL, not FALSE
		{"Extra", `1`, "F"},
		{"A", `"3"`, "F"},
		{"B", `null`, "F"},
		{"E", `3`, "F"}, // not a member of EnumInt
		{"E", `"4"`, "F"},
		{"E", `1e10`, "E:22003"},
		{"E2", `4.4`, "T"}, // ::int rounds
		{"F", `[[true]]`, "F"},
		{"F", `null`, "F"},
		{"F", `{}`, "F"},
		{"L", `{}`, "F"},
		{"L", `[1]`, "F"},
		{"Value", `{"Kind":"Unknown","Data":{}}`, "F"},
		{"Value", `{"Kind":"ConcretType2","Data":null}`, "F"},
		{"Value", `{"Kind":"ConcretType2","Data":{"D":1},"Extra":1}`, "T"}, // union objects do not check their keys
		{"Value", `{"Kind":"ConcretType2","Data":{"D":1,"Extra":1}}`, "F"},
		{"Value", `{"Kind":1,"Data":{"D":1}}`, "F"},
		// missing Kind: the guard `NULL != 'string'` is NULL, so the IF is not taken; no WHEN matches NULL; ELSE returns FALSE
		{"Value", `{"Data":{"D":1}}`, "F"},
		{"Imported", `[]`, "F"},
		{"with_tag", `{"1":"x"}`, "F"},
		{"with_tag", `[]`, "F"},
	} {
		if pgFormatted && (c.key == "OptID1" || c.key == "OptID2") {
			continue
		}
		doc := mutate(t, c.key, c.text)
		if pgFormatted { // the older script does not know these two members
			delete(doc.(map[string]any), "OptID1")
			delete(doc.(map[string]any), "OptID2")
		}
		want := c.want
		if got := outcome(s.Call(fn, doc)); got != want {
			t.Errorf("%s with %s = %s: got %s, want %s", fn, c.key, c.text, got, want)
		}
	}
	for doc, want := range map[string]string{`null`: "F", `[]`: "F", `"x"`: "F",
		`SQLNULL`: "F", // every member validator yields NULL, except the union's ELSE RETURN FALSE
	} {
		if got := outcome(s.Call(fn, js(t, doc))); got != want {
			t.Errorf("%s(%s): got %s, want %s", fn, doc, got, want)
		}
	}
}

func TestGeneratedScript(t *testing.T) {
	raw := generateFixture(t)
	s := mustParse(t, raw)
	if want := []string{"CREATE UNIQUE INDEX index_name ON question_tags (Tag)"}; !reflect.DeepEqual(s.Skipped, want) {
		t.Errorf("Skipped = %q", s.Skipped)
	}
	if u := s.UndefinedCalls(); len(u) != 0 {
		t.Errorf("UndefinedCalls = %v", u)
	}
	if n := strings.Count(raw, "CREATE OR REPLACE FUNCTION"); n != len(s.Funcs) || n < 15 {
		t.Errorf("%d functions parsed, %d in the text", len(s.Funcs), n)
	}
	wantChecks := []Check{
		{"exercices", "Parameters_gomacro", "gomacro_validate_json_map_boolean(Parameters)", "gomacro_validate_json_map_boolean", "Parameters"},
		{"questions", "Page_gomacro", "gomacro_validate_json_test_ComplexStruct(Page)", "gomacro_validate_json_test_ComplexStruct", "Page"},
	}
	if !reflect.DeepEqual(s.Checks, wantChecks) {
		t.Fatalf("Checks = %+v", s.Checks)
	}
	for doc, want := range map[string]string{`{"a":true,"b":false}`: "T", `null`: "T", `{}`: "N", `{"a":1}`: "F", `[]`: "F", `[true]`: "F", `true`: "F"} {
		if got := outcome(s.EvalCheck(s.Checks[0], js(t, doc))); got != want {
			t.Errorf("Parameters = %s: got %s, want %s", doc, got, want)
		}
	}
	if got := outcome(s.EvalCheck(s.Checks[1], js(t, validPage))); got != "T" {
		t.Errorf("valid page: %s", got)
	}
	checkPage(t, s, s.Checks[1].Func, false)
	for doc, want := range map[string]string{`[1,2.5]`: "T", `[]`: "T", `null`: "T", `[1,"a"]`: "F", `{}`: "F", `1`: "F"} {
		if got := outcome(s.Call("gomacro_validate_json_array_number", js(t, doc))); got != want {
			t.Errorf("array_number(%s): got %s, want %s", doc, got, want)
		}
	}
}

func TestPgFormattedScript(t *testing.T) {
	text, err := os.ReadFile("testdata/create_pgformat.sql")
	if err != nil {
		t.Fatal(err)
	}
	s := mustParse(t, string(text))
	if want := []string{"CREATE UNIQUE INDEX index_name ON question_tags (Tag)"}; !reflect.DeepEqual(s.Skipped, want) {
		t.Errorf("Skipped = %q", s.Skipped)
	}
	if u := s.UndefinedCalls(); len(u) != 0 || len(s.Funcs) != 16 || len(s.Checks) != 2 {
		t.Errorf("UndefinedCalls = %v, %d functions, %d checks", u, len(s.Funcs), len(s.Checks))
	}
	if s.Checks[1].Func != "gomacro_validate_json_test_ComplexStruct" || s.Checks[1].Column != "Page" {
		t.Errorf("Checks = %+v", s.Checks)
	}
	checkPage(t, s, s.Checks[1].Func, true)
}

// Every truncation and every single-token deletion of the generated script
// must be either refused or interpreted: never a panic, whatever the document.
func TestMutatedScriptsDoNotPanic(t *testing.T) {
	text, err := os.ReadFile("testdata/create_pgformat.sql")
	if err != nil {
		t.Fatal(err)
	}
	src := string(text)[strings.Index(string(text), "CREATE OR REPLACE FUNCTION"):]
	words := regexp.MustCompile(`\S+|\n`).FindAllString(src, -1) // line ends kept: they close the -- comments
	docs := []any{SQLNull, nil, js(t, `[]`), js(t, `{}`), js(t, `{"Kind":"ConcretType1","Data":{"V":"x"}}`), js(t, validPage)}
	accepted := 0
	try := func(sql string) {
		s, err := ParseScript(sql)
		if err != nil {
			return
		}
		accepted++
		for name := range s.Funcs {
			for _, d := range docs {
				s.Call(name, d)
			}
		}
		s.UndefinedCalls()
	}
	for i := range words {
		try(strings.Join(append(append([]string{}, words[:i]...), words[i+1:]...), " "))
		if i%7 == 0 {
			try(strings.Join(words[:i], " "))
		}
	}
	if accepted == 0 || accepted == len(words) {
		t.Errorf("%d of %d mutants accepted", accepted, len(words))
	}
	t.Logf("%d of %d single-word deletions still parse", accepted, len(words))
}
