package vpg

import (
	"encoding/json"
	"errors"
	"fmt"
	"strings"
)

// Tri is an SQL boolean.
type Tri int

const (
	Null Tri = iota
	True
	False
)

func (t Tri) String() string { return [...]string{"NULL", "TRUE", "FALSE"}[t] }

// PgError is an error PostgreSQL itself would raise while evaluating (the
// statement is aborted, so a row under CHECK is rejected). State is the SQLSTATE.
type PgError struct{ State, Msg string }

func (e *PgError) Error() string { return "ERROR " + e.State + ": " + e.Msg }

// ErrUndefinedFunction is wrapped by the errors reporting a call to a function
// that the script does not define.
var ErrUndefinedFunction = errors.New("function does not exist")

type sqlNull struct{}

// SQLNull, passed as a document, stands for the SQL NULL value (not JSON null).
var SQLNull any = sqlNull{}

// MaxDepth bounds nested function calls (PostgreSQL's max_stack_depth).
const MaxDepth = 1000

type vkind int

const (
	vNull vkind = iota
	vBool
	vText
	vInt
	vJSON // j holds the document; JSON null is j == nil
)

type value struct {
	k vkind
	b bool
	s string
	i int64
	j any
}

func boolVal(t Tri) value {
	if t == Null {
		return value{}
	}
	return value{k: vBool, b: t == True}
}

func (v value) tri() Tri {
	switch {
	case v.k == vNull:
		return Null
	case v.b:
		return True
	}
	return False
}

// frame is one PL/pgSQL function activation.
type frame struct {
	vars map[string]value
	rows []map[string]value // sub-select rows in scope, innermost last
}

type exec struct {
	s     *Script
	fr    *frame
	depth int
}

// Call evaluates the function name on one jsonb argument.
func (s *Script) Call(name string, doc any) (Tri, error) {
	arg := value{k: vJSON, j: doc}
	if _, isNull := doc.(sqlNull); isNull {
		arg = value{}
	} else if err := checkDoc(doc); err != nil {
		return Null, err
	}
	v, err := (&exec{s: s}).call(strings.ToLower(name), arg)
	return v.tri(), err
}

// EvalCheck evaluates a CHECK of the shape fn(col) with the column set to doc.
func (s *Script) EvalCheck(c Check, doc any) (Tri, error) {
	if c.Func == "" {
		return Null, fmt.Errorf("vpg: CHECK (%s) does not have the shape fn(col)", c.Expr)
	}
	return s.Call(c.Func, doc)
}

func (x *exec) call(name string, arg value) (value, error) {
	f := x.s.Funcs[name]
	if f == nil {
		return value{}, fmt.Errorf("%w: %s(jsonb)", ErrUndefinedFunction, name)
	}
	if x.depth >= MaxDepth {
		return value{}, &PgError{"54001", "stack depth limit exceeded"}
	}
	saved := x.fr
	x.fr = &frame{vars: map[string]value{f.Param: arg}}
	x.depth++
	defer func() { x.fr = saved; x.depth-- }()
	for _, d := range f.decls {
		v := value{}
		if d.init != nil {
			var err error
			if v, err = x.top(d.init); err != nil {
				return value{}, err
			}
		}
		x.fr.vars[d.name] = v
	}
	ret, err := x.run(f.body)
	if err != nil {
		return value{}, err
	}
	if ret == nil {
		return value{}, &PgError{"2F005", "control reached end of function without RETURN"}
	}
	return *ret, nil
}

// run executes statements; a non-nil value means RETURN was executed.
func (x *exec) run(stmts []*stmt) (*value, error) {
	for _, s := range stmts {
		switch s.k {
		case sAssign:
			v, err := x.top(s.e)
			if err != nil {
				return nil, err
			}
			x.fr.vars[s.name] = v
		case sReturn:
			v, err := x.top(s.e)
			return &v, err
		case sRaise: // no effect, but the parameters are evaluated
			for _, a := range s.conds {
				if _, err := x.top(a); err != nil {
					return nil, err
				}
			}
		case sIf, sCase:
			block, found := s.els, s.hasElse
			for i, c := range s.conds {
				v, err := x.top(c)
				if err != nil {
					return nil, err
				}
				if v.tri() == True { // NULL: branch not taken
					block, found = s.blocks[i], true
					break
				}
			}
			if !found && s.k == sCase {
				return nil, &PgError{"20000", "case not found"}
			}
			if ret, err := x.run(block); ret != nil || err != nil {
				return ret, err
			}
		}
	}
	return nil, nil
}

// top evaluates a top-level expression: parse analysis errors first.
func (x *exec) top(t *topExpr) (value, error) {
	if t.static != nil {
		return value{}, t.static
	}
	for _, name := range t.calls {
		if x.s.Funcs[name] == nil {
			return value{}, fmt.Errorf("%w: %s(jsonb), in %q", ErrUndefinedFunction, name, t.src)
		}
	}
	return x.eval(t.e)
}

func kindName(j any) string {
	switch j.(type) {
	case nil:
		return "null"
	case bool:
		return "boolean"
	case string:
		return "string"
	case json.Number:
		return "number"
	case []any:
		return "array"
	}
	return "object"
}

func scalarOr(j any, scalar, other string) string {
	switch j.(type) {
	case []any, map[string]any:
		return other
	}
	return scalar
}

func (x *exec) eval(e *expr) (value, error) {
	switch e.k {
	case eLit:
		return e.val, nil
	case eVar:
		return x.fr.vars[e.name], nil
	case eCol:
		for i := len(x.fr.rows) - 1; i >= 0; i-- {
			if v, ok := x.fr.rows[i][e.name]; ok {
				return v, nil
			}
		}
		panic("vpg: unbound column " + e.name)
	case eAnd, eOr: // Kleene logic, left to right, stopping at the deciding value
		decide := False
		if e.k == eOr {
			decide = True
		}
		l, err := x.eval(e.args[0])
		if err != nil || l.tri() == decide {
			return l, err
		}
		r, err := x.eval(e.args[1])
		if err != nil || r.tri() == decide || l.tri() != Null {
			return r, err
		}
		return value{}, nil
	case eSub:
		return x.evalSub(e)
	}
	// the remaining operators evaluate all their operands first
	args := make([]value, len(e.args))
	for i, a := range e.args {
		var err error
		if args[i], err = x.eval(a); err != nil {
			return value{}, err
		}
	}
	a := args[0]
	switch e.k {
	case eNot:
		if a.k == vNull {
			return a, nil
		}
		return value{k: vBool, b: !a.b}, nil
	case eEq, eNe:
		t := equal(a, args[1])
		if e.k == eNe && t != Null {
			t = True + False - t
		}
		return boolVal(t), nil
	case eIn:
		res := False
		for _, el := range args[1:] {
			switch equal(a, el) {
			case True:
				return boolVal(True), nil
			case Null:
				res = Null
			}
		}
		return boolVal(res), nil
	case eCall: // functions are not STRICT: NULL is passed through
		return x.call(e.name, a)
	}
	// the remaining operators are strict functions of one jsonb value
	if a.k == vNull {
		return value{}, nil
	}
	switch e.k {
	case eTypeof:
		return value{k: vText, s: kindName(a.j)}, nil
	case eArrLen:
		arr, ok := a.j.([]any)
		if !ok {
			return value{}, &PgError{"22023", "cannot get array length of a " + scalarOr(a.j, "scalar", "non-array")}
		}
		return value{k: vInt, i: int64(len(arr))}, nil
	case eArrow, eArrowText:
		obj, _ := a.j.(map[string]any)
		m, ok := obj[e.name]
		if !ok {
			return value{}, nil
		}
		if e.k == eArrow {
			return value{k: vJSON, j: m}, nil
		}
		return jsonToText(m), nil
	case ePathText:
		return jsonToText(a.j), nil
	case eCastInt:
		n, ok := a.j.(json.Number)
		if !ok {
			if a.j == nil && x.s.NullCastsToNull {
				return value{}, nil
			}
			kind := kindName(a.j)
			if kind == "array" || kind == "object" {
				kind = "array or object"
			}
			return value{}, &PgError{"22023", "cannot cast jsonb " + kind + " to type integer"}
		}
		i, ok := numberToInt4(string(n))
		if !ok {
			return value{}, &PgError{"22003", "integer out of range"}
		}
		return value{k: vInt, i: i}, nil
	}
	panic(fmt.Sprintf("vpg: unknown expression kind %d", e.k))
}

// equal is the `=` operator on two values of the same (statically checked) type.
func equal(a, b value) Tri {
	if a.k == vNull || b.k == vNull {
		return Null
	}
	if a.k != b.k {
		panic("vpg: comparison of values of different types escaped the static check")
	}
	if a.b == b.b && a.s == b.s && a.i == b.i {
		return True
	}
	return False
}

// evalSub evaluates (SELECT bool_and(arg) FROM srf(src)): every row is
// evaluated; NULL inputs are ignored; no non-NULL input gives NULL.
func (x *exec) evalSub(e *expr) (value, error) {
	src, err := x.eval(e.args[1])
	if err != nil {
		return value{}, err
	}
	var rows []map[string]value
	if src.k != vNull { // the set-returning functions are strict: NULL gives no row
		switch j := src.j.(type) {
		case map[string]any:
			if e.name != "jsonb_each" {
				return value{}, &PgError{"22023", "cannot extract elements from an object"}
			}
			for _, k := range sortedKeys(j) {
				rows = append(rows, map[string]value{"key": {k: vText, s: k}, "value": {k: vJSON, j: j[k]}})
			}
		case []any:
			if e.name == "jsonb_each" {
				return value{}, &PgError{"22023", "cannot call jsonb_each on a non-object"}
			}
			for _, el := range j {
				rows = append(rows, map[string]value{"value": {k: vJSON, j: el}})
			}
		default:
			if e.name == "jsonb_each" {
				return value{}, &PgError{"22023", "cannot call jsonb_each on a non-object"}
			}
			return value{}, &PgError{"22023", "cannot extract elements from a scalar"}
		}
	}
	res := Null
	for _, row := range rows {
		x.fr.rows = append(x.fr.rows, row)
		v, err := x.eval(e.args[0])
		x.fr.rows = x.fr.rows[:len(x.fr.rows)-1]
		if err != nil {
			return value{}, err
		}
		if t := v.tri(); t == False || (t == True && res == Null) {
			res = t
		}
	}
	return boolVal(res), nil
}
