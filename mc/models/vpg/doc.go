// Package vpg interprets the PL/pgSQL + SQL expression subset that gomacro's
// generator/sql emits to validate jsonb columns (templates vBasic, vEnum,
// vArray, vMap, vStruct, vUnion of generator/sql/json.go and the CHECK
// constraints of tables.go), with PostgreSQL's three-valued logic and error
// behaviour (PostgreSQL >= 12, written from the manual; there is no PostgreSQL
// to compare with). Anything outside the subset makes ParseScript fail with the
// offending text: nothing is guessed.
//
// # Accepted grammar (keywords and identifiers are case-insensitive)
//
//	script   := { statement ';' }      -- and /* nested */ comments anywhere
//	statement:= function | check | known | other
//	function := CREATE [OR REPLACE] FUNCTION name '(' param JSONB ')' RETURNS BOOLEAN|BOOL
//	            AS $$ body $$ LANGUAGE 'plpgsql'|plpgsql [IMMUTABLE]
//	check    := ALTER TABLE t ADD CONSTRAINT c CHECK '(' text ')'          (recorded in Checks)
//	known    := CREATE TABLE t (...) | CREATE TYPE t AS (...)              (skipped)
//	          | ALTER TABLE t ADD [CONSTRAINT c] FOREIGN KEY|UNIQUE|PRIMARY KEY ...
//	          | ALTER TABLE t ADD CHECK ... | ALTER TABLE t ALTER COLUMN ...
//	other    := anything else                                              (listed in Skipped)
//	body     := [DECLARE { var BOOLEAN|BOOL [(:=|DEFAULT) expr] ';' }] BEGIN { stmt } END [';']
//	stmt     := var ':=' expr ';' | RETURN expr ';' | RAISE WARNING 'format' {',' expr} ';'
//	          | IF expr THEN {stmt} [ELSE {stmt}] END IF ';'
//	          | CASE WHEN expr THEN {stmt} {WHEN expr THEN {stmt}} [ELSE {stmt}] END CASE ';'
//	expr     := expr OR expr | expr AND expr | NOT expr | a (=|!=|<>) a | a IN '(' expr {',' expr} ')' | a
//	a        := a (->|->>) 'key' | a #>> '{}' | u
//	u        := '-' integer | prim { '::' INT|INTEGER|INT4 }
//	prim     := 'string' | integer | TRUE | FALSE | NULL | name | '(' expr ')'
//	          | jsonb_typeof '(' expr ')' | jsonb_array_length '(' expr ')' | userfunction '(' expr ')'
//	          | '(' SELECT bool_and '(' expr ')' FROM (jsonb_each|jsonb_array_elements) '(' expr ')' ')'
//
// Expressions are statically typed (boolean, text, integer, jsonb, and the
// "unknown" type of quoted literals and NULL). IF/WHEN/RETURN/assignment/initial
// values must be boolean, casts apply to jsonb only, the arguments of functions
// and of -> ->> #>> must be jsonb; literals of type unknown are converted to
// the type of the other operands of = / IN (text, or integer by parsing).
//
// # Two kinds of failure
//
// Text that is outside the grammar, or whose meaning needs something not
// modelled (run-time casts to boolean, jsonb = jsonb, 'true' as a boolean...),
// fails ParseScript. Text that PostgreSQL accepts at CREATE FUNCTION but rejects
// when the expression is first analysed (text = integer, 'abc' compared with an
// integer, unknown column, non boolean AND argument, unknown function) parses,
// and raises that error (a *PgError, or ErrUndefinedFunction) each time the
// statement holding the expression is executed, even if short-circuit evaluation
// would not have reached the faulty operand: the analysis covers the whole
// expression before anything is evaluated.
//
// # Assumptions
//
//   - AND / OR evaluate left to right and stop at a deciding FALSE / TRUE. This
//     is what the executor does for a BoolExpr; the planner keeps the order in a
//     target list. PostgreSQL gives no general guarantee: for the expressions
//     holding a sub-select (not "simple" for PL/pgSQL) the first executions use a
//     custom plan in which calls of IMMUTABLE functions on the (then constant)
//     parameter may be evaluated at plan time, i.e. before operands on their
//     left. For a chain of ANDs this cannot turn a rejected row into an accepted
//     one or conversely (FALSE and an error both reject); for ORs it could.
//   - = and IN evaluate all their operands, then apply the NULL rules.
//   - bool_and evaluates every row (object members in jsonb storage order:
//     shorter keys first, then bytewise), so an error in any row is raised.
//   - A CHECK is violated iff its expression is FALSE; an error rejects the row.
package vpg
