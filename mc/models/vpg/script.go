package vpg

import (
	"fmt"
	"regexp"
	"sort"
	"strings"
)

// Script is a parsed generated SQL file. It is not modified by Call / EvalCheck,
// which may be used from several goroutines.
type Script struct {
	Funcs   map[string]*Func // by lower-cased name
	Checks  []Check
	Skipped []string // statements of a kind the generator is not known to emit, not interpreted

	// NullCastsToNull selects PostgreSQL >= 18, where casting a JSON null to
	// integer yields SQL NULL instead of raising an error.
	NullCastsToNull bool
}

// Check is one `ALTER TABLE Table ADD CONSTRAINT Constraint CHECK (Expr)`.
// Names are kept as written (SQL folds unquoted names to lower case; Call does
// so for function names). Func and Column are set when Expr is fn(col).
type Check struct {
	Table, Constraint, Expr string
	Func, Column            string
}

var (
	reFunc  = regexp.MustCompile(`(?is)^create\s+(or\s+replace\s+)?function\b`)
	reCheck = regexp.MustCompile(`(?is)^alter\s+table\s+(\S+)\s+add\s+constraint\s+(\S+)\s+check\s*\((.*)\)$`)
	reFnCol = regexp.MustCompile(`^\s*([A-Za-z_]\w*)\s*\(\s*([A-Za-z_]\w*)\s*\)\s*$`)
	// statements the generator emits and that carry no jsonb validation
	reKnown = regexp.MustCompile(`(?is)^(create\s+table\s+\S+\s*\(.*\)$|create\s+type\s+\S+\s+as\s*\(.*\)$|` +
		`alter\s+table\s+\S+\s+(add\s+(constraint\s+\S+\s+)?(foreign\s+key|unique|primary\s+key)|add\s+check|alter\s+column)\b)`)
	reCall  = regexp.MustCompile(`([A-Za-z_][\w$]*)\s*\(`)
	reQuote = regexp.MustCompile(`'[^']*'`)
)

var builtins = map[string]bool{"jsonb_typeof": true, "jsonb_array_length": true, "jsonb_each": true,
	"jsonb_array_elements": true, "bool_and": true}

// ParseScript parses a generated SQL file: every CREATE FUNCTION is parsed in
// full (a failure is an error), the named CHECK constraints are recorded, the
// other statements are skipped.
func ParseScript(sql string) (*Script, error) {
	stmts, err := splitStatements(sql)
	if err != nil {
		return nil, fmt.Errorf("vpg: %v", err)
	}
	s := &Script{Funcs: map[string]*Func{}}
	for _, st := range stmts {
		switch {
		case reFunc.MatchString(st):
			f, err := parseFunction(st)
			if err != nil {
				return nil, err
			}
			s.Funcs[f.Name] = f
		case reKnown.MatchString(st):
		case strings.Contains(st, "$$"):
			return nil, fmt.Errorf("vpg: statement with a $$ body that is not a CREATE FUNCTION: %s", excerpt(st))
		default:
			m := reCheck.FindStringSubmatch(st)
			if m == nil || !balanced(m[3]) {
				s.Skipped = append(s.Skipped, st)
				continue
			}
			c := Check{Table: m[1], Constraint: m[2], Expr: strings.TrimSpace(m[3])}
			if fc := reFnCol.FindStringSubmatch(c.Expr); fc != nil {
				c.Func, c.Column = fc[1], fc[2]
			}
			s.Checks = append(s.Checks, c)
		}
	}
	return s, nil
}

// balanced reports whether the parentheses of s, outside quoted literals,
// match without ever closing more than was opened.
func balanced(s string) bool {
	depth := 0
	for _, c := range reQuote.ReplaceAllString(s, "") {
		switch c {
		case '(':
			depth++
		case ')':
			depth--
		case '\'':
			return false
		}
		if depth < 0 {
			return false
		}
	}
	return depth == 0
}

// UndefinedCalls lists, sorted, every function called from a function body or
// from a recorded CHECK that is neither defined in the script nor one of the
// builtins of the supported subset.
func (s *Script) UndefinedCalls() []string {
	missing := map[string]bool{}
	note := func(name string) {
		if s.Funcs[name] == nil && !builtins[name] {
			missing[name] = true
		}
	}
	for _, f := range s.Funcs {
		for _, c := range f.calls {
			note(c)
		}
	}
	for _, c := range s.Checks {
		for _, m := range reCall.FindAllStringSubmatch(reQuote.ReplaceAllString(c.Expr, "''"), -1) {
			if name := strings.ToLower(m[1]); !reserved[name] {
				note(name)
			}
		}
	}
	out := make([]string, 0, len(missing))
	for name := range missing {
		out = append(out, name)
	}
	sort.Strings(out)
	return out
}
