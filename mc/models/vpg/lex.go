package vpg

import (
	"fmt"
	"strings"
)

type tokKind int

const (
	tEOF tokKind = iota
	tIdent
	tString // 'single quoted' literal; s is the decoded content
	tNum    // integer literal; s is the digits
	tOp     // operator or punctuation
)

type token struct {
	k   tokKind
	s   string // identifiers are folded to lower case
	pos int    // byte offset in the lexed text
}

func isIdentStart(c byte) bool { return c == '_' || c >= 'a' && c <= 'z' || c >= 'A' && c <= 'Z' }
func isDigit(c byte) bool      { return c >= '0' && c <= '9' }
func isIdentPart(c byte) bool  { return isIdentStart(c) || isDigit(c) || c == '$' }
func isSpace(c byte) bool      { return c == ' ' || c == '\t' || c == '\n' || c == '\r' || c == '\f' }

// skipComment returns the offset after the comment starting at i, or i if
// there is no comment there. Block comments nest, as in PostgreSQL.
func skipComment(src string, i int) (int, error) {
	if strings.HasPrefix(src[i:], "--") {
		if j := strings.IndexByte(src[i:], '\n'); j >= 0 {
			return i + j + 1, nil
		}
		return len(src), nil
	}
	if !strings.HasPrefix(src[i:], "/*") {
		return i, nil
	}
	depth := 0
	for j := i; j < len(src); {
		switch {
		case strings.HasPrefix(src[j:], "/*"):
			depth++
			j += 2
		case strings.HasPrefix(src[j:], "*/"):
			depth--
			j += 2
			if depth == 0 {
				return j, nil
			}
		default:
			j++
		}
	}
	return 0, fmt.Errorf("unterminated /* comment at offset %d", i)
}

// scanString scans the '...' literal starting at i (standard_conforming_strings
// = on: backslash is an ordinary character, two quotes stand for one).
func scanString(src string, i int) (string, int, error) {
	var sb strings.Builder
	for j := i + 1; j < len(src); j++ {
		if src[j] != '\'' {
			sb.WriteByte(src[j])
			continue
		}
		if j+1 < len(src) && src[j+1] == '\'' {
			sb.WriteByte('\'')
			j++
			continue
		}
		return sb.String(), j + 1, nil
	}
	return "", 0, fmt.Errorf("unterminated string literal at offset %d: %s", i, excerpt(src[i:]))
}

// scanDollar scans a $tag$...$tag$ string starting at i; ok is false when the
// text at i is not a dollar-quote opening.
func scanDollar(src string, i int) (content string, end int, ok bool, err error) {
	j := i + 1
	if j < len(src) && isIdentStart(src[j]) {
		for j < len(src) && isIdentPart(src[j]) && src[j] != '$' {
			j++
		}
	}
	if j >= len(src) || src[j] != '$' {
		return "", 0, false, nil
	}
	tag := src[i : j+1]
	k := strings.Index(src[j+1:], tag)
	if k < 0 {
		return "", 0, true, fmt.Errorf("unterminated dollar-quoted string %s at offset %d", tag, i)
	}
	return src[j+1 : j+1+k], j + 1 + k + len(tag), true, nil
}

func excerpt(s string) string {
	s = strings.Join(strings.Fields(s), " ")
	if len(s) > 60 {
		s = s[:60] + "..."
	}
	return fmt.Sprintf("%q", s)
}

var operators = []string{"->>", "#>>", "->", "::", ":=", "!=", "<>", "=", "(", ")", ",", ";", "-"}

// lex tokenises the strict subset; anything it does not know is an error.
func lex(src string) ([]token, error) {
	var out []token
	for i := 0; i < len(src); {
		c := src[i]
		if isSpace(c) {
			i++
			continue
		}
		if j, err := skipComment(src, i); err != nil {
			return nil, err
		} else if j != i {
			i = j
			continue
		}
		switch {
		case isIdentStart(c):
			j := i
			for j < len(src) && isIdentPart(src[j]) {
				j++
			}
			if j < len(src) && src[j] == '\'' {
				return nil, fmt.Errorf("unsupported prefixed string literal at offset %d: %s", i, excerpt(src[i:]))
			}
			out = append(out, token{tIdent, strings.ToLower(src[i:j]), i})
			i = j
		case isDigit(c):
			j := i
			for j < len(src) && isDigit(src[j]) {
				j++
			}
			if j < len(src) && (src[j] == '.' || isIdentStart(src[j])) {
				return nil, fmt.Errorf("unsupported numeric literal at offset %d: %s", i, excerpt(src[i:]))
			}
			out = append(out, token{tNum, src[i:j], i})
			i = j
		case c == '\'':
			s, j, err := scanString(src, i)
			if err != nil {
				return nil, err
			}
			out = append(out, token{tString, s, i})
			i = j
		default:
			found := false
			for _, op := range operators {
				if strings.HasPrefix(src[i:], op) {
					out = append(out, token{tOp, op, i})
					i += len(op)
					found = true
					break
				}
			}
			if !found {
				return nil, fmt.Errorf("unsupported token at offset %d: %s", i, excerpt(src[i:]))
			}
		}
	}
	return append(out, token{tEOF, "", len(src)}), nil
}

// splitStatements cuts a script at top-level semicolons. Comments outside
// strings and dollar-quoted bodies are replaced by a space; the terminating
// semicolon is dropped. A non-empty unterminated tail is an error.
func splitStatements(sql string) ([]string, error) {
	var out []string
	var cur strings.Builder
	flush := func() {
		if s := strings.TrimSpace(cur.String()); s != "" {
			out = append(out, s)
		}
		cur.Reset()
	}
	for i := 0; i < len(sql); {
		if j, err := skipComment(sql, i); err != nil {
			return nil, err
		} else if j != i {
			cur.WriteByte(' ')
			i = j
			continue
		}
		switch c := sql[i]; c {
		case '\'':
			_, j, err := scanString(sql, i)
			if err != nil {
				return nil, err
			}
			cur.WriteString(sql[i:j])
			i = j
		case '$':
			_, j, ok, err := scanDollar(sql, i)
			if err != nil {
				return nil, err
			}
			if !ok {
				j = i + 1
			}
			cur.WriteString(sql[i:j])
			i = j
		case ';':
			flush()
			i++
		default:
			cur.WriteByte(c)
			i++
		}
	}
	if s := strings.TrimSpace(cur.String()); s != "" {
		return nil, fmt.Errorf("unterminated statement at end of script: %s", excerpt(s))
	}
	return out, nil
}
