package vpg

import (
	"fmt"
	"regexp"
	"strconv"
	"strings"
)

// typ is the static SQL type of an expression. tyUnknown is PostgreSQL's
// "unknown": the type of a quoted literal or of NULL before it is resolved.
type typ int

const (
	tyUnknown typ = iota
	tyBool
	tyText
	tyInt
	tyJSONB
)

func (t typ) String() string { return [...]string{"unknown", "boolean", "text", "integer", "jsonb"}[t] }

type ekind int

const (
	eLit       ekind = iota // val
	eVar                    // PL/pgSQL variable or parameter `name`
	eCol                    // column `name` (key / value) of an enclosing sub-select row
	eTypeof                 // jsonb_typeof(args[0])
	eArrLen                 // jsonb_array_length(args[0])
	eCall                   // user function name(args[0])
	eArrow                  // args[0] -> 'name'
	eArrowText              // args[0] ->> 'name'
	ePathText               // args[0] #>> '{}'
	eCastInt                // args[0]::int
	eEq                     // args[0] = args[1]
	eNe                     // args[0] <> args[1]
	eIn                     // args[0] IN (args[1:])
	eAnd                    // args[0] AND args[1]
	eOr                     // args[0] OR args[1]
	eNot                    // NOT args[0]
	eSub                    // (SELECT bool_and(args[0]) FROM name(args[1]))
)

type expr struct {
	k    ekind
	t    typ
	val  value
	name string
	args []*expr
}

func (e *expr) isNullLit() bool { return e.k == eLit && e.val.k == vNull }

// topExpr is one expression as PL/pgSQL hands it to the SQL engine. static is
// the error PostgreSQL's parse analysis raises for it (unknown operator, bad
// literal, unknown column...): it is raised whenever the expression is reached,
// whatever short-circuit evaluation would have skipped. calls are the user
// functions it references; they are looked up at the same moment.
type topExpr struct {
	e      *expr
	src    string
	static *PgError
	calls  []string
}

type skind int

const (
	sAssign skind = iota // name := e
	sIf                  // IF conds[0] THEN blocks[0] [ELSE els] END IF
	sCase                // CASE WHEN conds[i] THEN blocks[i] ... [ELSE els] END CASE
	sReturn              // RETURN e
	sRaise               // RAISE WARNING 'fmt', conds...
)

type stmt struct {
	k       skind
	name    string
	e       *topExpr
	conds   []*topExpr
	blocks  [][]*stmt
	els     []*stmt
	hasElse bool
}

type decl struct {
	name string
	init *topExpr // nil: the variable starts NULL
}

// Func is a parsed `CREATE FUNCTION name (param jsonb) RETURNS boolean`.
type Func struct {
	Name, Param string // lower-cased
	Source      string // the PL/pgSQL body
	decls       []decl
	body        []*stmt
	calls       []string // every user function called in the body
}

var reserved = map[string]bool{}

func init() {
	for _, w := range strings.Fields(`and or not in is then else elsif elseif end if case when from select begin declare
		return raise true false null as language create function returns default loop for while between like
		where group order by having union distinct all any some exists cast array row`) {
		reserved[w] = true
	}
}

// parser works on a token array; a failure (malformed or unsupported text)
// panics with a parseError, recovered by parseFunction.
type parser struct {
	src  string
	toks []token
	i    int
	vars map[string]typ   // PL/pgSQL variables in scope
	cols []map[string]typ // sub-select row scopes, innermost last
	// state of the top-level expression being parsed
	static   *PgError
	calls    []string
	allCalls []string
}

type parseError struct{ error }

// fail reports the problem together with the source text at token index at.
func (p *parser) fail(at int, format string, args ...any) {
	where := "end of text"
	if t := p.toks[at]; t.k != tEOF {
		where = excerpt(p.src[t.pos:])
	}
	panic(parseError{fmt.Errorf("vpg: %s, at %s", fmt.Sprintf(format, args...), where)})
}

func (p *parser) peek() token { return p.toks[p.i] }

// is reports whether the next token is the given keyword or operator.
func (p *parser) is(words ...string) bool {
	t := p.peek()
	for _, w := range words {
		if (t.k == tIdent || t.k == tOp) && t.s == w {
			return true
		}
	}
	return false
}

func (p *parser) accept(words ...string) bool {
	if p.is(words...) {
		p.i++
		return true
	}
	return false
}

// expect consumes the given keywords / operators, in sequence.
func (p *parser) expect(words ...string) {
	for _, w := range words {
		if !p.accept(w) {
			p.fail(p.i, "expected %s", strings.ToUpper(w))
		}
	}
}

func (p *parser) expectTok(k tokKind, what string) token {
	t := p.peek()
	if t.k != k || (k == tIdent && reserved[t.s]) {
		p.fail(p.i, "expected %s", what)
	}
	if k != tEOF {
		p.i++
	}
	return t
}

func (p *parser) setStatic(state, format string, args ...any) {
	if p.static == nil {
		p.static = &PgError{State: state, Msg: fmt.Sprintf(format, args...)}
	}
}

// ---------------------------------------------------------------- functions

var reHeader = regexp.MustCompile(`(?is)^create\s+(?:or\s+replace\s+)?function\s+([a-z_]\w*)\s*\(\s*([a-z_]\w*)\s+jsonb\s*\)` +
	`\s*returns\s+bool(?:ean)?\s+as\s+\$\$(.*)\$\$\s*language\s+(?:'plpgsql'|plpgsql)(?:\s+immutable)?$`)

var reBody = regexp.MustCompile(`(?s)\$\$.*\$\$`)

// parseFunction parses one CREATE FUNCTION statement (comments outside the
// body removed, no final ';'). Only the generator's header shape is accepted:
// one jsonb parameter, RETURNS boolean, $$ body $$, LANGUAGE plpgsql
// [IMMUTABLE]; in particular STRICT, which changes the semantics, is refused.
func parseFunction(text string) (f *Func, err error) {
	m := reHeader.FindStringSubmatch(text)
	if m == nil || reserved[strings.ToLower(m[1])] || reserved[strings.ToLower(m[2])] {
		header := strings.Join(strings.Fields(reBody.ReplaceAllString(text, "$$$$...$$$$")), " ")
		return nil, fmt.Errorf("vpg: unsupported function header or attributes: %q", header)
	}
	f = &Func{Name: strings.ToLower(m[1]), Param: strings.ToLower(m[2]), Source: m[3]}
	defer func() {
		if r := recover(); r != nil {
			pe, ok := r.(parseError)
			if !ok {
				panic(r)
			}
			f, err = nil, fmt.Errorf("function %s: %w", m[1], pe.error)
		}
	}()
	parseBody(f)
	return f, nil
}

func newParser(src string) *parser {
	toks, err := lex(src)
	if err != nil {
		panic(parseError{fmt.Errorf("vpg: %v", err)})
	}
	return &parser{src: src, toks: toks}
}

func parseBody(f *Func) {
	p := newParser(f.Source)
	p.vars = map[string]typ{f.Param: tyJSONB}
	if p.accept("declare") {
		for !p.is("begin") {
			d := decl{name: p.expectTok(tIdent, "variable name").s}
			if _, dup := p.vars[d.name]; dup {
				p.fail(p.i-1, "variable %s redeclared (shadowing is not modelled)", d.name)
			}
			if !p.accept("boolean", "bool") {
				p.fail(p.i, "unsupported variable type (only boolean)")
			}
			if p.accept(":=") || p.accept("default") {
				d.init = p.parseBoolTop("initial value of " + d.name)
			}
			p.expect(";")
			p.vars[d.name] = tyBool // visible to the following declarations only
			f.decls = append(f.decls, d)
		}
	}
	p.expect("begin")
	f.body = p.parseStmts()
	p.expect("end")
	p.accept(";")
	p.expectTok(tEOF, "end of body")
	f.calls = p.allCalls
}

// --------------------------------------------------------------- statements

func (p *parser) parseStmts() (out []*stmt) {
	for !p.is("end") && !p.is("else") && !p.is("when") {
		out = append(out, p.parseStmt())
	}
	return out
}

func (p *parser) parseStmt() *stmt {
	s := &stmt{}
	t := p.peek()
	switch {
	case p.accept("if"):
		s.k = sIf
		s.conds = []*topExpr{p.parseBoolTop("IF condition")}
		p.expect("then")
		s.blocks = [][]*stmt{p.parseStmts()}
		p.parseElse(s, "if")
	case p.accept("case"):
		s.k = sCase
		if !p.is("when") {
			p.fail(p.i, "only the searched form CASE WHEN cond THEN ... is supported")
		}
		for p.accept("when") {
			s.conds = append(s.conds, p.parseBoolTop("WHEN condition"))
			p.expect("then")
			s.blocks = append(s.blocks, p.parseStmts())
		}
		p.parseElse(s, "case")
	case p.accept("return"):
		s.k, s.e = sReturn, p.parseBoolTop("RETURN value")
	case p.accept("raise"):
		s.k = sRaise
		p.expect("warning")
		format := p.expectTok(tString, "RAISE format string")
		for p.accept(",") {
			s.conds = append(s.conds, p.parseTop())
		}
		if want := strings.Count(strings.ReplaceAll(format.s, "%%", ""), "%"); want != len(s.conds) {
			p.fail(p.i, "RAISE format %q has %d placeholders for %d parameters", format.s, want, len(s.conds))
		}
	case t.k == tIdent && !reserved[t.s] && p.toks[p.i+1].k == tOp && p.toks[p.i+1].s == ":=":
		if p.vars[t.s] != tyBool {
			p.fail(p.i, "assignment to %s, which is not a declared boolean variable", t.s)
		}
		p.i += 2
		s.k, s.name, s.e = sAssign, t.s, p.parseBoolTop("value assigned to "+t.s)
	default:
		p.fail(p.i, "unsupported statement")
	}
	p.expect(";")
	return s
}

func (p *parser) parseElse(s *stmt, closing string) {
	if p.accept("else") {
		s.hasElse, s.els = true, p.parseStmts()
	}
	p.expect("end", closing)
}

// parseTop parses one top-level SQL expression.
func (p *parser) parseTop() *topExpr {
	p.static, p.calls = nil, nil
	start := p.peek().pos
	e := p.parseExpr()
	p.allCalls = append(p.allCalls, p.calls...)
	return &topExpr{e: e, src: strings.TrimSpace(p.src[start:p.peek().pos]), static: p.static, calls: p.calls}
}

// parseBoolTop parses an expression used where PL/pgSQL wants a boolean. Other
// types would go through a run-time assignment cast, which is not modelled.
func (p *parser) parseBoolTop(what string) *topExpr {
	at := p.i
	t := p.parseTop()
	if t.e.isNullLit() {
		t.e.t = tyBool
	}
	if t.e.t != tyBool && t.static == nil {
		p.fail(at, "%s has type %s; only boolean expressions are supported there", what, t.e.t)
	}
	return t
}

// -------------------------------------------------------------- expressions
// Precedence, lowest first (PostgreSQL manual, 4.1.6): OR; AND; NOT; = <> (non
// associative); IN; other operators (-> ->> #>>); unary minus; :: .

func (p *parser) parseExpr() *expr {
	l := p.parseAnd()
	for p.accept("or") {
		l = p.mkLogic(eOr, "OR", l, p.parseAnd())
	}
	return l
}

func (p *parser) parseAnd() *expr {
	l := p.parseNot()
	for p.accept("and") {
		l = p.mkLogic(eAnd, "AND", l, p.parseNot())
	}
	return l
}

func (p *parser) parseNot() *expr {
	if p.accept("not") {
		return p.mkLogic(eNot, "NOT", p.parseNot())
	}
	l := p.parseIn()
	k := eEq
	switch {
	case p.accept("="):
	case p.accept("!=", "<>"):
		k = eNe
	default:
		return l
	}
	args := []*expr{l, p.parseIn()}
	if p.is("=") || p.is("!=") || p.is("<>") {
		p.fail(p.i, "comparison operators are not associative")
	}
	p.unify(args)
	return &expr{k: k, t: tyBool, args: args}
}

func (p *parser) parseIn() *expr {
	l := p.parseOther()
	if p.is("is") || p.is("not") || p.is("between") || p.is("like") {
		p.fail(p.i, "unsupported predicate")
	}
	if !p.accept("in") {
		return l
	}
	p.expect("(")
	if p.is("select") {
		p.fail(p.i, "IN (sub-select) is not supported")
	}
	args := []*expr{l, p.parseExpr()}
	for p.accept(",") {
		args = append(args, p.parseExpr())
	}
	p.expect(")")
	if p.is("in") {
		p.fail(p.i, "IN is not associative")
	}
	p.unify(args)
	return &expr{k: eIn, t: tyBool, args: args}
}

func (p *parser) parseOther() *expr {
	l := p.parseUnary()
	for p.is("->") || p.is("->>") || p.is("#>>") {
		op := p.peek().s
		p.i++
		at := p.i
		r := p.parseUnary()
		if r.k != eLit || r.t != tyUnknown || r.val.k != vText {
			p.fail(at, "the right operand of %s must be a quoted literal", op)
		}
		p.requireJSONB(l, at-1, "operator "+op)
		switch op {
		case "->":
			l = &expr{k: eArrow, t: tyJSONB, name: r.val.s, args: []*expr{l}}
		case "->>":
			l = &expr{k: eArrowText, t: tyText, name: r.val.s, args: []*expr{l}}
		default:
			if r.val.s != "{}" {
				p.fail(at, "only the empty path '{}' is supported with #>>")
			}
			l = &expr{k: ePathText, t: tyText, args: []*expr{l}}
		}
	}
	return l
}

func (p *parser) parseUnary() *expr {
	if p.accept("-") {
		if p.peek().k != tNum {
			p.fail(p.i, "unary minus is only supported on integer literals")
		}
		return p.intLit("-")
	}
	x := p.parsePrimary()
	for p.accept("::") {
		if !p.accept("int", "integer", "int4") {
			p.fail(p.i, "unsupported cast target (only ::int)")
		}
		switch {
		case x.isNullLit():
			x = &expr{k: eLit, t: tyInt}
		case x.t == tyJSONB || p.static != nil:
			x = &expr{k: eCastInt, t: tyInt, args: []*expr{x}}
		default:
			p.fail(p.i-2, "cast of a %s value to integer is not supported (only jsonb)", x.t)
		}
	}
	return x
}

func (p *parser) intLit(sign string) *expr {
	n, err := strconv.ParseInt(sign+p.peek().s, 10, 64)
	if err != nil {
		p.fail(p.i, "integer literal does not fit 64 bits (numeric literals are not supported)")
	}
	p.i++
	return &expr{k: eLit, t: tyInt, val: value{k: vInt, i: n}}
}

func (p *parser) parsePrimary() *expr {
	t := p.peek()
	switch {
	case t.k == tNum:
		return p.intLit("")
	case t.k == tString:
		p.i++
		return &expr{k: eLit, t: tyUnknown, val: value{k: vText, s: t.s}}
	case p.accept("("):
		if p.is("select") {
			return p.parseSub()
		}
		e := p.parseExpr()
		p.expect(")")
		return e
	case p.accept("true", "false"):
		return &expr{k: eLit, t: tyBool, val: value{k: vBool, b: t.s == "true"}}
	case p.accept("null"):
		return &expr{k: eLit, t: tyUnknown}
	case t.k == tIdent && !reserved[t.s]:
		p.i++
		if p.accept("(") {
			return p.parseCall(t.s)
		}
		return p.resolve(t.s)
	}
	p.fail(p.i, "expected an expression")
	return nil
}

func (p *parser) parseCall(name string) *expr {
	at := p.i - 2
	switch name {
	case "bool_and", "jsonb_each", "jsonb_array_elements":
		p.fail(at, "%s is only supported in (SELECT bool_and(expr) FROM jsonb_each|jsonb_array_elements(expr))", name)
	}
	arg := p.parseExpr()
	if !p.accept(")") {
		p.fail(p.i, "function calls must have exactly one argument")
	}
	p.requireJSONB(arg, at, "function "+name)
	switch name {
	case "jsonb_typeof":
		return &expr{k: eTypeof, t: tyText, args: []*expr{arg}}
	case "jsonb_array_length":
		return &expr{k: eArrLen, t: tyInt, args: []*expr{arg}}
	}
	p.calls = append(p.calls, name)
	return &expr{k: eCall, t: tyBool, name: name, args: []*expr{arg}}
}

// parseSub parses `SELECT bool_and(arg) FROM srf(src))`; the opening
// parenthesis is consumed. The FROM clause is read first because it decides
// which columns (key, value) the aggregate argument sees.
func (p *parser) parseSub() *expr {
	const shape = "only (SELECT bool_and(expr) FROM jsonb_each(expr) | jsonb_array_elements(expr)) is supported"
	p.i++ // select
	if !p.accept("bool_and") || !p.accept("(") {
		p.fail(p.i, shape)
	}
	argStart := p.i
	for depth := 1; depth > 0; p.i++ {
		switch {
		case p.peek().k == tEOF:
			p.fail(argStart, "unbalanced parenthesis after bool_and(")
		case p.is("("):
			depth++
		case p.is(")"):
			depth--
		}
	}
	argEnd := p.i - 1
	if !p.accept("from") {
		p.fail(p.i, shape)
	}
	srf := p.peek().s
	if !p.accept("jsonb_each", "jsonb_array_elements") || !p.accept("(") {
		p.fail(p.i, shape)
	}
	src := p.parseExpr()
	p.requireJSONB(src, p.i, "function "+srf)
	if !p.accept(")") || !p.accept(")") {
		p.fail(p.i, shape)
	}
	after := p.i
	cols := map[string]typ{"value": tyJSONB}
	if srf == "jsonb_each" {
		cols["key"] = tyText
	}
	p.cols = append(p.cols, cols)
	p.i = argStart
	arg := p.parseExpr()
	p.cols = p.cols[:len(p.cols)-1]
	if p.i != argEnd {
		p.fail(p.i, "bool_and takes exactly one argument")
	}
	switch {
	case arg.t == tyBool, p.static != nil:
	case arg.isNullLit():
		arg.t = tyBool
	case arg.t == tyUnknown:
		p.fail(argStart, "bool_and of an untyped string literal is not supported")
	default:
		p.setStatic("42883", "function bool_and(%s) does not exist", arg.t)
	}
	p.i = after
	return &expr{k: eSub, t: tyBool, name: srf, args: []*expr{arg, src}}
}

// resolve binds an unqualified name. A name that is both a column of an
// enclosing sub-select and a PL/pgSQL variable is ambiguous
// (plpgsql.variable_conflict = error, the default).
func (p *parser) resolve(name string) *expr {
	for i := len(p.cols) - 1; i >= 0; i-- {
		if t, ok := p.cols[i][name]; ok {
			if _, amb := p.vars[name]; amb {
				p.setStatic("42702", "column reference %q is ambiguous", name)
			}
			return &expr{k: eCol, t: t, name: name}
		}
	}
	if t, ok := p.vars[name]; ok {
		return &expr{k: eVar, t: t, name: name}
	}
	p.setStatic("42703", "column %q does not exist", name)
	return &expr{k: eLit, t: tyUnknown}
}

// ------------------------------------------------------------ static typing
// Once a static (parse analysis) error is recorded for the current top-level
// expression, its value can never be computed, so later checks are skipped.

func (p *parser) requireJSONB(e *expr, at int, what string) {
	switch {
	case e.t == tyJSONB, p.static != nil:
	case e.isNullLit():
		e.t = tyJSONB
	case e.t == tyUnknown:
		p.fail(at, "%s applied to an untyped string literal is not supported", what)
	default:
		p.setStatic("42883", "%s does not exist for an argument of type %s", what, e.t)
	}
}

func (p *parser) mkLogic(k ekind, name string, args ...*expr) *expr {
	for _, a := range args {
		switch {
		case a.t == tyBool, p.static != nil:
		case a.isNullLit():
			a.t = tyBool
		case a.t == tyUnknown:
			p.fail(p.i, "untyped string literal as argument of %s is not supported", name)
		default:
			p.setStatic("42804", "argument of %s must be type boolean, not type %s", name, a.t)
		}
	}
	return &expr{k: k, t: tyBool, args: args}
}

// unify gives the operands of `=`, `<>` or IN (es[0] is the left operand) a
// common type, as select_common_type does, and converts untyped literals to
// it. Differing resolved types have no equality operator in this subset.
func (p *parser) unify(es []*expr) {
	if p.static != nil {
		return
	}
	common := tyUnknown
	for _, e := range es {
		switch {
		case e.t == tyUnknown || e.t == common:
		case common == tyUnknown:
			common = e.t
		default:
			p.setStatic("42883", "operator does not exist: %s = %s", common, e.t)
			return
		}
	}
	switch common {
	case tyUnknown:
		common = tyText
	case tyJSONB:
		p.fail(p.i-1, "comparison of jsonb values is not supported")
	}
	for _, e := range es {
		switch {
		case e.t != tyUnknown:
		case e.isNullLit() || common == tyText:
			e.t = common
		case common == tyInt:
			n, err := strconv.ParseInt(strings.Trim(e.val.s, " \t\n\r\f\v"), 10, 64)
			if err != nil {
				p.setStatic("22P02", "invalid input syntax for type integer: %q", e.val.s)
				return
			}
			if n != int64(int32(n)) { // an error or not, depending on int4 / int8 resolution
				p.fail(p.i-1, "quoted literal '%s' outside the integer range is not supported", e.val.s)
			}
			e.t, e.val = tyInt, value{k: vInt, i: n}
		default:
			p.fail(p.i-1, "conversion of the literal '%s' to %s is not supported", e.val.s, common)
		}
	}
}
