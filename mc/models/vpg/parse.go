package vpg

import (
	"fmt"
	"strconv"
	"strings"
)

// typ is the static SQL type of an expression. tyUnknown is PostgreSQL's
// "unknown": the type of a quoted literal or of NULL before it is resolved.
type typ int

const (
	tyUnknown typ = iota
	tyBool
	tyText
	tyInt
	tyJSONB
)

func (t typ) String() string { return [...]string{"unknown", "boolean", "text", "integer", "jsonb"}[t] }

type ekind int

const (
	eLit       ekind = iota // val
	eVar                    // PL/pgSQL variable or parameter `name`
	eCol                    // column `name` (key / value) of an enclosing sub-select row
	eTypeof                 // jsonb_typeof(args[0])
	eArrLen                 // jsonb_array_length(args[0])
	eCall                   // user function name(args[0])
	eArrow                  // args[0] -> 'name'
	eArrowText              // args[0] ->> 'name'
	ePathText               // args[0] #>> '{}'
	eCastInt                // args[0]::int
	eEq                     // args[0] = args[1]
	eNe                     // args[0] <> args[1]
	eIn                     // args[0] IN (args[1:])
	eAnd                    // args[0] AND args[1]
	eOr                     // args[0] OR args[1]
	eNot                    // NOT args[0]
	eSub                    // (SELECT bool_and(args[0]) FROM name(args[1]))
)

type expr struct {
	k    ekind
	t    typ
	val  value
	name string
	args []*expr
}

func (e *expr) isNullLit() bool { return e.k == eLit && e.val.k == vNull }

// topExpr is one expression as PL/pgSQL hands it to the SQL engine. static is
// the error PostgreSQL's parse analysis raises for it (unknown operator, bad
// literal, unknown column...): it is raised whenever the expression is reached,
// whatever short-circuit evaluation would have skipped. calls are the user
// functions it references; they are looked up at the same moment.
type topExpr struct {
	e      *expr
	src    string
	static *PgError
	calls  []string
}

type skind int

const (
	sAssign skind = iota // name := e
	sIf                  // IF conds[0] THEN blocks[0] [ELSE els] END IF
	sCase                // CASE WHEN conds[i] THEN blocks[i] ... [ELSE els] END CASE
	sReturn              // RETURN e
	sRaise               // RAISE WARNING 'fmt', conds...
)

type stmt struct {
	k       skind
	name    string
	e       *topExpr
	conds   []*topExpr
	blocks  [][]*stmt
	els     []*stmt
	hasElse bool
}

type decl struct {
	name string
	init *topExpr // nil: the variable starts NULL
}

// Func is a parsed `CREATE FUNCTION name (param jsonb) RETURNS boolean`.
type Func struct {
	Name, Param string // lower-cased
	Source      string // the PL/pgSQL body
	decls       []decl
	body        []*stmt
	calls       []string
}

var reserved = map[string]bool{}

func init() {
	for _, w := range strings.Fields(`and or not in is then else elsif elseif end if case when from select begin declare
		return raise true false null as language create function returns default loop for while between like
		where group order by having union distinct all any some exists cast array row`) {
		reserved[w] = true
	}
}

type parser struct {
	src  string
	toks []token
	i    int
	vars map[string]typ   // PL/pgSQL variables in scope
	cols []map[string]typ // sub-select row scopes, innermost last
	// state of the top-level expression being parsed
	static   *PgError
	calls    []string
	allCalls []string // every user function called in the body
}

func (p *parser) peek() token { return p.toks[p.i] }
func (p *parser) next() token {
	t := p.toks[p.i]
	if t.k != tEOF {
		p.i++
	}
	return t
}
func (p *parser) isKw(w string) bool { t := p.peek(); return t.k == tIdent && t.s == w }
func (p *parser) isOp(o string) bool { t := p.peek(); return t.k == tOp && t.s == o }
func (p *parser) acceptKw(w string) bool {
	if p.isKw(w) {
		p.i++
		return true
	}
	return false
}
func (p *parser) acceptOp(o string) bool {
	if p.isOp(o) {
		p.i++
		return true
	}
	return false
}

// errf reports a parse failure (unsupported or malformed text) with the
// offending source text.
func (p *parser) errf(format string, args ...any) error {
	t := p.peek()
	at := "end of text"
	if t.k != tEOF {
		at = excerpt(p.src[t.pos:])
	}
	return fmt.Errorf("vpg: %s, at %s", fmt.Sprintf(format, args...), at)
}

func (p *parser) expectKw(words ...string) error {
	for _, w := range words {
		if !p.acceptKw(w) {
			return p.errf("expected %s", strings.ToUpper(w))
		}
	}
	return nil
}

func (p *parser) expectOp(o string) error {
	if !p.acceptOp(o) {
		return p.errf("expected %q", o)
	}
	return nil
}

func (p *parser) ident(what string) (string, error) {
	t := p.peek()
	if t.k != tIdent || reserved[t.s] {
		return "", p.errf("expected %s", what)
	}
	p.i++
	return t.s, nil
}

func (p *parser) setStatic(state, format string, args ...any) {
	if p.static == nil {
		p.static = &PgError{State: state, Msg: fmt.Sprintf(format, args...)}
	}
}

// ---------------------------------------------------------------- functions

// parseFunction parses one CREATE FUNCTION statement (without its final ';').
func parseFunction(text string) (*Func, error) {
	toks, err := lex(text)
	if err != nil {
		return nil, fmt.Errorf("vpg: %v", err)
	}
	p := &parser{src: text, toks: toks}
	if err := p.expectKw("create"); err != nil {
		return nil, err
	}
	if p.acceptKw("or") {
		if err := p.expectKw("replace"); err != nil {
			return nil, err
		}
	}
	if err := p.expectKw("function"); err != nil {
		return nil, err
	}
	f := &Func{}
	if f.Name, err = p.ident("function name"); err != nil {
		return nil, err
	}
	if err := p.expectOp("("); err != nil {
		return nil, err
	}
	if f.Param, err = p.ident("parameter name"); err != nil {
		return nil, err
	}
	if err := p.expectKw("jsonb"); err != nil {
		return nil, err
	}
	if err := p.expectOp(")"); err != nil {
		return nil, err
	}
	if err := p.expectKw("returns"); err != nil {
		return nil, err
	}
	if !p.acceptKw("boolean") && !p.acceptKw("bool") {
		return nil, p.errf("expected return type boolean")
	}
	if err := p.expectKw("as"); err != nil {
		return nil, err
	}
	body := p.next()
	if body.k != tDollar {
		p.i--
		return nil, p.errf("expected $$ body $$")
	}
	if err := p.expectKw("language"); err != nil {
		return nil, err
	}
	if lang := p.next(); (lang.k != tString && lang.k != tIdent) || strings.ToLower(lang.s) != "plpgsql" {
		p.i--
		return nil, p.errf("expected language plpgsql")
	}
	p.acceptKw("immutable")
	if p.peek().k != tEOF {
		return nil, p.errf("unsupported function attribute")
	}
	f.Source = body.s
	if err := parseBody(f); err != nil {
		return nil, fmt.Errorf("function %s: %w", f.Name, err)
	}
	return f, nil
}

func parseBody(f *Func) error {
	toks, err := lex(f.Source)
	if err != nil {
		return fmt.Errorf("vpg: %v", err)
	}
	p := &parser{src: f.Source, toks: toks, vars: map[string]typ{f.Param: tyJSONB}}
	if p.acceptKw("declare") {
		for !p.isKw("begin") {
			name, err := p.ident("variable name")
			if err != nil {
				return err
			}
			if _, dup := p.vars[name]; dup {
				return p.errf("variable %s redeclared (shadowing is not modelled)", name)
			}
			if !p.acceptKw("boolean") && !p.acceptKw("bool") {
				return p.errf("unsupported variable type (only boolean)")
			}
			d := decl{name: name}
			if p.acceptOp(":=") || p.acceptKw("default") {
				if d.init, err = p.parseBoolTop("initial value of " + name); err != nil {
					return err
				}
			}
			if err := p.expectOp(";"); err != nil {
				return err
			}
			p.vars[name] = tyBool // visible to the following declarations only
			f.decls = append(f.decls, d)
		}
	}
	if err := p.expectKw("begin"); err != nil {
		return err
	}
	if f.body, err = p.parseStmts(); err != nil {
		return err
	}
	if err := p.expectKw("end"); err != nil {
		return err
	}
	p.acceptOp(";")
	if p.peek().k != tEOF {
		return p.errf("unexpected text after END")
	}
	f.calls = p.allCalls
	return nil
}

// --------------------------------------------------------------- statements

func (p *parser) parseStmts() ([]*stmt, error) {
	var out []*stmt
	for {
		t := p.peek()
		if t.k == tIdent && (t.s == "end" || t.s == "else" || t.s == "when") {
			return out, nil
		}
		s, err := p.parseStmt()
		if err != nil {
			return nil, err
		}
		out = append(out, s)
	}
}

func (p *parser) parseStmt() (*stmt, error) {
	var err error
	switch {
	case p.acceptKw("if"):
		s := &stmt{k: sIf, conds: make([]*topExpr, 1), blocks: make([][]*stmt, 1)}
		if s.conds[0], err = p.parseBoolTop("IF condition"); err != nil {
			return nil, err
		}
		if err = p.expectKw("then"); err != nil {
			return nil, err
		}
		if s.blocks[0], err = p.parseStmts(); err != nil {
			return nil, err
		}
		if p.acceptKw("else") {
			s.hasElse = true
			if s.els, err = p.parseStmts(); err != nil {
				return nil, err
			}
		}
		if err = p.expectKw("end", "if"); err != nil {
			return nil, err
		}
		return s, p.expectOp(";")
	case p.acceptKw("case"):
		s := &stmt{k: sCase}
		if !p.isKw("when") {
			return nil, p.errf("only the searched form CASE WHEN cond THEN ... is supported")
		}
		for p.acceptKw("when") {
			c, err := p.parseBoolTop("WHEN condition")
			if err != nil {
				return nil, err
			}
			if err = p.expectKw("then"); err != nil {
				return nil, err
			}
			b, err := p.parseStmts()
			if err != nil {
				return nil, err
			}
			s.conds, s.blocks = append(s.conds, c), append(s.blocks, b)
		}
		if p.acceptKw("else") {
			s.hasElse = true
			if s.els, err = p.parseStmts(); err != nil {
				return nil, err
			}
		}
		if err = p.expectKw("end", "case"); err != nil {
			return nil, err
		}
		return s, p.expectOp(";")
	case p.acceptKw("return"):
		s := &stmt{k: sReturn}
		if s.e, err = p.parseBoolTop("RETURN value"); err != nil {
			return nil, err
		}
		return s, p.expectOp(";")
	case p.acceptKw("raise"):
		if err = p.expectKw("warning"); err != nil {
			return nil, err
		}
		format := p.next()
		if format.k != tString {
			p.i--
			return nil, p.errf("expected RAISE format string")
		}
		s := &stmt{k: sRaise}
		for p.acceptOp(",") {
			a, err := p.parseTop()
			if err != nil {
				return nil, err
			}
			s.conds = append(s.conds, a)
		}
		if want := strings.Count(strings.ReplaceAll(format.s, "%%", ""), "%"); want != len(s.conds) {
			return nil, p.errf("RAISE format %q has %d placeholders for %d parameters", format.s, want, len(s.conds))
		}
		return s, p.expectOp(";")
	}
	if t := p.peek(); t.k == tIdent && !reserved[t.s] && p.toks[p.i+1].k == tOp && p.toks[p.i+1].s == ":=" {
		if ty, ok := p.vars[t.s]; !ok || ty != tyBool {
			return nil, p.errf("assignment to %s, which is not a declared boolean variable", t.s)
		}
		p.i += 2
		s := &stmt{k: sAssign, name: t.s}
		if s.e, err = p.parseBoolTop("value assigned to " + t.s); err != nil {
			return nil, err
		}
		return s, p.expectOp(";")
	}
	return nil, p.errf("unsupported statement")
}

// parseTop parses one top-level SQL expression.
func (p *parser) parseTop() (*topExpr, error) {
	p.static, p.calls = nil, nil
	start := p.peek().pos
	e, err := p.parseExpr()
	if err != nil {
		return nil, err
	}
	t := &topExpr{e: e, src: strings.TrimSpace(p.src[start:p.peek().pos]), static: p.static, calls: p.calls}
	p.allCalls = append(p.allCalls, p.calls...)
	return t, nil
}

// parseBoolTop parses an expression used where PL/pgSQL wants a boolean. Other
// types would go through a run-time assignment cast, which is not modelled.
func (p *parser) parseBoolTop(what string) (*topExpr, error) {
	at := p.i
	t, err := p.parseTop()
	if err != nil {
		return nil, err
	}
	if t.e.isNullLit() {
		t.e.t = tyBool
	}
	if t.e.t != tyBool && t.static == nil {
		p.i = at
		return nil, p.errf("%s has type %s; only boolean expressions are supported there", what, t.e.t)
	}
	return t, nil
}

// -------------------------------------------------------------- expressions
// Precedence, lowest first (PostgreSQL manual, 4.1.6): OR; AND; NOT; = <> (non
// associative); IN; other operators (-> ->> #>>); unary minus; :: .

func (p *parser) parseExpr() (*expr, error) {
	l, err := p.parseAnd()
	for err == nil && p.acceptKw("or") {
		var r *expr
		if r, err = p.parseAnd(); err == nil {
			l, err = p.mkLogic(eOr, "OR", l, r)
		}
	}
	return l, err
}

func (p *parser) parseAnd() (*expr, error) {
	l, err := p.parseNot()
	for err == nil && p.acceptKw("and") {
		var r *expr
		if r, err = p.parseNot(); err == nil {
			l, err = p.mkLogic(eAnd, "AND", l, r)
		}
	}
	return l, err
}

func (p *parser) parseNot() (*expr, error) {
	if p.acceptKw("not") {
		x, err := p.parseNot()
		if err != nil {
			return nil, err
		}
		return p.mkLogic(eNot, "NOT", x)
	}
	return p.parseCmp()
}

func (p *parser) cmpOp() (ekind, bool) {
	switch {
	case p.acceptOp("="):
		return eEq, true
	case p.acceptOp("!="), p.acceptOp("<>"):
		return eNe, true
	}
	return 0, false
}

func (p *parser) parseCmp() (*expr, error) {
	l, err := p.parseIn()
	if err != nil {
		return nil, err
	}
	k, ok := p.cmpOp()
	if !ok {
		return l, nil
	}
	r, err := p.parseIn()
	if err != nil {
		return nil, err
	}
	if t := p.peek(); t.k == tOp && (t.s == "=" || t.s == "!=" || t.s == "<>") {
		return nil, p.errf("comparison operators are not associative")
	}
	if err := p.unify([]*expr{l, r}); err != nil {
		return nil, err
	}
	return &expr{k: k, t: tyBool, args: []*expr{l, r}}, nil
}

func (p *parser) parseIn() (*expr, error) {
	l, err := p.parseOther()
	if err != nil || !p.isKw("in") {
		if err == nil && (p.isKw("is") || p.isKw("not") || p.isKw("between") || p.isKw("like")) {
			return nil, p.errf("unsupported predicate")
		}
		return l, err
	}
	p.i++
	if err := p.expectOp("("); err != nil {
		return nil, err
	}
	if p.isKw("select") {
		return nil, p.errf("IN (sub-select) is not supported")
	}
	args := []*expr{l}
	for {
		e, err := p.parseExpr()
		if err != nil {
			return nil, err
		}
		args = append(args, e)
		if !p.acceptOp(",") {
			break
		}
	}
	if err := p.expectOp(")"); err != nil {
		return nil, err
	}
	if p.isKw("in") {
		return nil, p.errf("IN is not associative")
	}
	if err := p.unify(args); err != nil {
		return nil, err
	}
	return &expr{k: eIn, t: tyBool, args: args}, nil
}

func (p *parser) parseOther() (*expr, error) {
	l, err := p.parseUnary()
	for err == nil {
		t := p.peek()
		if t.k != tOp || (t.s != "->" && t.s != "->>" && t.s != "#>>") {
			break
		}
		p.i++
		at := p.i
		var r *expr
		if r, err = p.parseUnary(); err != nil {
			break
		}
		if r.k != eLit || r.t != tyUnknown || r.val.k != vText {
			p.i = at
			return nil, p.errf("the right operand of %s must be a quoted literal", t.s)
		}
		if err = p.requireJSONB(l, "operator "+t.s); err != nil {
			break
		}
		switch t.s {
		case "->":
			l = &expr{k: eArrow, t: tyJSONB, name: r.val.s, args: []*expr{l}}
		case "->>":
			l = &expr{k: eArrowText, t: tyText, name: r.val.s, args: []*expr{l}}
		default:
			if r.val.s != "{}" {
				p.i = at
				return nil, p.errf("only the empty path '{}' is supported with #>>")
			}
			l = &expr{k: ePathText, t: tyText, args: []*expr{l}}
		}
	}
	return l, err
}

func (p *parser) parseUnary() (*expr, error) {
	if p.acceptOp("-") {
		t := p.peek()
		if t.k != tNum {
			return nil, p.errf("unary minus is only supported on integer literals")
		}
		p.i++
		return p.intLit("-"+t.s, t)
	}
	x, err := p.parsePrimary()
	for err == nil && p.acceptOp("::") {
		if !p.acceptKw("int") && !p.acceptKw("integer") && !p.acceptKw("int4") {
			return nil, p.errf("unsupported cast target (only ::int)")
		}
		switch {
		case x.isNullLit():
			x = &expr{k: eLit, t: tyInt}
		case x.t == tyJSONB || p.static != nil:
			x = &expr{k: eCastInt, t: tyInt, args: []*expr{x}}
		default:
			p.i -= 2
			return nil, p.errf("cast of a %s value to integer is not supported (only jsonb)", x.t)
		}
	}
	return x, err
}

func (p *parser) intLit(s string, t token) (*expr, error) {
	n, err := strconv.ParseInt(s, 10, 64)
	if err != nil {
		p.i--
		return nil, p.errf("integer literal %s does not fit 64 bits (numeric literals are not supported)", s)
	}
	return &expr{k: eLit, t: tyInt, val: value{k: vInt, i: n}}, nil
}

func (p *parser) parsePrimary() (*expr, error) {
	t := p.next()
	switch {
	case t.k == tString:
		return &expr{k: eLit, t: tyUnknown, val: value{k: vText, s: t.s}}, nil
	case t.k == tNum:
		return p.intLit(t.s, t)
	case t.k == tOp && t.s == "(":
		if p.isKw("select") {
			return p.parseSub()
		}
		e, err := p.parseExpr()
		if err != nil {
			return nil, err
		}
		return e, p.expectOp(")")
	case t.k == tIdent && t.s == "true":
		return &expr{k: eLit, t: tyBool, val: value{k: vBool, b: true}}, nil
	case t.k == tIdent && t.s == "false":
		return &expr{k: eLit, t: tyBool, val: value{k: vBool}}, nil
	case t.k == tIdent && t.s == "null":
		return &expr{k: eLit, t: tyUnknown}, nil
	case t.k == tIdent && !reserved[t.s]:
		if p.acceptOp("(") {
			return p.parseCall(t.s)
		}
		return p.resolve(t.s), nil
	}
	if t.k != tEOF {
		p.i--
	}
	return nil, p.errf("expected an expression")
}

func (p *parser) parseCall(name string) (*expr, error) {
	at := p.i - 2
	switch name {
	case "bool_and", "jsonb_each", "jsonb_array_elements":
		p.i = at
		return nil, p.errf("%s is only supported in (SELECT bool_and(expr) FROM jsonb_each|jsonb_array_elements(expr))", name)
	}
	arg, err := p.parseExpr()
	if err != nil {
		return nil, err
	}
	if !p.isOp(")") {
		return nil, p.errf("function calls must have exactly one argument")
	}
	p.i++
	if err := p.requireJSONB(arg, "function "+name); err != nil {
		return nil, err
	}
	switch name {
	case "jsonb_typeof":
		return &expr{k: eTypeof, t: tyText, args: []*expr{arg}}, nil
	case "jsonb_array_length":
		return &expr{k: eArrLen, t: tyInt, args: []*expr{arg}}, nil
	}
	p.calls = append(p.calls, name)
	return &expr{k: eCall, t: tyBool, name: name, args: []*expr{arg}}, nil
}

// parseSub parses `SELECT bool_and(arg) FROM srf(src))`; the opening
// parenthesis is consumed. The FROM clause is read first because it decides
// which columns (key, value) the aggregate argument sees.
func (p *parser) parseSub() (*expr, error) {
	const shape = "only (SELECT bool_and(expr) FROM jsonb_each(expr) | jsonb_array_elements(expr)) is supported"
	p.i++ // select
	if !p.acceptKw("bool_and") || !p.acceptOp("(") {
		return nil, p.errf(shape)
	}
	argStart := p.i
	for depth := 1; depth > 0; p.i++ {
		switch t := p.peek(); {
		case t.k == tEOF:
			return nil, p.errf("unbalanced parenthesis in bool_and(")
		case t.k == tOp && t.s == "(":
			depth++
		case t.k == tOp && t.s == ")":
			depth--
		}
	}
	argEnd := p.i - 1
	if !p.acceptKw("from") {
		return nil, p.errf(shape)
	}
	srf := p.peek().s
	if !p.acceptKw("jsonb_each") && !p.acceptKw("jsonb_array_elements") || !p.acceptOp("(") {
		return nil, p.errf(shape)
	}
	src, err := p.parseExpr()
	if err != nil {
		return nil, err
	}
	if err := p.requireJSONB(src, "function "+srf); err != nil {
		return nil, err
	}
	if !p.acceptOp(")") || !p.acceptOp(")") {
		return nil, p.errf(shape)
	}
	after := p.i
	cols := map[string]typ{"value": tyJSONB}
	if srf == "jsonb_each" {
		cols["key"] = tyText
	}
	p.cols = append(p.cols, cols)
	p.i = argStart
	arg, err := p.parseExpr()
	p.cols = p.cols[:len(p.cols)-1]
	if err != nil {
		return nil, err
	}
	if p.i != argEnd {
		return nil, p.errf("bool_and takes exactly one argument")
	}
	switch {
	case arg.isNullLit():
		arg.t = tyBool
	case arg.t == tyUnknown && p.static == nil:
		return nil, p.errf("bool_and of an untyped string literal is not supported")
	case arg.t != tyBool:
		p.setStatic("42883", "function bool_and(%s) does not exist", arg.t)
	}
	p.i = after
	return &expr{k: eSub, t: tyBool, name: srf, args: []*expr{arg, src}}, nil
}

// resolve binds an unqualified name. A name that is both a column of an
// enclosing sub-select and a PL/pgSQL variable is ambiguous
// (plpgsql.variable_conflict = error, the default).
func (p *parser) resolve(name string) *expr {
	for i := len(p.cols) - 1; i >= 0; i-- {
		if t, ok := p.cols[i][name]; ok {
			if _, amb := p.vars[name]; amb {
				p.setStatic("42702", "column reference %q is ambiguous", name)
			}
			return &expr{k: eCol, t: t, name: name}
		}
	}
	if t, ok := p.vars[name]; ok {
		return &expr{k: eVar, t: t, name: name}
	}
	p.setStatic("42703", "column %q does not exist", name)
	return &expr{k: eLit, t: tyUnknown}
}

// ------------------------------------------------------------ static typing
// Once a static (parse analysis) error is recorded for the current top-level
// expression, its value can never be computed, so later checks are skipped.

func (p *parser) requireJSONB(e *expr, what string) error {
	switch {
	case e.t == tyJSONB, p.static != nil:
	case e.isNullLit():
		e.t = tyJSONB
	case e.t == tyUnknown:
		return p.errf("%s applied to an untyped string literal is not supported", what)
	default:
		p.setStatic("42883", "%s does not exist for an argument of type %s", what, e.t)
	}
	return nil
}

func (p *parser) mkLogic(k ekind, name string, args ...*expr) (*expr, error) {
	for _, a := range args {
		switch {
		case a.t == tyBool, p.static != nil:
		case a.isNullLit():
			a.t = tyBool
		case a.t == tyUnknown:
			return nil, p.errf("untyped string literal as argument of %s is not supported", name)
		default:
			p.setStatic("42804", "argument of %s must be type boolean, not type %s", name, a.t)
		}
	}
	return &expr{k: k, t: tyBool, args: args}, nil
}

// unify gives the operands of `=`, `<>` or IN (es[0] is the left operand) a
// common type, as select_common_type does, and converts untyped literals to
// it. Differing resolved types have no equality operator in this subset.
func (p *parser) unify(es []*expr) error {
	if p.static != nil {
		return nil
	}
	common := tyUnknown
	for _, e := range es {
		switch {
		case e.t == tyUnknown || e.t == common:
		case common == tyUnknown:
			common = e.t
		default:
			p.setStatic("42883", "operator does not exist: %s = %s", common, e.t)
			return nil
		}
	}
	switch common {
	case tyUnknown:
		common = tyText
	case tyJSONB:
		return p.errf("comparison of jsonb values is not supported")
	}
	for _, e := range es {
		if e.t != tyUnknown {
			continue
		}
		switch {
		case e.isNullLit() || common == tyText:
			e.t = common
		case common == tyInt:
			n, err := strconv.ParseInt(strings.Trim(e.val.s, " \t\n\r\f\v"), 10, 64)
			if err != nil {
				p.setStatic("22P02", "invalid input syntax for type integer: %q", e.val.s)
				return nil
			}
			e.t, e.val = tyInt, value{k: vInt, i: n}
		default:
			return p.errf("conversion of the literal '%s' to %s is not supported", e.val.s, common)
		}
	}
	return nil
}
