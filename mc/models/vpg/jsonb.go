package vpg

import (
	"encoding/json"
	"fmt"
	"sort"
	"strconv"
	"strings"
)

// checkDoc verifies that doc is a JSON value in the encoding/json + UseNumber
// representation and that PostgreSQL's jsonb can hold it.
func checkDoc(doc any) error {
	switch d := doc.(type) {
	case nil, bool:
	case string:
		if strings.ContainsRune(d, 0) {
			return &PgError{"22P05", "unsupported Unicode escape sequence: \\u0000 cannot be converted to text"}
		}
	case json.Number:
		n, ok := splitNumber(string(d))
		if !ok {
			return fmt.Errorf("vpg: %q is not a JSON number", string(d))
		}
		if n.digits != "" && (n.point > 131072 || len(n.digits)-n.point > 16383) {
			return &PgError{"22003", "value overflows numeric format"}
		}
	case []any:
		for _, e := range d {
			if err := checkDoc(e); err != nil {
				return err
			}
		}
	case map[string]any:
		for k, e := range d {
			if err := checkDoc(k); err != nil {
				return err
			}
			if err := checkDoc(e); err != nil {
				return err
			}
		}
	default:
		return fmt.Errorf("vpg: unsupported document value of type %T (want the encoding/json UseNumber representation)", doc)
	}
	return nil
}

// sortedKeys returns the keys in jsonb's storage order: shorter keys first,
// then bytewise.
func sortedKeys(m map[string]any) []string {
	keys := make([]string, 0, len(m))
	for k := range m {
		keys = append(keys, k)
	}
	sort.Slice(keys, func(i, j int) bool {
		if len(keys[i]) != len(keys[j]) {
			return len(keys[i]) < len(keys[j])
		}
		return keys[i] < keys[j]
	})
	return keys
}

// jsonToText is the conversion done by ->> and #>>: JSON null gives SQL NULL,
// a string gives its content, anything else its jsonb text form.
func jsonToText(j any) value {
	switch j := j.(type) {
	case nil:
		return value{}
	case string:
		return value{k: vText, s: j}
	}
	var sb strings.Builder
	writeJSONB(&sb, j)
	return value{k: vText, s: sb.String()}
}

// writeJSONB renders a value the way jsonb's output function does.
func writeJSONB(sb *strings.Builder, j any) {
	switch j := j.(type) {
	case nil:
		sb.WriteString("null")
	case bool:
		sb.WriteString(strconv.FormatBool(j))
	case json.Number:
		sb.WriteString(numericText(string(j)))
	case string:
		sb.WriteByte('"')
		for _, r := range j {
			switch r {
			case '"', '\\':
				sb.WriteByte('\\')
				sb.WriteRune(r)
			case '\b':
				sb.WriteString(`\b`)
			case '\f':
				sb.WriteString(`\f`)
			case '\n':
				sb.WriteString(`\n`)
			case '\r':
				sb.WriteString(`\r`)
			case '\t':
				sb.WriteString(`\t`)
			default:
				if r < 0x20 {
					fmt.Fprintf(sb, `\u%04x`, r)
				} else {
					sb.WriteRune(r)
				}
			}
		}
		sb.WriteByte('"')
	case []any:
		sb.WriteByte('[')
		for i, e := range j {
			if i > 0 {
				sb.WriteString(", ")
			}
			writeJSONB(sb, e)
		}
		sb.WriteByte(']')
	case map[string]any:
		sb.WriteByte('{')
		for i, k := range sortedKeys(j) {
			if i > 0 {
				sb.WriteString(", ")
			}
			writeJSONB(sb, k)
			sb.WriteString(": ")
			writeJSONB(sb, j[k])
		}
		sb.WriteByte('}')
	}
}

// number is a decimal number: ±0.digits × 10^point, digits without leading
// zeros ("" for zero); frac is the count of fractional digits PostgreSQL's
// numeric keeps for display.
type number struct {
	neg    bool
	digits string
	point  int
	frac   int
}

// splitNumber parses a JSON number literal.
func splitNumber(s string) (n number, ok bool) {
	rest := s
	if strings.HasPrefix(rest, "-") {
		n.neg, rest = true, rest[1:]
	}
	exp := 0
	if i := strings.IndexAny(rest, "eE"); i >= 0 {
		v, err := strconv.ParseInt(rest[i+1:], 10, 64)
		if ne, isNum := err.(*strconv.NumError); err != nil && !(isNum && ne.Err == strconv.ErrRange) {
			return n, false
		}
		const huge = 100000000 // clamped: far beyond what numeric accepts, far from int overflow
		exp, rest = int(max(-huge, min(huge, v))), rest[:i]
	}
	ip, fp, hasFrac := strings.Cut(rest, ".")
	if ip == "" || (hasFrac && fp == "") || (len(ip) > 1 && ip[0] == '0') || strings.Trim(ip+fp, "0123456789") != "" {
		return n, false
	}
	n.point = len(ip) + exp
	if n.frac = len(fp) - exp; n.frac < 0 {
		n.frac = 0
	}
	all := ip + fp
	n.digits = strings.TrimLeft(all, "0")
	n.point -= len(all) - len(n.digits)
	if n.digits == "" {
		n.neg, n.point = false, 0
	}
	return n, true
}

// numericText renders a JSON number as PostgreSQL's numeric type prints it:
// no exponent, the written fractional digits kept (1.50 stays 1.50, 1e2 is 100).
func numericText(s string) string {
	n, ok := splitNumber(s)
	if !ok {
		return s
	}
	ip, fp := "0", ""
	switch {
	case n.digits == "":
	case n.point <= 0:
		fp = strings.Repeat("0", -n.point) + n.digits
	case n.point >= len(n.digits):
		ip = n.digits + strings.Repeat("0", n.point-len(n.digits))
	default:
		ip, fp = n.digits[:n.point], n.digits[n.point:]
	}
	if len(fp) < n.frac {
		fp += strings.Repeat("0", n.frac-len(fp))
	}
	out := ip
	if n.frac > 0 {
		out += "." + fp[:n.frac]
	}
	if n.neg {
		out = "-" + out
	}
	return out
}

// numberToInt4 is the jsonb → numeric → int4 cast: round half away from zero,
// ok is false when the result is out of the int4 range.
func numberToInt4(s string) (int64, bool) {
	n, ok := splitNumber(s)
	if !ok || n.point > 10 {
		return 0, false
	}
	var v int64
	if n.point >= 0 && n.digits != "" {
		ip := n.digits
		if n.point < len(ip) {
			ip = ip[:n.point]
		} else {
			ip += strings.Repeat("0", n.point-len(ip))
		}
		if ip != "" {
			v, _ = strconv.ParseInt(ip, 10, 64)
		}
		if n.point < len(n.digits) && n.digits[n.point] >= '5' {
			v++
		}
	}
	if n.neg {
		v = -v
	}
	return v, v >= -1<<31 && v < 1<<31
}
