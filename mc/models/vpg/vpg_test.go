package vpg

import (
	"encoding/json"
	"errors"
	"fmt"
	"strings"
	"testing"
)

// fn wraps a PL/pgSQL body the way the generator does.
func fn(name, body string) string {
	return fmt.Sprintf("CREATE OR REPLACE FUNCTION %s (data jsonb)\n RETURNS boolean\n AS $$\n%s\n$$\nLANGUAGE 'plpgsql'\nIMMUTABLE;\n", name, body)
}

func mustParse(t *testing.T, sql string) *Script {
	t.Helper()
	s, err := ParseScript(sql)
	if err != nil {
		t.Fatalf("ParseScript: %v\n%s", err, sql)
	}
	return s
}

// js decodes a JSON text as the checker does; "SQLNULL" is the SQL NULL.
func js(t *testing.T, text string) any {
	t.Helper()
	if text == "SQLNULL" {
		return SQLNull
	}
	dec := json.NewDecoder(strings.NewReader(text))
	dec.UseNumber()
	var v any
	if err := dec.Decode(&v); err != nil {
		t.Fatalf("bad JSON %q: %v", text, err)
	}
	return v
}

// outcome renders a result as T, F, N or E:<sqlstate> (E:undefined for
// ErrUndefinedFunction, E:? for any other error).
func outcome(tri Tri, err error) string {
	var pe *PgError
	switch {
	case errors.As(err, &pe):
		return "E:" + pe.State
	case errors.Is(err, ErrUndefinedFunction):
		return "E:undefined"
	case err != nil:
		return "E:? " + err.Error()
	}
	return map[Tri]string{True: "T", False: "F", Null: "N"}[tri]
}

type evalCase struct{ expr, doc, want string }

// runExprs evaluates each boolean expression as `RETURN expr;` on its document.
func runExprs(t *testing.T, prelude string, cases []evalCase) {
	t.Helper()
	for _, c := range cases {
		s := mustParse(t, prelude+fn("f", "BEGIN RETURN "+c.expr+"; END;"))
		if got := outcome(s.Call("f", js(t, c.doc))); got != c.want {
			t.Errorf("%s on %s: got %s, want %s", c.expr, c.doc, got, c.want)
		}
	}
}

func TestJSONOperators(t *testing.T) {
	runExprs(t, "", []evalCase{
		// jsonb_typeof
		{`jsonb_typeof(data) = 'object'`, `{}`, "T"},
		{`jsonb_typeof(data) = 'array'`, `[]`, "T"},
		{`jsonb_typeof(data) = 'string'`, `"x"`, "T"},
		{`jsonb_typeof(data) = 'number'`, `1.5e3`, "T"},
		{`jsonb_typeof(data) = 'boolean'`, `false`, "T"},
		{`jsonb_typeof(data) = 'null'`, `null`, "T"},
		{`jsonb_typeof(data) = 'null'`, `SQLNULL`, "N"},
		{`jsonb_typeof(data) != 'object'`, `SQLNULL`, "N"},
		{`jsonb_typeof(data) <> 'object'`, `[]`, "T"},
		{`JSONB_TYPEOF(Data) = 'object'`, `{}`, "T"}, // identifiers fold to lower case
		// ->
		{`jsonb_typeof(data->'a') = 'number'`, `{"a":1}`, "T"},
		{`jsonb_typeof(data->'a') = 'null'`, `{"a":null}`, "T"},
		{`jsonb_typeof(data->'a') = 'number'`, `{"b":1}`, "N"},
		{`jsonb_typeof(data->'a') = 'number'`, `[1]`, "N"},
		{`jsonb_typeof(data->'a') = 'number'`, `"a"`, "N"},
		{`jsonb_typeof(data->'a') = 'number'`, `SQLNULL`, "N"},
		{`jsonb_typeof(data->'a'->'b') = 'string'`, `{"a":{"b":"x"}}`, "T"},
		{`jsonb_typeof(data->'A') = 'number'`, `{"a":1}`, "N"}, // keys are case sensitive
		// ->>
		{`data->>'a' = 'x'`, `{"a":"x"}`, "T"},
		{`data->>'a' = 'x'`, `{"a":"y"}`, "F"},
		{`data->>'a' = 'x'`, `{"a":null}`, "N"},
		{`data->>'a' = 'x'`, `{}`, "N"},
		{`data->>'a' = 'x'`, `[]`, "N"},
		{`data->>'a' = '1'`, `{"a":1}`, "T"},
		{`data->>'a' = '"x"'`, `{"a":"x"}`, "F"}, // strings are unquoted
		{`data->>'a' = '1.50'`, `{"a":1.50}`, "T"},
		{`data->>'a' = '100'`, `{"a":1e2}`, "T"},
		{`data->>'a' = '0.012'`, `{"a":1.2E-2}`, "T"},
		{`data->>'a' = 'true'`, `{"a":true}`, "T"},
		{`data->>'a' = '{"b": [1, "q\"\n"], "aa": null}'`, `{"a":{"aa":null,"b":[1,"q\"\n"]}}`, "T"}, // jsonb output escapes the line feed as backslash n, which the SQL literal spells out
		{`data->>'a' = '{"b": [1, "q\""], "aa": null}'`, `{"a":{"aa":null,"b":[1,"q\""]}}`, "T"},
		// #>>'{}'
		{`data#>>'{}' = 'x'`, `"x"`, "T"},
		{`data#>>'{}' = 'x'`, `null`, "N"},
		{`data#>>'{}' = 'x'`, `SQLNULL`, "N"},
		{`data#>>'{}' = '3'`, `3`, "T"},
		{`data#>>'{}' = 'false'`, `false`, "T"},
		{`data#>>'{}' = '0'`, `-0`, "T"},
		{`data#>>'{}' = '0.00'`, `-0.00`, "T"},
		{`data#>>'{}' = '-12.5'`, `-1.25e1`, "T"},
		{`data#>>'{}' = '1200'`, `1.2E+3`, "T"},
		{`data#>>'{}' = '[1, 2]'`, `[1,2]`, "T"},
		{`data #>> '{}' IN ('a', 'b')`, `"b"`, "T"},
		// ::int
		{`data::int = 3`, `3`, "T"},
		{`data::int = 3`, `2.5`, "T"}, // numeric rounds half away from zero
		{`data::int = -3`, `-2.5`, "T"},
		{`data::int = 2`, `2.4999`, "T"},
		{`data::int = 0`, `-0.4`, "T"},
		{`data::int = 100`, `1e2`, "T"},
		{`data::int = 0`, `1e-9`, "T"},
		{`data::integer = 2147483647`, `2147483647.4`, "T"},
		{`data::int = 0`, `2147483647.5`, "E:22003"},
		{`data::int = 0`, `-2147483648.5`, "E:22003"},
		{`data::int = -2147483648`, `-2147483648.4`, "T"},
		{`data::int = 0`, `1e300`, "E:22003"},
		{`data::int = 3`, `"3"`, "E:22023"},
		{`data::int = 3`, `true`, "E:22023"},
		{`data::int = 3`, `null`, "E:22023"},
		{`data::int = 3`, `[3]`, "E:22023"},
		{`data::int = 3`, `{}`, "E:22023"},
		{`data::int = 3`, `SQLNULL`, "N"},
		{`(data->'a')::int = 3`, `{"a":3}`, "T"},
		{`(data->'a')::int = 3`, `{}`, "N"},
		// jsonb_array_length
		{`jsonb_array_length(data) = 2`, `[1,[2,3]]`, "T"},
		{`jsonb_array_length(data) = 0`, `[]`, "T"},
		{`jsonb_array_length(data) = 0`, `SQLNULL`, "N"},
		{`jsonb_array_length(data) = 0`, `{}`, "E:22023"},
		{`jsonb_array_length(data) = 0`, `null`, "E:22023"},
		{`jsonb_array_length(data) = 0`, `"ab"`, "E:22023"},
	})
}

func TestCastMessagesAndPG18(t *testing.T) {
	s := mustParse(t, fn("f", "BEGIN RETURN data::int = 1; END;"))
	for doc, msg := range map[string]string{
		`"1"`: "cannot cast jsonb string to type integer", `null`: "cannot cast jsonb null to type integer",
		`true`: "cannot cast jsonb boolean to type integer", `[]`: "cannot cast jsonb array or object to type integer",
	} {
		if _, err := s.Call("f", js(t, doc)); err == nil || !strings.Contains(err.Error(), msg) {
			t.Errorf("%s: got %v, want %q", doc, err, msg)
		}
	}
	s.NullCastsToNull = true
	if got := outcome(s.Call("f", nil)); got != "N" {
		t.Errorf("PostgreSQL 18 null cast: got %s", got)
	}
	if got := outcome(s.Call("f", "1")); got != "E:22023" {
		t.Errorf("PostgreSQL 18 string cast: got %s", got)
	}
}

func TestComparisonAndIn(t *testing.T) {
	runExprs(t, "", []evalCase{
		{`data::int IN (0, 1, 2, 4)`, `4`, "T"},
		{`data::int IN (0, 1, 2, 4)`, `3`, "F"},
		{`data::int IN (-1, 1)`, `-1`, "T"},
		{`data::int IN (0, 1)`, `SQLNULL`, "N"},
		{`data::int IN (1, NULL)`, `1`, "T"},
		{`data::int IN (1, NULL)`, `2`, "N"},
		{`data::int IN (NULL)`, `2`, "N"},
		{`data::int = NULL`, `2`, "N"},
		{`data::int != NULL`, `2`, "N"},
		{`NULL = NULL`, `2`, "N"},
		{`data::int != 2`, `2`, "F"},
		{`data::int <> 2`, `3`, "T"},
		{`data#>>'{}' IN ('a', 'b')`, `"c"`, "F"},
		{`data#>>'{}' IN ('a', NULL)`, `"c"`, "N"},
		{`data#>>'{}' IN ('a', 'b')`, `null`, "N"},
		{`'a' = 'a'`, `0`, "T"},
		{`'a' IN ('b', 'a')`, `0`, "T"},
		{`TRUE = FALSE`, `0`, "F"},
		{`(data::int = 1) IN (TRUE)`, `1`, "T"},
		// an untyped quoted literal is converted to the other side's type ...
		{`data::int IN ('1', ' 2 ')`, `2`, "T"},
		{`data::int = '+3'`, `3`, "T"},
		// ... or fails during parse analysis, short-circuit or not
		{`data::int IN ('a', 'b')`, `1`, "E:22P02"},
		{`data::int = '1.0'`, `1`, "E:22P02"},
		{`FALSE AND data::int IN ('a')`, `1`, "E:22P02"},
		// resolved types that differ have no equality operator: also parse analysis
		{`data#>>'{}' IN (1, 2)`, `"1"`, "E:42883"},
		{`data#>>'{}' = 1`, `"1"`, "E:42883"},
		{`jsonb_typeof(data) = 'number' AND data#>>'{}' IN (1, 2)`, `"x"`, "E:42883"},
		{`data::int IN (1, data#>>'{}')`, `1`, "E:42883"},
		{`data::int = TRUE`, `1`, "E:42883"},
		{`data = 1`, `1`, "E:42883"},
		{`jsonb_typeof(data#>>'{}') = 'x'`, `1`, "E:42883"},
		{`data#>>'{}'->'a' = 'x'`, `1`, "E:42883"},
		{`f(data::int)`, `1`, "E:42883"},
		{`data::int AND TRUE`, `1`, "E:42804"},
		{`NOT jsonb_typeof(data)`, `1`, "E:42804"},
		{`nosuch = 1`, `1`, "E:42703"},
		{`TRUE OR nosuch`, `1`, "E:42703"},
		{`key = 'a'`, `1`, "E:42703"},
	})
}

func TestKleeneLogicAndShortCircuit(t *testing.T) {
	vals := map[string]Tri{"TRUE": True, "FALSE": False, "NULL": Null}
	and := func(a, b Tri) Tri {
		switch {
		case a == False || b == False:
			return False
		case a == Null || b == Null:
			return Null
		}
		return True
	}
	not := func(a Tri) Tri { return map[Tri]Tri{True: False, False: True, Null: Null}[a] }
	var cases []evalCase
	str := func(t Tri) string { return outcome(t, nil) }
	for a, av := range vals {
		cases = append(cases, evalCase{"NOT " + a, `0`, str(not(av))})
		for b, bv := range vals {
			cases = append(cases, evalCase{a + " AND " + b, `0`, str(and(av, bv))},
				evalCase{a + " OR " + b, `0`, str(not(and(not(av), not(bv))))})
		}
	}
	runExprs(t, "", cases)
	runExprs(t, "", []evalCase{ // the document "x" makes data::int raise
		{`FALSE AND data::int = 1`, `"x"`, "F"},
		{`TRUE OR data::int = 1`, `"x"`, "T"},
		{`jsonb_typeof(data) = 'number' AND data::int IN (0, 1)`, `"x"`, "F"},
		{`data::int = 1 AND FALSE`, `"x"`, "E:22023"},
		{`NULL AND data::int = 1`, `"x"`, "E:22023"},
		{`NULL OR data::int = 1`, `"x"`, "E:22023"},
		{`TRUE AND data::int = 1`, `"x"`, "E:22023"},
		{`TRUE AND TRUE AND FALSE AND data::int = 1`, `"x"`, "F"},
		{`FALSE OR NULL OR TRUE OR data::int = 1`, `"x"`, "T"},
		// precedence: NOT below =, AND above OR
		{`NOT data::int = 1`, `2`, "T"},
		{`TRUE OR FALSE AND FALSE`, `0`, "T"},
		{`(TRUE OR FALSE) AND FALSE`, `0`, "F"},
		{`NOT TRUE OR TRUE`, `0`, "T"},
	})
}

func TestBoolAnd(t *testing.T) {
	prelude := fn("isnum", "BEGIN RETURN jsonb_typeof(data) = 'number'; END;") +
		fn("isint", "BEGIN RETURN data::int = data::int; END;") +
		fn("nul", "BEGIN RETURN NULL; END;")
	runExprs(t, prelude, []evalCase{
		{`(SELECT bool_and( isnum(value) ) FROM jsonb_array_elements(data))`, `[1,2]`, "T"},
		{`(SELECT bool_and(isnum(value)) FROM jsonb_array_elements(data))`, `[1,"a",2]`, "F"},
		{`(SELECT bool_and(isnum(value)) FROM jsonb_array_elements(data))`, `[]`, "N"},
		{`(SELECT bool_and(isnum(value)) FROM jsonb_array_elements(data))`, `SQLNULL`, "N"},
		{`(SELECT bool_and(isnum(value)) FROM jsonb_array_elements(data))`, `{}`, "E:22023"},
		{`(SELECT bool_and(isnum(value)) FROM jsonb_array_elements(data))`, `null`, "E:22023"},
		{`(SELECT bool_and(isnum(value)) FROM jsonb_array_elements(data))`, `1`, "E:22023"},
		{`(SELECT bool_and(nul(value)) FROM jsonb_array_elements(data))`, `[1,2]`, "N"}, // NULL inputs are ignored
		{`(SELECT bool_and(nul(value) OR isnum(value)) FROM jsonb_array_elements(data))`, `[1,"a"]`, "T"},
		{`(SELECT bool_and(nul(value) AND isnum(value)) FROM jsonb_array_elements(data))`, `[1,"a"]`, "F"},
		{`(SELECT bool_and(isint(value)) FROM jsonb_array_elements(data))`, `["a",1]`, "E:22023"}, // every row is evaluated
		{`(SELECT bool_and(isint(value)) FROM jsonb_array_elements(data))`, `[1,"a"]`, "E:22023"},
		{`(SELECT bool_and(isnum(value)) FROM jsonb_each(data))`, `{"a":1,"b":2}`, "T"},
		{`(SELECT bool_and(isnum(value)) FROM jsonb_each(data))`, `{"a":1,"b":null}`, "F"},
		{`(SELECT bool_and(isnum(value)) FROM jsonb_each(data))`, `{}`, "N"},
		{`(SELECT bool_and(isnum(value)) FROM jsonb_each(data))`, `SQLNULL`, "N"},
		{`(SELECT bool_and(isnum(value)) FROM jsonb_each(data))`, `[]`, "E:22023"},
		{`(SELECT bool_and(isnum(value)) FROM jsonb_each(data))`, `"s"`, "E:22023"},
		{`(SELECT bool_and(key IN ('a', 'b')) FROM jsonb_each(data))`, `{"a":1,"b":2}`, "T"},
		{`(SELECT bool_and(key IN ('a', 'b')) FROM jsonb_each(data))`, `{"a":1,"c":2}`, "F"},
		{`(SELECT bool_and(TRUE) FROM jsonb_each(data->'m'))`, `{"m":{"x":1}}`, "T"},
		{`(SELECT bool_and(TRUE) FROM jsonb_each(data->'m'))`, `{}`, "N"},
		{`(SELECT bool_and(NULL) FROM jsonb_each(data))`, `{"a":1}`, "N"},
		{`(SELECT bool_and(key) FROM jsonb_each(data))`, `{"a":1}`, "E:42883"},
		{`(SELECT bool_and(key = 'a') FROM jsonb_array_elements(data))`, `[1]`, "E:42703"},
		// nested: the inner rows shadow the outer ones, the FROM argument sees the outer row
		{`(SELECT bool_and((SELECT bool_and(isnum(value)) FROM jsonb_array_elements(value))) FROM jsonb_each(data))`, `{"a":[1],"b":[2,3]}`, "T"},
		{`(SELECT bool_and((SELECT bool_and(isnum(value)) FROM jsonb_array_elements(value))) FROM jsonb_each(data))`, `{"a":[1],"b":[2,"x"]}`, "F"},
		{`jsonb_typeof(data) = 'object' AND (SELECT bool_and(isnum(value)) FROM jsonb_each(data))`, `[1]`, "F"}, // guard first
		{`(SELECT bool_and(isnum(value)) FROM jsonb_each(data)) AND jsonb_typeof(data) = 'object'`, `[1]`, "E:22023"},
	})
}
