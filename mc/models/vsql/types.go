package vsql

import (
	"bytes"
	"database/sql/driver"
	"encoding/hex"
	"encoding/json"
	"fmt"
	"io"
	"math"
	"math/big"
	"sort"
	"strconv"
	"strings"
	"time"
	"unicode/utf8"
)

type kind uint8

const (
	kBool kind = iota
	kInt2
	kInt4
	kReal
	kText
	kTimestamptz
	kDate
	kBytea
	kJSONB
	kArray
	kComposite
)

// sqlType is a column type. Stored (canonical, immutable) Go values are:
// bool | int64 | float64 (float32-rounded) | string (text) | time.Time (UTC) |
// []byte (bytea) | jsonText (normalised jsonb) | []any (array elements or composite fields) | nil (NULL).
type sqlType struct {
	kind   kind
	text   string // canonical SQL text, e.g. "integer[]"
	prec   int    // kTimestamptz: fractional digits kept
	elem   *sqlType
	fields []compField
}

type compField struct {
	name string
	typ  *sqlType
}

type jsonText string

var basicTypes = map[string]*sqlType{
	"boolean":  {kind: kBool, text: "boolean"},
	"smallint": {kind: kInt2, text: "smallint"},
	"integer":  {kind: kInt4, text: "integer"},
	"real":     {kind: kReal, text: "real"},
	"text":     {kind: kText, text: "text"},
	"date":     {kind: kDate, text: "date"},
	"bytea":    {kind: kBytea, text: "bytea"},
	"jsonb":    {kind: kJSONB, text: "jsonb"},
}

// ---------------------------------------------------------------- input

// pqText is the text lib/pq sends for a driver.Value bound to a non-bytea parameter.
// In COPY mode lib/pq hex-encodes every []byte, whatever the column type.
func pqText(v driver.Value, copyMode bool) string {
	switch v := v.(type) {
	case int64:
		return strconv.FormatInt(v, 10)
	case float64:
		return strconv.FormatFloat(v, 'f', -1, 64)
	case bool:
		return strconv.FormatBool(v)
	case []byte:
		if copyMode {
			return `\x` + hex.EncodeToString(v)
		}
		return string(v)
	case string:
		return v
	case time.Time:
		return v.Format("2006-01-02 15:04:05.999999999Z07:00")
	}
	return fmt.Sprint(v)
}

// fromDriver converts an argument received from database/sql into the stored value
// for type t, as PostgreSQL's input conversion of lib/pq's encoding would.
func (t *sqlType) fromDriver(v driver.Value, copyMode bool) (any, error) {
	switch v := v.(type) {
	case nil:
		return nil, nil
	case int64, float64, bool, string:
	case []byte:
		if t.kind == kBytea { // sent hex-encoded: any byte sequence is valid
			return bytes.Clone(v), nil
		}
	case time.Time:
		if t.kind == kTimestamptz {
			return roundTimestamp(v, t.prec), nil
		} else if t.kind == kDate {
			y, m, d := v.Date()
			return time.Date(y, m, d, 0, 0, 0, 0, time.UTC), nil
		}
	default:
		return nil, fmt.Errorf("unsupported driver value %T", v)
	}
	return t.parse(pqText(v, copyMode))
}

func syntaxErr(t *sqlType, s string) error {
	return fmt.Errorf("invalid input syntax for type %s: %q", t.text, s)
}

// parse is the text input function of the type.
func (t *sqlType) parse(s string) (any, error) {
	if !utf8.ValidString(s) || strings.IndexByte(s, 0) >= 0 {
		return nil, fmt.Errorf("invalid byte sequence for encoding \"UTF8\" in %q", s)
	}
	switch t.kind {
	case kBool:
		switch strings.ToLower(strings.TrimSpace(s)) {
		case "t", "true", "y", "yes", "on", "1":
			return true, nil
		case "f", "false", "n", "no", "off", "0":
			return false, nil
		}
	case kInt2, kInt4:
		n, err := strconv.ParseInt(strings.TrimSpace(s), 10, 64)
		if err != nil && err.(*strconv.NumError).Err != strconv.ErrRange {
			break
		}
		bits := 31
		if t.kind == kInt2 {
			bits = 15
		}
		if err != nil || n < -(1<<bits) || n >= 1<<bits {
			return nil, fmt.Errorf("value %q is out of range for type %s", s, t.text)
		}
		return n, nil
	case kReal:
		f, err := strconv.ParseFloat(strings.TrimSpace(s), 32)
		if err != nil && err.(*strconv.NumError).Err == strconv.ErrRange {
			return nil, fmt.Errorf("%q is out of range for type real", s)
		} else if err == nil && !strings.ContainsAny(s, "xX_pP") {
			return float64(float32(f)), nil
		}
	case kText:
		return s, nil
	case kTimestamptz, kDate:
		for _, layout := range []string{
			"2006-01-02 15:04:05.999999999Z07:00", "2006-01-02T15:04:05.999999999Z07:00",
			"2006-01-02 15:04:05.999999999Z07", "2006-01-02 15:04:05.999999999", "2006-01-02",
		} {
			ts, err := time.Parse(layout, strings.TrimSpace(s)) // no zone: session time zone, taken as UTC
			if err != nil {
				continue
			}
			if t.kind == kDate {
				y, m, d := ts.Date()
				return time.Date(y, m, d, 0, 0, 0, 0, time.UTC), nil
			}
			return roundTimestamp(ts, t.prec), nil
		}
	case kBytea:
		if b, ok := parseBytea(s); ok {
			return b, nil
		}
	case kJSONB:
		return normalizeJSON(s)
	case kArray:
		elems, err := splitArray(s)
		if err != nil {
			return nil, fmt.Errorf("malformed array literal %q: %v", s, err)
		}
		out := make([]any, len(elems))
		for i, e := range elems {
			if e != nil {
				if out[i], err = t.elem.parse(*e); err != nil {
					return nil, err
				}
			}
		}
		return out, nil
	case kComposite:
		fields, err := splitRecord(s)
		if err != nil {
			return nil, fmt.Errorf("malformed record literal %q: %v", s, err)
		} else if len(fields) != len(t.fields) {
			return nil, fmt.Errorf("malformed record literal %q: %d fields, type %s has %d", s, len(fields), t.text, len(t.fields))
		}
		out := make([]any, len(fields))
		for i, f := range fields {
			if f != nil {
				if out[i], err = t.fields[i].typ.parse(*f); err != nil {
					return nil, err
				}
			}
		}
		return out, nil
	}
	return nil, syntaxErr(t, s)
}

var pgEpoch = time.Date(2000, 1, 1, 0, 0, 0, 0, time.UTC).Unix()

// roundTimestamp rounds to `prec` fractional digits the way PostgreSQL does on its
// int64 microseconds-since-2000 representation (half away from zero).
func roundTimestamp(t time.Time, prec int) time.Time {
	us := (t.Unix()-pgEpoch)*1e6 + int64(t.Nanosecond()+500)/1000
	scale := int64(math.Pow10(6 - prec))
	if us >= 0 {
		us = (us + scale/2) / scale * scale
	} else {
		us = -((-us + scale/2) / scale * scale)
	}
	sec, rem := us/1e6, us%1e6
	return time.Unix(sec+pgEpoch, rem*1000).UTC()
}

// parseBytea implements bytea text input (hex and escape formats).
func parseBytea(s string) ([]byte, bool) {
	if strings.HasPrefix(s, `\x`) {
		b, err := hex.DecodeString(strings.Map(func(r rune) rune {
			if r == ' ' || r == '\n' || r == '\t' {
				return -1
			}
			return r
		}, s[2:]))
		return b, err == nil
	}
	out := make([]byte, 0, len(s))
	for i := 0; i < len(s); i++ {
		switch {
		case s[i] != '\\':
			out = append(out, s[i])
		case strings.HasPrefix(s[i:], `\\`):
			out = append(out, '\\')
			i++
		default:
			if i+3 >= len(s) {
				return nil, false
			}
			n, err := strconv.ParseUint(s[i+1:i+4], 8, 8)
			if err != nil {
				return nil, false
			}
			out = append(out, byte(n))
			i += 3
		}
	}
	return out, true
}

func isSpace(c byte) bool { return c == ' ' || c == '\t' || c == '\n' || c == '\r' }

// splitArray splits a one-dimensional array literal; nil entries are NULL elements.
func splitArray(s string) ([]*string, error) {
	s = strings.TrimSpace(s)
	if len(s) < 2 || s[0] != '{' || s[len(s)-1] != '}' {
		return nil, fmt.Errorf("array value must start with \"{\" and end with \"}\"")
	}
	s = s[1 : len(s)-1]
	if strings.TrimSpace(s) == "" {
		return []*string{}, nil
	}
	var out []*string
	for i := 0; ; {
		for i < len(s) && isSpace(s[i]) {
			i++
		}
		var sb strings.Builder
		quoted := false
		if i < len(s) && s[i] == '"' {
			quoted = true
			for i++; ; i++ {
				if i >= len(s) {
					return nil, fmt.Errorf("unterminated quoted element")
				}
				if s[i] == '"' {
					break
				}
				if s[i] == '\\' {
					if i++; i >= len(s) {
						return nil, fmt.Errorf("dangling backslash")
					}
				}
				sb.WriteByte(s[i])
			}
			for i++; i < len(s) && isSpace(s[i]); i++ {
			}
		} else {
			for ; i < len(s) && s[i] != ','; i++ {
				switch s[i] {
				case '{', '}':
					return nil, fmt.Errorf("multidimensional arrays are not supported by vsql")
				case '"':
					return nil, fmt.Errorf("unexpected quote inside element")
				case '\\':
					if i++; i >= len(s) {
						return nil, fmt.Errorf("dangling backslash")
					}
				}
				sb.WriteByte(s[i])
			}
		}
		elem := sb.String()
		if !quoted {
			if elem = strings.TrimRight(elem, " \t\n\r"); elem == "" {
				return nil, fmt.Errorf("empty element")
			}
		}
		if !quoted && strings.EqualFold(elem, "null") {
			out = append(out, nil)
		} else {
			out = append(out, &elem)
		}
		if i >= len(s) {
			return out, nil
		} else if s[i] != ',' {
			return nil, fmt.Errorf("unexpected %q after element", s[i])
		}
		i++
	}
}

// splitRecord splits a composite literal `(f1,f2,...)`; nil entries are NULL fields.
func splitRecord(s string) ([]*string, error) {
	s = strings.TrimSpace(s)
	if len(s) < 2 || s[0] != '(' || s[len(s)-1] != ')' {
		return nil, fmt.Errorf("missing parenthesis")
	}
	s = s[1 : len(s)-1]
	var out []*string
	for i := 0; ; i++ {
		var sb strings.Builder
		quoted, inQuote := false, false
		for ; i < len(s) && (inQuote || s[i] != ','); i++ {
			switch c := s[i]; {
			case c == '\\':
				if i++; i >= len(s) {
					return nil, fmt.Errorf("dangling backslash")
				}
				sb.WriteByte(s[i])
			case c == '"' && inQuote && i+1 < len(s) && s[i+1] == '"':
				sb.WriteByte('"')
				i++
			case c == '"':
				quoted, inQuote = true, !inQuote
			case !inQuote && (c == '(' || c == ')'):
				return nil, fmt.Errorf("unexpected %q", c)
			default:
				sb.WriteByte(c)
			}
		}
		if inQuote {
			return nil, fmt.Errorf("unterminated quoted field")
		}
		if field := sb.String(); field == "" && !quoted {
			out = append(out, nil)
		} else {
			out = append(out, &field)
		}
		if i >= len(s) {
			return out, nil
		}
	}
}

// ---------------------------------------------------------------- jsonb

// normalizeJSON validates the document and renders it as PostgreSQL prints jsonb:
// keys deduplicated (last wins) and sorted by (length, bytes), ", " and ": " separators.
func normalizeJSON(s string) (any, error) {
	dec := json.NewDecoder(strings.NewReader(s))
	dec.UseNumber()
	var doc any
	if err := dec.Decode(&doc); err != nil {
		return nil, fmt.Errorf("invalid input syntax for type json: %v", err)
	}
	if _, err := dec.Token(); err != io.EOF {
		return nil, fmt.Errorf("invalid input syntax for type json: trailing data in %q", s)
	}
	var sb strings.Builder
	if err := writeJSON(&sb, doc); err != nil {
		return nil, err
	}
	return jsonText(sb.String()), nil
}

func writeJSON(sb *strings.Builder, v any) error {
	switch v := v.(type) {
	case nil:
		sb.WriteString("null")
	case bool:
		sb.WriteString(strconv.FormatBool(v))
	case json.Number:
		n, err := normalizeNumber(string(v))
		sb.WriteString(n)
		return err
	case string:
		return writeJSONString(sb, v)
	case []any:
		sb.WriteByte('[')
		for i, e := range v {
			if i > 0 {
				sb.WriteString(", ")
			}
			if err := writeJSON(sb, e); err != nil {
				return err
			}
		}
		sb.WriteByte(']')
	case map[string]any:
		keys := make([]string, 0, len(v))
		for k := range v {
			keys = append(keys, k)
		}
		sort.Slice(keys, func(i, j int) bool {
			if len(keys[i]) != len(keys[j]) {
				return len(keys[i]) < len(keys[j])
			}
			return keys[i] < keys[j]
		})
		sb.WriteByte('{')
		for i, k := range keys {
			if i > 0 {
				sb.WriteString(", ")
			}
			if err := writeJSONString(sb, k); err != nil {
				return err
			}
			sb.WriteString(": ")
			if err := writeJSON(sb, v[k]); err != nil {
				return err
			}
		}
		sb.WriteByte('}')
	}
	return nil
}

func writeJSONString(sb *strings.Builder, s string) error {
	if strings.IndexByte(s, 0) >= 0 {
		return fmt.Errorf("unsupported Unicode escape sequence: \\u0000 cannot be converted to text")
	}
	sb.WriteByte('"')
	for _, r := range s {
		switch r {
		case '"', '\\':
			sb.WriteByte('\\')
			sb.WriteRune(r)
		case '\b':
			sb.WriteString(`\b`)
		case '\f':
			sb.WriteString(`\f`)
		case '\n':
			sb.WriteString(`\n`)
		case '\r':
			sb.WriteString(`\r`)
		case '\t':
			sb.WriteString(`\t`)
		default:
			if r < 0x20 {
				fmt.Fprintf(sb, `\u%04x`, r)
			} else {
				sb.WriteRune(r)
			}
		}
	}
	sb.WriteByte('"')
	return nil
}

// normalizeNumber renders a JSON number as PostgreSQL numeric: no exponent, scale preserved.
func normalizeNumber(s string) (string, error) {
	mant, exp, hasExp := strings.Cut(strings.ToLower(s), "e")
	if hasExp {
		e, err := strconv.Atoi(exp)
		if err != nil || e > 1000 || e < -1000 {
			return "", fmt.Errorf("vsql limitation: json number exponent too large in %q", s)
		}
		_, frac, _ := strings.Cut(mant, ".")
		r, _ := new(big.Rat).SetString(s)
		mant = r.FloatString(max(0, len(frac)-e))
	}
	if strings.Trim(mant, "-0.") == "" { // numeric has no negative zero
		mant = strings.TrimPrefix(mant, "-")
	}
	return mant, nil
}

// ---------------------------------------------------------------- output

// textOut is the text output function of the type (v is not NULL).
func (t *sqlType) textOut(v any) string {
	switch t.kind {
	case kBool:
		if v.(bool) {
			return "t"
		}
		return "f"
	case kInt2, kInt4:
		return strconv.FormatInt(v.(int64), 10)
	case kReal:
		switch f := v.(float64); {
		case math.IsInf(f, 1):
			return "Infinity"
		case math.IsInf(f, -1):
			return "-Infinity"
		default:
			return strconv.FormatFloat(f, 'g', -1, 32)
		}
	case kText:
		return v.(string)
	case kTimestamptz:
		return v.(time.Time).Format("2006-01-02 15:04:05.999999-07")
	case kDate:
		return v.(time.Time).Format("2006-01-02")
	case kBytea:
		return `\x` + hex.EncodeToString(v.([]byte))
	case kJSONB:
		return string(v.(jsonText))
	case kArray:
		var sb strings.Builder
		sb.WriteByte('{')
		for i, e := range v.([]any) {
			if i > 0 {
				sb.WriteByte(',')
			}
			if e == nil {
				sb.WriteString("NULL")
				continue
			}
			s := t.elem.textOut(e)
			if s == "" || strings.EqualFold(s, "null") || strings.ContainsAny(s, "\"\\{}, \t\n\r\v\f") {
				s = `"` + strings.NewReplacer(`"`, `\"`, `\`, `\\`).Replace(s) + `"`
			}
			sb.WriteString(s)
		}
		sb.WriteByte('}')
		return sb.String()
	case kComposite:
		var sb strings.Builder
		sb.WriteByte('(')
		for i, e := range v.([]any) {
			if i > 0 {
				sb.WriteByte(',')
			}
			if e == nil {
				continue
			}
			s := t.fields[i].typ.textOut(e)
			if s == "" || strings.ContainsAny(s, "\"\\(), \t\n\r\v\f") {
				s = `"` + strings.NewReplacer(`"`, `""`, `\`, `\\`).Replace(s) + `"`
			}
			sb.WriteString(s)
		}
		sb.WriteByte(')')
		return sb.String()
	}
	panic("unreachable")
}

// toDriver is what lib/pq hands to database/sql for a stored value.
func (t *sqlType) toDriver(v any) driver.Value {
	if v == nil {
		return nil
	}
	switch t.kind {
	case kBool, kInt2, kInt4, kText, kTimestamptz, kDate:
		return v
	case kReal: // lib/pq parses the (shortest float4) text with 64 bits precision
		f, _ := strconv.ParseFloat(t.textOut(v), 64)
		return f
	case kBytea:
		return bytes.Clone(v.([]byte))
	}
	return []byte(t.textOut(v))
}

// equal is the `=` operator on two non NULL values of the type.
func (t *sqlType) equal(a, b any) bool {
	switch t.kind {
	case kReal:
		fa, fb := a.(float64), b.(float64)
		return fa == fb || (fa != fa && fb != fb) // NaN = NaN in PostgreSQL
	case kTimestamptz, kDate:
		return a.(time.Time).Equal(b.(time.Time))
	case kBytea:
		return bytes.Equal(a.([]byte), b.([]byte))
	case kArray, kComposite: // NULL elements/fields compare equal, as array_eq/record_eq do... for arrays
		as, bs := a.([]any), b.([]any)
		if len(as) != len(bs) {
			return false
		}
		for i := range as {
			et := t.elem
			if t.kind == kComposite {
				et = t.fields[i].typ
			}
			if (as[i] == nil) != (bs[i] == nil) || (as[i] != nil && !et.equal(as[i], bs[i])) {
				return false
			}
		}
		return true
	}
	return a == b
}

// fromLiteral converts an SQL constant in assignment (or comparison) context.
func (t *sqlType) fromLiteral(l literal) (any, error) {
	numeric := t.kind == kInt2 || t.kind == kInt4 || t.kind == kReal
	switch {
	case l.kind == 'n':
		return nil, nil
	case l.kind == 's':
		return t.parse(l.s)
	case l.kind == 'b' && t.kind == kBool:
		return l.b, nil
	case l.kind == '#' && t.kind != kReal && numeric && strings.ContainsAny(l.s, ".eE"):
		return nil, fmt.Errorf("vsql limitation: non integer constant %s for %s", l.s, t.text)
	case l.kind == '#' && numeric:
		return t.parse(l.s)
	}
	return nil, fmt.Errorf("constant %v is not compatible with type %s", l, t.text)
}
