package vsql

import "strings"

type stmtKind uint8

const (
	stInsert stmtKind = iota
	stSelect
	stUpdate
	stDelete
	stCopy
)

// operand is `$n` (param > 0) or a constant already converted to the target column type.
type operand struct {
	param int
	val   any
}

type condKind uint8

const (
	cEq        condKind = iota // col = operand
	cAny                       // col = ANY($n)
	cColNull                   // col IS NULL
	cParamNull                 // $n IS NULL
	cAnd
	cOr
)

type cond struct {
	kind condKind
	col  int
	rhs  operand
	l, r *cond
}

type assign struct {
	col int
	src operand
}

// stmt is a parsed statement, checked against the schema.
type stmt struct {
	kind   stmtKind
	sql    string
	ti     int // table index
	tbl    *table
	cols   []int     // INSERT/COPY target columns, SELECT output columns
	vals   []operand // INSERT values
	sets   []assign
	where  *cond
	ret    []int      // RETURNING columns
	ptypes []*sqlType // per parameter (index n-1): inferred type, nil if $n never gets one
	pcols  []string   // column giving its type to $n, for error messages
	pnull  []bool     // $n appears in `$n IS NULL`
}

// prepare returns the (cached) parsed form of a statement.
func (s *Store) prepare(sql string) (*stmt, error) {
	key := sql
	if s.PG9SingleColumnRow {
		key = "pg9:" + sql
	}
	c, ok := s.sc.stmts.Load(key)
	if !ok {
		if st, err := s.sc.parseStmt(sql, s.PG9SingleColumnRow); err != nil {
			c = err
		} else {
			c = st
		}
		s.sc.stmts.Store(key, c)
	}
	if st, ok := c.(*stmt); ok {
		return st, nil
	}
	return nil, c.(error)
}

func oneLine(sql string) string { return strings.Join(strings.Fields(sql), " ") }

func (sc *schema) parseStmt(sql string, pg9 bool) (st *stmt, err error) {
	defer catch(&err)
	p := &parser{src: sql, toks: lex(sql)}
	st = &stmt{sql: sql}
	b := &binder{sc: sc, st: st, parser: p}
	switch {
	case p.acceptKw("insert", "into"): // INSERT INTO t (c,...) VALUES ($1,...) [RETURNING c,...]
		st.kind = stInsert
		b.table()
		st.cols = b.columns(p.identList(true, "a column name"), true)
		p.expectKw("values")
		st.vals = b.operands(st.cols, "INSERT into")
		b.returning()
	case p.acceptKw("select"): // SELECT c,... FROM t [WHERE cond]
		st.kind = stSelect
		names := p.identList(false, "a column name")
		p.expectKw("from")
		b.table()
		st.cols = b.columns(names, false)
		b.where(false)
	case p.acceptKw("update"): // UPDATE t SET (c,...) = ($1,...) | c = expr,... WHERE cond [RETURNING c,...]
		st.kind = stUpdate
		b.table()
		p.expectKw("set")
		b.assignments(pg9)
		b.where(true)
		b.returning()
	case p.acceptKw("delete", "from"): // DELETE FROM t WHERE cond [RETURNING c,...]
		st.kind = stDelete
		b.table()
		b.where(true)
		b.returning()
	case p.acceptKw("copy"): // COPY "t" ("c",...) FROM STDIN
		st.kind = stCopy
		b.table()
		st.cols = b.columns(p.identList(true, "a column name"), true)
		p.expectKw("from", "stdin")
	default:
		fail("unsupported statement: %s", oneLine(sql))
	}
	p.acceptPunct(";")
	if p.peek().kind != tEOF {
		fail("unsupported statement shape: unexpected %v at offset %d in: %s", p.peek(), p.peek().pos, oneLine(sql))
	}
	for i, t := range st.ptypes {
		if t == nil && st.pnull[i] {
			fail("could not determine data type of parameter $%d (only used in IS NULL)", i+1)
		}
	}
	return st, nil
}

// binder parses the clauses of a statement and resolves names against the schema.
type binder struct {
	*parser
	sc *schema
	st *stmt
}

func (b *binder) table() {
	name := b.ident("table name")
	b.st.tbl = b.sc.byName[name]
	if b.st.tbl == nil {
		fail("unknown table %q", name)
	}
	for b.sc.tables[b.st.ti] != b.st.tbl {
		b.st.ti++
	}
}

func (b *binder) column(name string) int {
	i, ok := b.st.tbl.idx[name]
	if !ok {
		fail("unknown column %q of table %q", name, b.st.tbl.name)
	}
	return i
}

func (b *binder) columns(names []string, unique bool) []int {
	out, seen := make([]int, len(names)), map[int]bool{}
	for i, name := range names {
		out[i] = b.column(name)
		if unique && seen[out[i]] {
			fail("column %q specified more than once", name)
		}
		seen[out[i]] = true
	}
	return out
}

// param records a use of $n in a context of type typ (nil: no type information).
func (b *binder) param(n int, typ *sqlType, col string) {
	st := b.st
	if n < 1 {
		fail("placeholder $%d out of range: numbering starts at $1", n)
	}
	for len(st.ptypes) < n {
		st.ptypes, st.pcols, st.pnull = append(st.ptypes, nil), append(st.pcols, ""), append(st.pnull, false)
	}
	switch {
	case typ == nil:
		st.pnull[n-1] = true
	case st.ptypes[n-1] == nil:
		st.ptypes[n-1], st.pcols[n-1] = typ, col
	case st.ptypes[n-1].text != typ.text && !(intFamily(st.ptypes[n-1]) && intFamily(typ)):
		// PostgreSQL types $n from its first use, then looks for a cross-type operator: they only
		// exist (without casts) between smallint and integer, in which case the first type is kept.
		fail("parameter $%d is used with inconsistent types: %s (column %q) versus %s (column %q)",
			n, st.ptypes[n-1].text, st.pcols[n-1], typ.text, col)
	}
}

func intFamily(t *sqlType) bool { return t.kind == kInt2 || t.kind == kInt4 }

// operand reads `$n` or a constant, to be stored in / compared to column ci.
func (b *binder) operand(ci int) operand {
	col := b.st.tbl.cols[ci]
	if t := b.peek(); t.kind == tParam {
		b.next()
		b.param(t.n, col.typ, col.name)
		return operand{param: t.n}
	}
	lit, ok := b.literal()
	if !ok {
		b.unexpected("a placeholder or a constant")
	}
	val, err := col.typ.fromLiteral(lit)
	if err != nil {
		fail("column %q (%s): %v", col.name, col.typ.text, err)
	}
	return operand{val: val}
}

// operands reads `( operand, ... )` and checks the count against the target columns.
func (b *binder) operands(cols []int, what string) []operand {
	b.expectPunct("(")
	var out []operand
	for n := 0; ; n++ {
		if n < len(cols) {
			out = append(out, b.operand(cols[n]))
		} else if _, ok := b.literal(); !ok { // extra values are only counted
			if b.peek().kind != tParam {
				b.unexpected("a placeholder or a constant")
			}
			b.next()
		}
		if !b.acceptPunct(",") {
			b.expectPunct(")")
			if n+1 != len(cols) {
				fail("%s %q has %d target columns but %d values", what, b.st.tbl.name, len(cols), n+1)
			}
			return out
		}
	}
}

func (b *binder) returning() {
	if b.acceptKw("returning") {
		b.st.ret = b.columns(b.identList(false, "a column name after RETURNING"), false)
	}
}

func (b *binder) assignments(pg9 bool) {
	if b.isPunct("(") {
		names := b.identList(true, "a column name")
		cols := b.columns(names, true)
		b.expectPunct("=")
		vals := b.operands(cols, "UPDATE of")
		if len(cols) == 1 && !pg9 {
			fail("source for a multiple-column UPDATE item must be a sub-SELECT or ROW() expression: "+
				"PostgreSQL >= 10 rejects SET (%s) = (...) with a single column", names[0])
		}
		for i := range cols {
			b.st.sets = append(b.st.sets, assign{cols[i], vals[i]})
		}
		return
	}
	for seen := map[int]bool{}; ; {
		name := b.ident("a column name")
		ci := b.column(name)
		if seen[ci] {
			fail("multiple assignments to same column %q", name)
		}
		seen[ci] = true
		b.expectPunct("=")
		b.st.sets = append(b.st.sets, assign{ci, b.operand(ci)})
		if !b.acceptPunct(",") {
			return
		}
	}
}

func (b *binder) where(required bool) {
	if b.acceptKw("where") {
		b.st.where = b.orExpr()
	} else if required {
		fail("unsupported statement shape: WHERE clause expected at %v in: %s", b.peek(), oneLine(b.st.sql))
	}
}

func (b *binder) orExpr() *cond {
	l := b.andExpr()
	for b.acceptKw("or") {
		l = &cond{kind: cOr, l: l, r: b.andExpr()}
	}
	return l
}

func (b *binder) andExpr() *cond {
	l := b.primary()
	for b.acceptKw("and") {
		l = &cond{kind: cAnd, l: l, r: b.primary()}
	}
	return l
}

// primary reads `( cond )`, `$n IS NULL`, `c IS NULL`, `c = ANY($n)`, `c = $n` or `c = constant`.
func (b *binder) primary() *cond {
	t := b.peek()
	switch {
	case b.acceptPunct("("):
		c := b.orExpr()
		b.expectPunct(")")
		return c
	case t.kind == tParam:
		b.next()
		if !b.acceptKw("is", "null") {
			b.unexpected("IS NULL after a placeholder (unsupported condition)")
		}
		b.param(t.n, nil, "")
		return &cond{kind: cParamNull, rhs: operand{param: t.n}}
	case t.kind == tIdent && (t.s == "not" || t.s == "exists" || t.s == "true" || t.s == "false" || t.s == "null"):
		b.unexpected("a column name (unsupported condition)")
	}
	ci := b.column(b.ident("a column name"))
	col := b.st.tbl.cols[ci]
	if b.acceptKw("is", "null") {
		return &cond{kind: cColNull, col: ci}
	}
	if !b.acceptPunct("=") {
		b.unexpected(`"=" or IS NULL (unsupported condition)`)
	}
	if b.acceptKw("any") {
		b.expectPunct("(")
		t := b.next()
		if t.kind != tParam {
			fail("unsupported condition: ANY(%v), only ANY($n) is supported", t)
		}
		if col.typ.kind == kArray || col.typ.kind == kComposite {
			fail("vsql limitation: = ANY() on column %q of type %s", col.name, col.typ.text)
		}
		b.param(t.n, &sqlType{kind: kArray, text: col.typ.text + "[]", elem: col.typ}, col.name)
		b.expectPunct(")")
		return &cond{kind: cAny, col: ci, rhs: operand{param: t.n}}
	}
	if lit := b.peek(); lit.kind == tNum && col.typ.kind != kInt2 && col.typ.kind != kInt4 && col.typ.kind != kReal {
		fail("operator does not exist: %s = integer (column %q compared to %s)", col.typ.text, col.name, lit.s)
	}
	return &cond{kind: cEq, col: ci, rhs: b.operand(ci)}
}
