package vsql

import (
	"strings"
)

type stmtKind uint8

const (
	stInsert stmtKind = iota
	stSelect
	stUpdate
	stDelete
	stCopy
)

// operand is `$n` (param > 0) or a constant already converted to the target column type.
type operand struct {
	param int
	val   any
}

type condKind uint8

const (
	cEq        condKind = iota // col = operand
	cAny                       // col = ANY($n)
	cColNull                   // col IS NULL
	cParamNull                 // $n IS NULL
	cAnd
	cOr
)

type cond struct {
	kind condKind
	col  int
	rhs  operand
	l, r *cond
}

type assign struct {
	col int
	src operand
}

// stmt is a parsed statement, checked against the schema.
type stmt struct {
	kind   stmtKind
	sql    string
	ti     int // table index
	tbl    *table
	cols   []int     // INSERT/COPY target columns, SELECT output columns
	vals   []operand // INSERT values
	sets   []assign
	where  *cond
	ret    []int
	hasRet bool
	// parameters, indexed by n-1
	ptypes []*sqlType // inferred type, nil if $n never appears
	pcols  []string   // column giving its type to $n, for error messages
	pnull  []bool     // $n appears in `$n IS NULL`
}

// prepare returns the (cached) parsed form of a statement.
func (s *Store) prepare(sql string) (*stmt, error) {
	key := sql
	if s.PG9SingleColumnRow {
		key = "pg9:" + sql
	}
	if c, ok := s.sc.stmts.Load(key); ok {
		if st, ok := c.(*stmt); ok {
			return st, nil
		}
		return nil, c.(error)
	}
	st, err := s.sc.parseStmt(sql, s.PG9SingleColumnRow)
	if err != nil {
		s.sc.stmts.Store(key, err)
		return nil, err
	}
	s.sc.stmts.Store(key, st)
	return st, nil
}

func (sc *schema) parseStmt(sql string, pg9 bool) (*stmt, error) {
	toks, err := lex(sql)
	if err != nil {
		return nil, err
	}
	p := &parser{src: sql, toks: toks}
	st := &stmt{sql: sql}
	b := &binder{sc: sc, st: st, p: p}
	switch {
	case p.acceptKw("insert", "into"):
		err = b.insert()
	case p.acceptKw("select"):
		err = b.selectStmt()
	case p.acceptKw("update"):
		err = b.update(pg9)
	case p.acceptKw("delete", "from"):
		err = b.delete()
	case p.acceptKw("copy"):
		err = b.copyIn()
	default:
		err = errf("unsupported statement: %s", oneLine(sql))
	}
	if err != nil {
		return nil, err
	}
	p.acceptPunct(";")
	if p.peek().kind != tEOF {
		return nil, errf("unsupported statement shape: unexpected %v at offset %d in: %s", p.peek(), p.peek().pos, oneLine(sql))
	}
	for i, t := range st.ptypes {
		if t == nil && st.pnull[i] {
			return nil, errf("could not determine data type of parameter $%d (only used in IS NULL)", i+1)
		}
	}
	return st, nil
}

func oneLine(sql string) string { return strings.Join(strings.Fields(sql), " ") }

type binder struct {
	sc *schema
	st *stmt
	p  *parser
}

func (b *binder) table() error {
	name, err := b.p.ident("table name")
	if err != nil {
		return err
	}
	ta := b.sc.byName[name]
	if ta == nil {
		return errf("unknown table %q", name)
	}
	b.st.tbl = ta
	for i, t := range b.sc.tables {
		if t == ta {
			b.st.ti = i
		}
	}
	return nil
}

func (b *binder) column(name string) (int, error) {
	if i, ok := b.st.tbl.idx[name]; ok {
		return i, nil
	}
	return 0, errf("unknown column %q of table %q", name, b.st.tbl.name)
}

func (b *binder) columns(names []string, unique bool) ([]int, error) {
	out := make([]int, len(names))
	seen := map[int]bool{}
	for i, name := range names {
		ci, err := b.column(name)
		if err != nil {
			return nil, err
		}
		if unique && seen[ci] {
			return nil, errf("column %q specified more than once", name)
		}
		seen[ci] = true
		out[i] = ci
	}
	return out, nil
}

// param records a use of $n in a context of type typ (nil: no type information).
func (b *binder) param(n int, typ *sqlType, col string) error {
	st := b.st
	if n < 1 {
		return errf("placeholder $%d out of range: numbering starts at $1", n)
	}
	for len(st.ptypes) < n {
		st.ptypes, st.pcols, st.pnull = append(st.ptypes, nil), append(st.pcols, ""), append(st.pnull, false)
	}
	switch {
	case typ == nil:
		st.pnull[n-1] = true
	case st.ptypes[n-1] == nil:
		st.ptypes[n-1], st.pcols[n-1] = typ, col
	case st.ptypes[n-1].text != typ.text:
		return errf("inconsistent types deduced for parameter $%d: %s (column %q) versus %s (column %q)",
			n, st.ptypes[n-1].text, st.pcols[n-1], typ.text, col)
	}
	return nil
}

// operand reads `$n` or a constant, to be stored in / compared to column ci.
func (b *binder) operand(ci int) (operand, error) {
	col := b.st.tbl.cols[ci]
	if t := b.p.peek(); t.kind == tParam {
		b.p.next()
		return operand{param: t.n}, b.param(t.n, col.typ, col.name)
	}
	lit, ok := b.p.literal()
	if !ok {
		return operand{}, b.p.unexpected("a placeholder or a constant")
	}
	val, err := col.typ.fromLiteral(lit)
	if err != nil {
		return operand{}, errf("column %q (%s): %v", col.name, col.typ.text, err)
	}
	return operand{val: val}, nil
}

func (b *binder) operands(cols []int) ([]operand, error) {
	if err := b.p.expectPunct("("); err != nil {
		return nil, err
	}
	var out []operand
	for {
		if len(out) < len(cols) {
			op, err := b.operand(cols[len(out)])
			if err != nil {
				return nil, err
			}
			out = append(out, op)
		} else if _, ok := b.p.literal(); ok || b.p.peek().kind == tParam { // extra value: only counted
			if !ok {
				b.p.next()
			}
			out = append(out, operand{})
		} else {
			return nil, b.p.unexpected("a placeholder or a constant")
		}
		if !b.p.acceptPunct(",") {
			return out, b.p.expectPunct(")")
		}
	}
}

func (b *binder) returning() (err error) {
	if !b.p.acceptKw("returning") {
		return nil
	}
	names, err := b.p.identList(false, "a column name after RETURNING")
	if err != nil {
		return err
	}
	b.st.hasRet = true
	b.st.ret, err = b.columns(names, false)
	return err
}

func (b *binder) insert() error {
	b.st.kind = stInsert
	if err := b.table(); err != nil {
		return err
	}
	names, err := b.p.identList(true, "a column name")
	if err != nil {
		return err
	}
	if b.st.cols, err = b.columns(names, true); err != nil {
		return err
	}
	if err := b.p.expectKw("values"); err != nil {
		return err
	}
	if b.st.vals, err = b.operands(b.st.cols); err != nil {
		return err
	}
	if len(b.st.vals) != len(b.st.cols) {
		return errf("INSERT into %q has %d target columns but %d values", b.st.tbl.name, len(b.st.cols), len(b.st.vals))
	}
	return b.returning()
}

func (b *binder) selectStmt() error {
	b.st.kind = stSelect
	names, err := b.p.identList(false, "a column name")
	if err != nil {
		return err
	}
	if err := b.p.expectKw("from"); err != nil {
		return err
	}
	if err := b.table(); err != nil {
		return err
	}
	if b.st.cols, err = b.columns(names, false); err != nil {
		return err
	}
	return b.whereClause(false)
}

func (b *binder) update(pg9 bool) error {
	b.st.kind = stUpdate
	if err := b.table(); err != nil {
		return err
	}
	if err := b.p.expectKw("set"); err != nil {
		return err
	}
	if b.p.isPunct("(") {
		names, err := b.p.identList(true, "a column name")
		if err != nil {
			return err
		}
		cols, err := b.columns(names, true)
		if err != nil {
			return err
		}
		if err := b.p.expectPunct("="); err != nil {
			return err
		}
		vals, err := b.operands(cols)
		if err != nil {
			return err
		}
		if len(vals) != len(cols) {
			return errf("UPDATE of %q has %d target columns but %d values", b.st.tbl.name, len(cols), len(vals))
		}
		if len(cols) == 1 && !pg9 {
			return errf("source for a multiple-column UPDATE item must be a sub-SELECT or ROW() expression: "+
				"PostgreSQL >= 10 rejects SET (%s) = (...) with a single column", names[0])
		}
		for i := range cols {
			b.st.sets = append(b.st.sets, assign{cols[i], vals[i]})
		}
	} else {
		seen := map[int]bool{}
		for {
			name, err := b.p.ident("a column name")
			if err != nil {
				return err
			}
			ci, err := b.column(name)
			if err != nil {
				return err
			}
			if seen[ci] {
				return errf("multiple assignments to same column %q", name)
			}
			seen[ci] = true
			if err := b.p.expectPunct("="); err != nil {
				return err
			}
			op, err := b.operand(ci)
			if err != nil {
				return err
			}
			b.st.sets = append(b.st.sets, assign{ci, op})
			if !b.p.acceptPunct(",") {
				break
			}
		}
	}
	if err := b.whereClause(true); err != nil {
		return err
	}
	return b.returning()
}

func (b *binder) delete() error {
	b.st.kind = stDelete
	if err := b.table(); err != nil {
		return err
	}
	if err := b.whereClause(true); err != nil {
		return err
	}
	return b.returning()
}

// copyIn parses `COPY "t" ("c", ...) FROM STDIN`.
func (b *binder) copyIn() error {
	b.st.kind = stCopy
	if err := b.table(); err != nil {
		return err
	}
	names, err := b.p.identList(true, "a column name")
	if err != nil {
		return err
	}
	if b.st.cols, err = b.columns(names, true); err != nil {
		return err
	}
	return b.p.expectKw("from", "stdin")
}

func (b *binder) whereClause(required bool) (err error) {
	if !b.p.acceptKw("where") {
		if required {
			return errf("unsupported statement shape: WHERE clause expected at %v in: %s", b.p.peek(), oneLine(b.st.sql))
		}
		return nil
	}
	b.st.where, err = b.orExpr()
	return err
}

func (b *binder) orExpr() (*cond, error) {
	l, err := b.andExpr()
	for err == nil && b.p.acceptKw("or") {
		var r *cond
		if r, err = b.andExpr(); err == nil {
			l = &cond{kind: cOr, l: l, r: r}
		}
	}
	return l, err
}

func (b *binder) andExpr() (*cond, error) {
	l, err := b.primary()
	for err == nil && b.p.acceptKw("and") {
		var r *cond
		if r, err = b.primary(); err == nil {
			l = &cond{kind: cAnd, l: l, r: r}
		}
	}
	return l, err
}

func (b *binder) primary() (*cond, error) {
	p := b.p
	if p.acceptPunct("(") {
		c, err := b.orExpr()
		if err != nil {
			return nil, err
		}
		return c, p.expectPunct(")")
	}
	if t := p.peek(); t.kind == tParam {
		p.next()
		if !p.acceptKw("is", "null") {
			return nil, p.unexpected("IS NULL after a placeholder (unsupported condition)")
		}
		return &cond{kind: cParamNull, rhs: operand{param: t.n}}, b.param(t.n, nil, "")
	}
	if t := p.peek(); t.kind == tIdent && (t.s == "not" || t.s == "exists" || t.s == "true" || t.s == "false" || t.s == "null") {
		return nil, p.unexpected("a column name (unsupported condition)")
	}
	name, err := p.ident("a column name")
	if err != nil {
		return nil, err
	}
	ci, err := b.column(name)
	if err != nil {
		return nil, err
	}
	col := b.st.tbl.cols[ci]
	if p.acceptKw("is", "null") {
		return &cond{kind: cColNull, col: ci}, nil
	}
	if !p.acceptPunct("=") {
		return nil, p.unexpected(`"=" or IS NULL (unsupported condition)`)
	}
	if p.acceptKw("any") {
		if err := p.expectPunct("("); err != nil {
			return nil, err
		}
		t := p.next()
		if t.kind != tParam {
			return nil, errf("unsupported condition: ANY(%v), only ANY($n) is supported", t)
		}
		if col.typ.kind == kArray || col.typ.kind == kComposite {
			return nil, errf("vsql limitation: = ANY() on column %q of type %s", col.name, col.typ.text)
		}
		arr := &sqlType{kind: kArray, text: col.typ.text + "[]", elem: col.typ}
		if err := b.param(t.n, arr, col.name); err != nil {
			return nil, err
		}
		return &cond{kind: cAny, col: ci, rhs: operand{param: t.n}}, p.expectPunct(")")
	}
	if lit := p.peek(); lit.kind == tNum && col.typ.kind != kInt2 && col.typ.kind != kInt4 && col.typ.kind != kReal {
		return nil, errf("operator does not exist: %s = integer (column %q compared to %s)", col.typ.text, col.name, lit.s)
	}
	op, err := b.operand(ci)
	return &cond{kind: cEq, col: ci, rhs: op}, err
}
