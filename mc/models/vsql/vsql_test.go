package vsql

import (
	"database/sql"
	"encoding/json"
	"reflect"
	"strings"
	"testing"
	"time"
)

const testDDL = `-- header comment
CREATE TYPE Pair AS (A integer, B smallint);

		CREATE TABLE items (
			Id serial PRIMARY KEY,
	Name text NOT NULL,
	Score real NOT NULL,
	Flag boolean NOT NULL,
	Kind smallint  CHECK (Kind IN (0, 1, 2)) NOT NULL,
	Opt integer ,
	Tags text[] ,
	Nums integer[]  CHECK (array_length(Nums, 1) = 3) NOT NULL,
	P Pair NOT NULL,
	Data jsonb NOT NULL,
	At timestamp (0) with time zone NOT NULL,
	Day date ,
	Blob bytea ,
	"Quoted" integer ,
	guard smallint  CHECK (guard IN (0, 1)) NOT NULL
		);
CREATE TABLE links (IdItem integer NOT NULL, IdOther integer, Bits boolean[], Label text NOT NULL);
-- constraints
ALTER TABLE items ALTER COLUMN guard SET DEFAULT 1 /* Enum.B */;
ALTER TABLE items ADD CHECK(guard = 1 /* Enum.B */);
ALTER TABLE links ADD FOREIGN KEY(IdItem) REFERENCES items ON DELETE CASCADE;
ALTER TABLE links ADD UNIQUE(IdItem, IdOther);
CREATE UNIQUE INDEX index_name ON links (Label);
	CREATE OR REPLACE FUNCTION gomacro_validate_json_x (data jsonb)
		RETURNS boolean
		AS $$
	BEGIN
		IF jsonb_typeof(data) != 'object' THEN RETURN FALSE; END IF;
		RETURN TRUE;
	END;
	$$
	LANGUAGE 'plpgsql'
	IMMUTABLE;
ALTER TABLE items ADD CONSTRAINT Data_gomacro CHECK (gomacro_validate_json_x(Data));
`

func newStore(t *testing.T) (*Store, *sql.DB) {
	t.Helper()
	s, err := NewStore(testDDL)
	if err != nil {
		t.Fatal(err)
	}
	t.Cleanup(func() { s.Close() })
	return s, s.DB()
}

const insertItem = `INSERT INTO items (
	name, score, flag, kind, opt, tags, nums, p, data, at, day, blob
	) VALUES (
	$1, $2, $3, $4, $5, $6, $7, $8, $9, $10, $11, $12
	) RETURNING id, name, score, flag, kind, opt, tags, nums, p, data, at, day, blob, guard;
	`

var paris = time.FixedZone("P", 2*3600)

func itemArgs(name string) []any {
	return []any{
		name, 0.1, true, int64(2), nil, `{"a","b c"}`, "{1,2,3}", []byte("(7, 8)"),
		`{"b": [1, 2.50, 1e2], "a": null, "b": 2}`, time.Date(2024, 3, 1, 23, 30, 15, 600e6, paris),
		time.Date(2024, 3, 1, 23, 30, 0, 0, paris), []byte{0, 1, 255},
	}
}

func wantErr(t *testing.T, err error, parts ...string) {
	t.Helper()
	if err == nil {
		t.Fatalf("expected an error containing %q", parts)
	}
	if !strings.HasPrefix(err.Error(), "vsql:") {
		t.Fatalf("error %q does not start with vsql:", err)
	}
	for _, p := range parts {
		if !strings.Contains(err.Error(), p) {
			t.Fatalf("error %q does not contain %q", err, p)
		}
	}
}

func TestSchema(t *testing.T) {
	s, _ := newStore(t)
	tables := s.Tables()
	if len(tables) != 2 || tables[0].Name != "items" || tables[1].Name != "links" {
		t.Fatal(tables)
	}
	var got []string
	for _, c := range tables[0].Columns {
		d := c.Name + ":" + c.Type
		if c.NotNull {
			d += ":nn"
		}
		if c.HasDefault {
			d += ":def"
		}
		if c.IsSerial {
			d += ":serial"
		}
		got = append(got, d)
	}
	want := "id:serial:nn:serial name:text:nn score:real:nn flag:boolean:nn kind:smallint:nn opt:integer tags:text[] " +
		"nums:integer[]:nn p:pair:nn data:jsonb:nn at:timestamp (0) with time zone:nn day:date blob:bytea Quoted:integer guard:smallint:nn:def"
	if strings.Join(got, " ") != want {
		t.Fatalf("got  %s\nwant %s", strings.Join(got, " "), want)
	}
	if c := tables[0].Constraints; len(c) != 2 || c[0] != "ALTER TABLE items ADD CHECK(guard = 1 /* Enum.B */)" {
		t.Fatal(c)
	}
	if len(tables[1].Constraints) != 2 || len(s.Warnings()) != 0 {
		t.Fatal(tables[1].Constraints, s.Warnings())
	}

	for ddl, msg := range map[string]string{
		"CREATE TABLE t (a integer, a text);":                                       "more than once",
		"CREATE TABLE t (a Unknown NOT NULL);":                                      `unknown column type "unknown"`,
		"CREATE TABLE t (a integer UNIQUE);":                                        "column constraint",
		"CREATE TABLE t (a integer CHECK ((a > 0);":                                 "unbalanced",
		"CREATE TABLE t (a integer)":                                                `expected ";"`,
		"ALTER TABLE t ADD UNIQUE(a);":                                              `unknown table "t"`,
		"CREATE TABLE t (a integer); ALTER TABLE t ALTER COLUMN b SET DEFAULT 0;":   `unknown column "b"`,
		"CREATE TABLE t (a integer); ALTER TABLE t ALTER COLUMN a SET DEFAULT 'x';": "invalid DEFAULT",
		"DROP TABLE t;": "unsupported schema statement",
		"CREATE TABLE t (a integer); CREATE TABLE T (b integer);": "already exists",
		"CREATE TABLE t (a timestamp (9) with time zone);":        "precision",
	} {
		_, err := NewStore(ddl)
		wantErr(t, err, msg)
	}
	s2, err := NewStore(`CREATE TABLE t (Order text NOT NULL, Index integer);`)
	if err != nil || len(s2.Warnings()) != 1 || !strings.Contains(s2.Warnings()[0], `"order"`) {
		t.Fatal(err, s2.Warnings())
	}
}

func TestRoundTrip(t *testing.T) {
	s, db := newStore(t)
	var (
		id, kind, guard     int64
		name                string
		score               float64
		flag                bool
		opt                 sql.NullInt64
		tags, nums, p, data []byte
		at                  time.Time
		day                 sql.NullTime
		blob                []byte
	)
	dest := []any{&id, &name, &score, &flag, &kind, &opt, &tags, &nums, &p, &data, &at, &day, &blob, &guard}
	if err := db.QueryRow(insertItem, itemArgs("n1")...).Scan(dest...); err != nil {
		t.Fatal(err)
	}
	if id != 1 || name != "n1" || score != 0.1 || !flag || kind != 2 || opt.Valid || guard != 1 {
		t.Fatal(id, name, score, flag, kind, opt, guard)
	}
	if string(tags) != `{a,"b c"}` || string(nums) != "{1,2,3}" || string(p) != "(7,8)" {
		t.Fatal(string(tags), string(nums), string(p))
	}
	if string(data) != `{"a": null, "b": 2}` {
		t.Fatal(string(data))
	}
	if !at.Equal(time.Date(2024, 3, 1, 21, 30, 16, 0, time.UTC)) || !day.Time.Equal(time.Date(2024, 3, 1, 0, 0, 0, 0, time.UTC)) {
		t.Fatal(at, day)
	}
	if !reflect.DeepEqual(blob, []byte{0, 1, 255}) {
		t.Fatal(blob)
	}
	// rows are returned as []driver.Value of the documented dynamic types
	rows, err := db.Query("SELECT id, score, flag, name, data, at, blob, opt, tags FROM items WHERE id = $1", 1)
	if err != nil {
		t.Fatal(err)
	}
	raw := make([]any, 9)
	ptrs := make([]any, 9)
	for i := range raw {
		ptrs[i] = &raw[i]
	}
	if !rows.Next() || rows.Scan(ptrs...) != nil || rows.Next() {
		t.Fatal("one row expected")
	}
	types := ""
	for _, v := range raw[:7] {
		types += reflect.TypeOf(v).String() + " "
	}
	if raw[7] != nil || !strings.HasPrefix(types, "int64 float64 bool string []uint8 time.Time []uint8") {
		t.Fatal(types, raw[7])
	}

	// second insert, serial increments, SELECT returns insertion order
	if err := db.QueryRow(insertItem, itemArgs("n2")...).Scan(dest...); err != nil || id != 2 {
		t.Fatal(err, id)
	}
	rows, _ = db.Query("select NAME from ITEMS")
	var names []string
	for rows.Next() {
		rows.Scan(&name)
		names = append(names, name)
	}
	if strings.Join(names, ",") != "n1,n2" {
		t.Fatal(names)
	}
	// log
	log := s.Log()
	if len(log) != 4 || log[0].SQL != insertItem || len(log[0].Args) != 12 || log[0].Args[3] != int64(2) || log[0].Err != "" {
		t.Fatalf("%+v", log)
	}
	s.ResetLog()
	if len(s.Log()) != 0 {
		t.Fatal()
	}
}

func TestUpdateDeleteWhere(t *testing.T) {
	s, db := newStore(t)
	for _, n := range []string{"a", "b", "c", "d"} {
		if _, err := db.Exec(insertItem, itemArgs(n)...); err != nil {
			t.Fatal(err)
		}
	}
	count := func(query string, args ...any) int {
		t.Helper()
		rows, err := db.Query(query, args...)
		if err != nil {
			t.Fatal(err)
		}
		defer rows.Close()
		n := 0
		for rows.Next() {
			n++
		}
		return n
	}
	affected := func(query string, args ...any) int64 {
		t.Helper()
		res, err := db.Exec(query, args...)
		if err != nil {
			t.Fatal(err)
		}
		if _, err := res.LastInsertId(); err == nil {
			t.Fatal("LastInsertId must be unsupported")
		}
		n, _ := res.RowsAffected()
		return n
	}
	if n := affected("UPDATE items SET Opt = $1, kind = 0 WHERE id = $2 OR id = $3;", 5, 1, 2); n != 2 {
		t.Fatal(n)
	}
	if n := count("SELECT id FROM items WHERE opt = $1", 5); n != 2 {
		t.Fatal(n)
	}
	// three-valued logic: NULL = NULL is not true
	if n := count("SELECT id FROM items WHERE opt = $1", nil); n != 0 {
		t.Fatal(n)
	}
	if n := count("SELECT id FROM items WHERE opt IS NULL"); n != 2 {
		t.Fatal(n)
	}
	nullable := "SELECT id FROM items WHERE ((Opt IS NULL AND $1 IS NULL) OR Opt = $1) AND kind = 2 /* c */"
	if count(nullable, nil) != 2 || count(nullable, 5) != 0 || count(nullable, sql.NullInt64{}) != 2 {
		t.Fatal()
	}
	if n := count("SELECT id FROM items WHERE id = ANY($1)", "{1,3,9}"); n != 2 {
		t.Fatal(n)
	}
	if count("SELECT id FROM items WHERE id = ANY($1)", "{}") != 0 || count("SELECT id FROM items WHERE id = ANY($1)", nil) != 0 {
		t.Fatal()
	}
	if n := count("SELECT id FROM items WHERE name = ANY($1) AND nums = $2", `{"a",d,"x"}`, "{1, 2, 3}"); n != 2 {
		t.Fatal(n)
	}
	if n := count("SELECT id FROM items WHERE kind = 2 AND flag = TRUE AND name = 'c'"); n != 1 {
		t.Fatal(n)
	}
	// tuple update with RETURNING gives the new version
	var name string
	var opt sql.NullInt64
	err := db.QueryRow(`UPDATE items SET (
		name, opt
		) = (
		$1, $2
		) WHERE id = $3 RETURNING name, opt;`, "zz", nil, 1).Scan(&name, &opt)
	if err != nil || name != "zz" || opt.Valid {
		t.Fatal(err, name, opt)
	}
	if err := db.QueryRow("UPDATE items SET (name, opt) = ($1, $2) WHERE id = $3 RETURNING id", "zz", nil, 99).Scan(&name); err != sql.ErrNoRows {
		t.Fatal(err)
	}
	// delete returning
	if n := count("DELETE FROM items WHERE id = ANY($1) RETURNING id", "{2,3}"); n != 2 {
		t.Fatal(n)
	}
	if n := affected("DELETE FROM items WHERE id = $1;", 2); n != 0 {
		t.Fatal(n)
	}
	if !strings.Contains(s.Canon(), "table items id_seq=4\n") || strings.Count(s.Canon(), "\n") != 4 {
		t.Fatal(s.Canon())
	}
}

func TestErrors(t *testing.T) {
	s, db := newStore(t)
	if _, err := db.Exec(insertItem, itemArgs("a")...); err != nil {
		t.Fatal(err)
	}
	before := s.Canon()
	for _, c := range []struct {
		sql  string
		args []any
		msg  string
	}{
		{"SELECT id FROM nope", nil, `unknown table "nope"`},
		{"SELECT id, nope FROM items", nil, `unknown column "nope"`},
		{"SELECT id FROM items WHERE nope = $1", []any{1}, `unknown column "nope"`},
		{"DELETE FROM items WHERE id = $1 RETURNING nope", []any{1}, `unknown column "nope"`},
		{"INSERT INTO links (iditem, nope) VALUES ($1, $2)", []any{1, 2}, `unknown column "nope"`},
		{"UPDATE items SET nope = $1 WHERE id = $2", []any{1, 2}, `unknown column "nope"`},
		{"SELECT quoted FROM items", nil, `unknown column "quoted"`},
		{`SELECT "ID" FROM items`, nil, `unknown column "ID"`},
		{"INSERT INTO links (iditem, label) VALUES ($1)", []any{1}, "2 target columns but 1 values"},
		{"INSERT INTO links (iditem) VALUES ($1, $2)", []any{1, 2}, "1 target columns but 2 values"},
		{"INSERT INTO links (iditem, iditem) VALUES ($1, $2)", []any{1, 2}, "more than once"},
		{"UPDATE links SET (iditem, label) = ($1) WHERE iditem = $2", []any{1, 2}, "2 target columns but 1 values"},
		{"SELECT id FROM items WHERE id = $1", nil, "placeholder $1 out of range"},
		{"SELECT id FROM items WHERE id = $2", []any{1}, "placeholder $2 out of range"},
		{"SELECT id FROM items WHERE id = $0", []any{1}, "placeholder $0"},
		{"SELECT id FROM items WHERE id = $1", []any{1, 2}, "argument $2 is never referenced"},
		{"SELECT id FROM items WHERE id = $1 AND kind = $3", []any{1, 2, 3}, "argument $2 is never referenced"},
		{"SELECT id FROM items", []any{1}, "argument $1 is never referenced"},
		{"SELECT id FROM items WHERE id = $1 OR name = $1", []any{1}, "parameter $1 is used with inconsistent types"},
		{"SELECT id FROM items WHERE kind = $1 OR id = $1", []any{40000}, "out of range for type smallint"},
		{"SELECT id FROM items WHERE $1 IS NULL", []any{1}, "could not determine data type of parameter $1"},
		{"INSERT INTO links (iditem) VALUES ($1)", []any{1}, `null value in column "label"`},
		{"INSERT INTO links (iditem, label) VALUES ($1, $2)", []any{nil, "x"}, `null value in column "iditem"`},
		{"UPDATE items SET name = $1 WHERE id = $2", []any{nil, 1}, `null value in column "name"`},
		{"UPDATE items SET name = NULL WHERE id = 1", nil, `null value in column "name"`},
		{"INSERT INTO items (id, name) VALUES ($1, $2)", []any{1, "x"}, `null value in column "score"`},
		{"INSERT INTO items (name) VALUES ($1)", []any{"x"}, `null value in column "score"`},
		{"UPDATE items SET kind = $1 WHERE id = $2", []any{40000, 1}, "out of range for type smallint"},
		{"UPDATE items SET opt = $1 WHERE id = $2", []any{int64(1) << 31, 1}, "out of range for type integer"},
		{"UPDATE items SET opt = $1 WHERE id = $2", []any{"abc", 1}, "invalid input syntax for type integer"},
		{"UPDATE items SET opt = $1 WHERE id = $2", []any{1.5, 1}, "invalid input syntax for type integer"},
		{"UPDATE items SET opt = $1 WHERE id = $2", []any{true, 1}, "invalid input syntax for type integer"},
		{"UPDATE items SET flag = $1 WHERE id = $2", []any{"maybe", 1}, "invalid input syntax for type boolean"},
		{"UPDATE items SET score = $1 WHERE id = $2", []any{"x", 1}, "invalid input syntax for type real"},
		{"UPDATE items SET score = $1 WHERE id = $2", []any{1e300, 1}, "out of range for type real"},
		{"UPDATE items SET name = $1 WHERE id = $2", []any{"a\x00b", 1}, "invalid byte sequence"},
		{"UPDATE items SET name = $1 WHERE id = $2", []any{"a\xffb", 1}, "invalid byte sequence"},
		{"UPDATE items SET data = $1 WHERE id = $2", []any{"{not json", 1}, "invalid input syntax for type json"},
		{"UPDATE items SET data = $1 WHERE id = $2", []any{`{} {}`, 1}, "trailing data"},
		{"UPDATE items SET data = $1 WHERE id = $2", []any{`"a\u0000"`, 1}, "u0000"},
		{"UPDATE items SET nums = $1 WHERE id = $2", []any{"{1,x}", 1}, "invalid input syntax for type integer"},
		{"UPDATE items SET nums = $1 WHERE id = $2", []any{"1,2", 1}, "malformed array literal"},
		{"UPDATE items SET nums = $1 WHERE id = $2", []any{"{{1},{2}}", 1}, "multidimensional"},
		{"UPDATE items SET p = $1 WHERE id = $2", []any{"(1)", 1}, "1 fields, type pair has 2"},
		{"UPDATE items SET p = $1 WHERE id = $2", []any{"(1,70000)", 1}, "out of range for type smallint"},
		{"UPDATE items SET p = $1 WHERE id = $2", []any{"1,2", 1}, "malformed record literal"},
		{"UPDATE items SET at = $1 WHERE id = $2", []any{"yesterday", 1}, "invalid input syntax for type timestamp"},
		{"UPDATE items SET at = $1 WHERE id = $2", []any{12, 1}, "invalid input syntax for type timestamp"},
		{"UPDATE items SET blob = $1 WHERE id = $2", []any{`a\b`, 1}, "invalid input syntax for type bytea"},
		{"SELECT id FROM items WHERE id = ANY($1)", []any{"1,2"}, "malformed array literal"},
		{"SELECT id FROM items WHERE name = 5", nil, "operator does not exist"},
		{"UPDATE items SET (name) = ($1) WHERE id = $2", []any{"x", 1}, "ROW() expression"},
		{"INSERT INTO items (id, name, score, flag, kind, nums, p, data, at) VALUES (1, 'x', 1, TRUE, 0, '{1,2,3}', '(1,2)', '{}', '2024-01-01')", nil, "duplicate key"},
		// shapes outside the supported grammar
		{"SELECT * FROM items", nil, "syntax error"},
		{"SELECT id FROM items ORDER BY id", nil, "unsupported statement shape"},
		{"SELECT id FROM items WHERE id > $1", []any{1}, "unsupported condition"},
		{"SELECT id FROM items WHERE NOT id = $1", []any{1}, "unsupported condition"},
		{"SELECT id FROM items WHERE opt IS NOT NULL", nil, "unsupported condition"},
		{"SELECT id FROM items WHERE id = ANY('{1}')", nil, "only ANY($n)"},
		{"SELECT id FROM items; SELECT id FROM items", nil, "unsupported statement shape"},
		{"SELECT id FROM items WHERE (id = $1", []any{1}, "syntax error"},
		{"UPDATE items SET name = $1", []any{"x"}, "WHERE clause expected"},
		{"DELETE FROM items", nil, "WHERE clause expected"},
		{"INSERT INTO items VALUES ($1)", []any{1}, "syntax error"},
		{"INSERT INTO links (iditem, label) VALUES ($1, $2), ($3, $4)", []any{1, "a", 2, "b"}, "unsupported statement shape"},
		{"TRUNCATE items", nil, "unsupported statement"},
		{"", nil, "unsupported statement"},
		{"SELECT id FROM items WHERE name = 'abc", nil, "unterminated"},
	} {
		_, err := db.Exec(c.sql, c.args...)
		if err == nil {
			t.Errorf("%s: no error", c.sql)
			continue
		}
		if !strings.HasPrefix(err.Error(), "vsql:") || !strings.Contains(err.Error(), c.msg) {
			t.Errorf("%s:\n\tgot  %v\n\twant %s", c.sql, err, c.msg)
		}
		if _, err2 := db.Query(c.sql, c.args...); err2 == nil || err2.Error() != err.Error() {
			t.Errorf("%s: Query gives %v, Exec gives %v", c.sql, err2, err)
		}
	}
	// a failed INSERT consumes a serial value (like nextval) but no statement had any other effect
	if after := s.Canon(); after != strings.Replace(before, "id_seq=1", "id_seq=3", 1) { // Exec + Query
		t.Fatalf("state modified by failing statements:\n%s\n%s", before, after)
	}
	log := s.Log()
	if last := log[len(log)-1]; last.SQL != "SELECT id FROM items WHERE name = 'abc" || !strings.Contains(last.Err, "unterminated") {
		t.Fatalf("%+v", last)
	}
	// the PostgreSQL 9 behaviour can be selected
	s.PG9SingleColumnRow = true
	if _, err := db.Exec("UPDATE items SET (name) = ($1) WHERE id = $2", "x", 1); err != nil {
		t.Fatal(err)
	}
	// scan destination mismatches are reported by database/sql
	var a, b int
	if err := db.QueryRow("SELECT id, name FROM items").Scan(&a); err == nil {
		t.Fatal("expected a Scan error (column count)")
	}
	if err := db.QueryRow("SELECT name, id FROM items").Scan(&a, &b); err == nil {
		t.Fatal("expected a Scan error (column order)")
	}
}

func TestCoercions(t *testing.T) {
	_, db := newStore(t)
	if _, err := db.Exec(insertItem, itemArgs("a")...); err != nil {
		t.Fatal(err)
	}
	get := func(col string, v any) any {
		t.Helper()
		var out any
		if err := db.QueryRow("UPDATE items SET "+col+" = $1 WHERE id = 1 RETURNING "+col, v).Scan(&out); err != nil {
			t.Fatalf("%s <- %#v: %v", col, v, err)
		}
		if b, ok := out.([]byte); ok {
			return string(b)
		}
		return out
	}
	for _, c := range []struct {
		col      string
		in, want any
	}{
		{"opt", " 42 ", int64(42)}, {"opt", []byte("-7"), int64(-7)}, {"opt", 3.0, int64(3)},
		{"kind", "+2", int64(2)}, {"kind", int16(-32768), int64(-32768)},
		{"score", 1.0 / 3, float64(0.33333334)}, {"score", 7, float64(7)}, {"score", "1e-3", 0.001}, {"score", 16777217.0, float64(16777216)},
		{"flag", "t", true}, {"flag", "false", false}, {"flag", "TRUE", true}, {"flag", 0, false},
		{"name", 12, "12"}, {"name", 1.5, "1.5"}, {"name", true, "true"}, {"name", []byte("héllo"), "héllo"}, {"name", "", ""},
		{"blob", "abc", "abc"}, {"blob", `\x00ff`, "\x00\xff"}, {"blob", `a\\b\001`, "a\\b\x01"}, {"blob", []byte(`a\b`), `a\b`},
		{"data", []byte(` [1, "x", {"bb":1,"a":{"k":1E-2}}, -0, 1.50] `), `[1, "x", {"a": {"k": 0.01}, "bb": 1}, 0, 1.50]`},
		{"data", `"é\n\u00e9<"`, "\"é\\né<\""},
		{"tags", `{}`, "{}"}, {"tags", `{ a , "b\"c" ,NULL,"NULL", "" ,x\,y}`, `{a,"b\"c",NULL,"NULL","","x,y"}`},
		{"nums", []byte("{ 1,-2 ,NULL}"), "{1,-2,NULL}"},
		{"p", "( 1 ,2)", "(1,2)"}, {"p", `("3",)`, "(3,)"},
		{"at", "2024-03-01 10:00:00.5+02:00", time.Date(2024, 3, 1, 8, 0, 1, 0, time.UTC)},
		{"at", time.Date(1999, 12, 31, 23, 59, 58, 500e6, time.UTC), time.Date(1999, 12, 31, 23, 59, 58, 0, time.UTC)},
		{"at", time.Date(2001, 1, 1, 0, 0, 0, 499999600, time.UTC), time.Date(2001, 1, 1, 0, 0, 1, 0, time.UTC)},
		{"day", "2024-02-29", time.Date(2024, 2, 29, 0, 0, 0, 0, time.UTC)},
		{"day", time.Date(2024, 3, 1, 0, 30, 0, 0, paris), time.Date(2024, 3, 1, 0, 0, 0, 0, time.UTC)},
	} {
		got := get(c.col, c.in)
		if tm, ok := c.want.(time.Time); ok {
			if !tm.Equal(got.(time.Time)) {
				t.Errorf("%s <- %v: got %v want %v", c.col, c.in, got, tm)
			}
		} else if !reflect.DeepEqual(got, c.want) {
			t.Errorf("%s <- %#v: got %#v want %#v", c.col, c.in, got, c.want)
		}
	}
	// jsonb round trip is semantically the identity
	in := `{"z":[true,false,null],"nested":{"b":"\"q\"","a":-12.5e3},"":0}`
	var a, b any
	json.Unmarshal([]byte(in), &a)
	json.Unmarshal([]byte(get("data", in).(string)), &b)
	if !reflect.DeepEqual(a, b) {
		t.Fatal(a, b)
	}
}

func TestTxCopyCloneCanon(t *testing.T) {
	s, db := newStore(t)
	copyLinks := `COPY "links" ("iditem", "idother", "bits", "label") FROM STDIN`
	if _, err := db.Prepare(copyLinks); err == nil {
		t.Fatal("COPY requires a transaction")
	}
	insertMany := func(tx *sql.Tx, rows ...[]any) error {
		stmt, err := tx.Prepare(copyLinks)
		if err != nil {
			return err
		}
		for _, r := range rows {
			if _, err := stmt.Exec(r...); err != nil {
				return err
			}
		}
		if _, err := stmt.Exec(); err != nil {
			return err
		}
		return stmt.Close()
	}
	tx, _ := db.Begin()
	if err := insertMany(tx, []any{1, 2, "{t,f}", "a"}, []any{1, nil, nil, "b"}); err != nil {
		t.Fatal(err)
	}
	var n int
	if err := tx.QueryRow("SELECT iditem FROM links WHERE label = $1", "b").Scan(&n); err != nil || n != 1 {
		t.Fatal(err, n)
	}
	if err := tx.Commit(); err != nil {
		t.Fatal(err)
	}
	committed := s.Canon()
	if strings.Count(committed, "\n") != 4 || !strings.Contains(committed, `"1" | NULL | NULL | "b"`) {
		t.Fatal(committed)
	}

	// rollback restores the rows
	tx, _ = db.Begin()
	if err := insertMany(tx, []any{3, 4, nil, "c"}); err != nil {
		t.Fatal(err)
	}
	tx.Exec("DELETE FROM links WHERE iditem = $1", 1)
	if s.Canon() == committed {
		t.Fatal("transaction had no effect")
	}
	tx.Rollback()
	if s.Canon() != committed {
		t.Fatal(s.Canon())
	}

	// errors in COPY surface at flush; the transaction is then aborted and Commit rolls back
	for _, bad := range [][]any{{1, 2, nil}, {1, 2, nil, "x", 5}, {"x", 2, nil, "l"}, {nil, 2, nil, "l"}, {1, 2, []byte("{t}"), "l"}} {
		tx, _ = db.Begin()
		tx.Exec("INSERT INTO links (iditem, label) VALUES ($1, $2)", 9, "tmp")
		err := insertMany(tx, []any{5, 5, nil, "ok"}, bad)
		wantErr(t, err, "links")
		_, err = tx.Exec("DELETE FROM links WHERE iditem = $1", 1)
		wantErr(t, err, "transaction is aborted")
		wantErr(t, tx.Commit(), "failed transaction")
		if s.Canon() != committed {
			t.Fatal(s.Canon())
		}
	}

	// clones are independent
	c := s.Clone()
	defer c.Close()
	if c.Canon() != committed || len(c.Log()) != 0 {
		t.Fatal(c.Canon())
	}
	if _, err := c.DB().Exec("DELETE FROM links WHERE iditem = $1", 1); err != nil {
		t.Fatal(err)
	}
	if _, err := s.DB().Exec("INSERT INTO links (iditem, label) VALUES ($1, $2)", 7, "s"); err != nil {
		t.Fatal(err)
	}
	if strings.Count(c.Canon(), "\n") != 2 || strings.Count(s.Canon(), "\n") != 5 {
		t.Fatal(c.Canon(), s.Canon())
	}
	// Canon does not depend on insertion order
	x, y := c.Clone(), c.Clone()
	defer x.Close()
	defer y.Close()
	x.DB().Exec("INSERT INTO links (iditem, label) VALUES ($1, $2)", 1, "p")
	x.DB().Exec("INSERT INTO links (iditem, label) VALUES ($1, $2)", 2, "q")
	y.DB().Exec("INSERT INTO links (iditem, label) VALUES ($1, $2)", 2, "q")
	y.DB().Exec("INSERT INTO links (iditem, label) VALUES ($1, $2)", 1, "p")
	if x.Canon() != y.Canon() || x.Canon() == c.Canon() {
		t.Fatal(x.Canon(), y.Canon())
	}
}

func BenchmarkCloneInsertSelect(b *testing.B) {
	base, err := NewStore(testDDL)
	if err != nil {
		b.Fatal(err)
	}
	args := itemArgs("x")
	for i := 0; i < b.N; i++ {
		s := base.Clone()
		db := s.DB()
		var id int64
		if _, err := db.Exec(insertItem, args...); err != nil {
			b.Fatal(err)
		}
		if err := db.QueryRow("SELECT id FROM items WHERE id = $1", 1).Scan(&id); err != nil {
			b.Fatal(err)
		}
		_ = s.Canon()
		s.Close()
	}
}
