package vsql

import (
	"fmt"
	"strconv"
	"strings"
	"unicode"
	"unicode/utf8"
)

type tokKind uint8

const (
	tEOF    tokKind = iota
	tIdent          // unquoted identifier or keyword, folded to lower case
	tQIdent         // "quoted" identifier, taken literally
	tNum            // numeric literal (unsigned)
	tStr            // 'string' literal (s is the unescaped content)
	tParam          // $n (n is the index)
	tPunct          // any other single character
	tDollar         // $$ ... $$ or $tag$ ... $tag$ body
)

type token struct {
	kind tokKind
	s    string
	n    int
	pos  int // byte offset in the source
}

func (t token) String() string {
	switch t.kind {
	case tEOF:
		return "end of statement"
	case tParam:
		return "$" + strconv.Itoa(t.n)
	case tStr:
		return "'" + t.s + "'"
	}
	return strconv.Quote(t.s)
}

func errf(format string, args ...any) error { return fmt.Errorf("vsql: "+format, args...) }

// The lexer and the parsers report errors by panicking with a sqlError, recovered by catch.
type sqlError struct{ error }

func fail(format string, args ...any) { panic(sqlError{errf(format, args...)}) }

func catch(err *error) {
	if r := recover(); r != nil {
		e, ok := r.(sqlError)
		if !ok {
			panic(r)
		}
		*err = e.error
	}
}

func isIdentStart(r rune) bool { return r == '_' || unicode.IsLetter(r) }
func isIdentPart(r rune) bool  { return isIdentStart(r) || r == '$' || unicode.IsDigit(r) }
func isDigit(c byte) bool      { return '0' <= c && c <= '9' }

// lex splits SQL text into tokens, dropping whitespace, `--` and `/* */` comments.
func lex(src string) []token {
	var out []token
	for i := 0; i < len(src); {
		c := src[i]
		start := i
		switch {
		case c == ' ' || c == '\t' || c == '\n' || c == '\r' || c == '\f':
			i++
		case strings.HasPrefix(src[i:], "--"):
			if nl := strings.IndexByte(src[i:], '\n'); nl >= 0 {
				i += nl + 1
			} else {
				i = len(src)
			}
		case strings.HasPrefix(src[i:], "/*"):
			end := strings.Index(src[i+2:], "*/")
			if end < 0 {
				fail("syntax error: unterminated /* comment at offset %d", i)
			}
			i += end + 4
		case c == '\'' || c == '"':
			var sb strings.Builder
			for i++; ; i++ {
				if i >= len(src) {
					fail("syntax error: unterminated quoted string at offset %d", start)
				}
				if src[i] == c {
					if i+1 < len(src) && src[i+1] == c { // doubled quote
						i++
					} else {
						break
					}
				}
				sb.WriteByte(src[i])
			}
			i++
			if c == '"' {
				if sb.Len() == 0 {
					fail("syntax error: zero-length delimited identifier at offset %d", start)
				}
				out = append(out, token{kind: tQIdent, s: sb.String(), pos: start})
			} else {
				out = append(out, token{kind: tStr, s: sb.String(), pos: start})
			}
		case c == '$':
			j := i + 1
			for j < len(src) && isDigit(src[j]) {
				j++
			}
			if j > i+1 {
				n, err := strconv.Atoi(src[i+1 : j])
				if err != nil || (j < len(src) && isIdentStart(rune(src[j]))) {
					fail("syntax error: invalid placeholder %q", src[i:j])
				}
				out = append(out, token{kind: tParam, n: n, s: src[i:j], pos: start})
				i = j
				break
			}
			for j < len(src) && src[j] != '$' && isIdentPart(rune(src[j])) {
				j++
			}
			if j >= len(src) || src[j] != '$' {
				fail("syntax error at or near \"$\" (offset %d)", i)
			}
			tag := src[i : j+1]
			end := strings.Index(src[j+1:], tag)
			if end < 0 {
				fail("syntax error: unterminated dollar-quoted string at offset %d", i)
			}
			out = append(out, token{kind: tDollar, s: src[j+1 : j+1+end], pos: start})
			i = j + 1 + end + len(tag)
		case isDigit(c) || (c == '.' && i+1 < len(src) && isDigit(src[i+1])):
			for i < len(src) && isDigit(src[i]) {
				i++
			}
			if i < len(src) && src[i] == '.' {
				for i++; i < len(src) && isDigit(src[i]); i++ {
				}
			}
			if i < len(src) && (src[i] == 'e' || src[i] == 'E') {
				j := i + 1
				if j < len(src) && (src[j] == '+' || src[j] == '-') {
					j++
				}
				if j < len(src) && isDigit(src[j]) {
					for i = j; i < len(src) && isDigit(src[i]); i++ {
					}
				}
			}
			if r, _ := utf8.DecodeRuneInString(src[i:]); i < len(src) && isIdentStart(r) {
				fail("syntax error: trailing junk after numeric literal %q", src[start:i])
			}
			out = append(out, token{kind: tNum, s: src[start:i], pos: start})
		default:
			r, size := utf8.DecodeRuneInString(src[i:])
			if isIdentStart(r) {
				for i += size; i < len(src); i += size {
					if r, size = utf8.DecodeRuneInString(src[i:]); !isIdentPart(r) {
						break
					}
				}
				out = append(out, token{kind: tIdent, s: strings.ToLower(src[start:i]), pos: start})
			} else {
				i += size
				out = append(out, token{kind: tPunct, s: src[start:i], pos: start})
			}
		}
	}
	return append(out, token{kind: tEOF, pos: len(src)})
}

// parser is a cursor over a token slice. Its methods panic (see fail) on syntax errors.
type parser struct {
	src  string
	toks []token
	i    int
}

func (p *parser) peek() token { return p.toks[p.i] }
func (p *parser) next() token {
	t := p.toks[p.i]
	if t.kind != tEOF {
		p.i++
	}
	return t
}

func (p *parser) isKw(kw string) bool   { t := p.peek(); return t.kind == tIdent && t.s == kw }
func (p *parser) isPunct(c string) bool { t := p.peek(); return t.kind == tPunct && t.s == c }
func (p *parser) unexpected(want string) {
	fail("syntax error at or near %v (offset %d): expected %s", p.peek(), p.peek().pos, want)
}

// acceptKw consumes the given keywords if they all come next.
func (p *parser) acceptKw(kws ...string) bool {
	for k, kw := range kws {
		if t := p.toks[min(p.i+k, len(p.toks)-1)]; t.kind != tIdent || t.s != kw {
			return false
		}
	}
	p.i += len(kws)
	return true
}

func (p *parser) acceptPunct(c string) bool {
	if p.isPunct(c) {
		p.i++
		return true
	}
	return false
}

func (p *parser) expectKw(kws ...string) {
	if !p.acceptKw(kws...) {
		p.unexpected(strings.ToUpper(strings.Join(kws, " ")))
	}
}

func (p *parser) expectPunct(c string) {
	if !p.acceptPunct(c) {
		p.unexpected(strconv.Quote(c))
	}
}

// ident reads an identifier (folded unless quoted).
func (p *parser) ident(what string) string {
	t := p.peek()
	if t.kind != tIdent && t.kind != tQIdent {
		p.unexpected(what)
	}
	p.i++
	return t.s
}

// identList reads `( ident, ident, ... )` when parens is set, else `ident, ident, ...`.
func (p *parser) identList(parens bool, what string) []string {
	if parens {
		p.expectPunct("(")
	}
	out := []string{p.ident(what)}
	for p.acceptPunct(",") {
		out = append(out, p.ident(what))
	}
	if parens {
		p.expectPunct(")")
	}
	return out
}

// skipBalanced consumes a parenthesised group, the cursor being on "(".
func (p *parser) skipBalanced() {
	p.expectPunct("(")
	for depth := 1; depth > 0; {
		switch t := p.next(); {
		case t.kind == tEOF:
			fail("syntax error: unbalanced parenthesis")
		case t.kind == tPunct && t.s == "(":
			depth++
		case t.kind == tPunct && t.s == ")":
			depth--
		}
	}
}

// literal is an SQL constant: NULL, TRUE/FALSE, a number (with sign) or a 'string'.
type literal struct {
	kind byte // 'n'ull, 'b'ool, '#' number, 's'tring
	s    string
	b    bool
}

func (l literal) String() string {
	switch l.kind {
	case 'n':
		return "NULL"
	case 'b':
		return strings.ToUpper(strconv.FormatBool(l.b))
	case 's':
		return "'" + strings.ReplaceAll(l.s, "'", "''") + "'"
	}
	return l.s
}

// literal reads a constant; ok is false (and nothing consumed) if the next token is not one.
func (p *parser) literal() (lit literal, ok bool) {
	switch t := p.peek(); {
	case t.kind == tStr:
		lit = literal{kind: 's', s: t.s}
	case t.kind == tNum:
		lit = literal{kind: '#', s: t.s}
	case t.kind == tPunct && (t.s == "-" || t.s == "+") && p.toks[p.i+1].kind == tNum:
		p.i++
		lit = literal{kind: '#', s: strings.TrimPrefix(t.s, "+") + p.peek().s}
	case t.kind == tIdent && (t.s == "true" || t.s == "false"):
		lit = literal{kind: 'b', b: t.s == "true"}
	case t.kind == tIdent && t.s == "null":
		lit = literal{kind: 'n'}
	default:
		return lit, false
	}
	p.i++
	return lit, true
}
