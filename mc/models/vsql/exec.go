package vsql

import (
	"database/sql/driver"
)

// tri is SQL three-valued logic.
type tri uint8

const (
	tFalse tri = iota
	tTrue
	tNull
)

func triOf(b bool) tri {
	if b {
		return tTrue
	}
	return tFalse
}

func (c *cond) eval(tbl *table, row, params []any) tri {
	value := func(o operand) any {
		if o.param > 0 {
			return params[o.param-1]
		}
		return o.val
	}
	switch c.kind {
	case cAnd:
		l, r := c.l.eval(tbl, row, params), c.r.eval(tbl, row, params)
		if l == tFalse || r == tFalse {
			return tFalse
		} else if l == tNull || r == tNull {
			return tNull
		}
		return tTrue
	case cOr:
		l, r := c.l.eval(tbl, row, params), c.r.eval(tbl, row, params)
		if l == tTrue || r == tTrue {
			return tTrue
		} else if l == tNull || r == tNull {
			return tNull
		}
		return tFalse
	case cColNull:
		return triOf(row[c.col] == nil)
	case cParamNull:
		return triOf(value(c.rhs) == nil)
	case cEq:
		l, r := row[c.col], value(c.rhs)
		if l == nil || r == nil {
			return tNull
		}
		return triOf(tbl.cols[c.col].typ.equal(l, r))
	case cAny:
		l, arr := row[c.col], value(c.rhs)
		if arr == nil {
			return tNull
		} else if len(arr.([]any)) == 0 {
			return tFalse
		} else if l == nil {
			return tNull
		}
		out := tFalse
		for _, e := range arr.([]any) {
			if e == nil {
				out = tNull
			} else if tbl.cols[c.col].typ.equal(l, e) {
				return tTrue
			}
		}
		return out
	}
	panic("unreachable")
}

// bindArgs checks the arguments against the placeholders and converts them to the inferred types.
func (st *stmt) bindArgs(args []driver.Value) ([]any, error) {
	for i := range st.ptypes {
		if i >= len(args) && (st.ptypes[i] != nil || st.pnull[i]) {
			return nil, errf("placeholder $%d out of range: the statement received %d argument(s)", i+1, len(args))
		}
	}
	vals := make([]any, len(args))
	for i, a := range args {
		if i >= len(st.ptypes) || (st.ptypes[i] == nil && !st.pnull[i]) {
			return nil, errf("argument $%d is never referenced by the statement (%d argument(s) received)", i+1, len(args))
		}
		v, err := st.ptypes[i].fromDriver(a, false)
		if err != nil {
			return nil, errf("invalid value for parameter $%d (column %q, type %s): %v", i+1, st.pcols[i], st.ptypes[i].text, err)
		}
		vals[i] = v
	}
	return vals, nil
}

type result struct {
	cols     []string
	rows     [][]driver.Value
	affected int64
}

func (r *result) add(tbl *table, cols []int, row []any) {
	out := make([]driver.Value, len(cols))
	for i, ci := range cols {
		out[i] = tbl.cols[ci].typ.toDriver(row[ci])
	}
	r.rows = append(r.rows, out)
}

// newRow builds a full row from the listed columns, applying serial counters and defaults,
// then checks the NOT NULL constraints.
func (s *Store) newRow(ti int, cols []int, vals []any) ([]any, error) {
	tbl := s.sc.tables[ti]
	row, listed := make([]any, len(tbl.cols)), make([]bool, len(tbl.cols))
	for i, ci := range cols {
		row[ci], listed[ci] = vals[i], true
	}
	for ci, c := range tbl.cols {
		if listed[ci] {
			continue
		} else if c.serial { // like nextval(): consumed even if the statement fails later
			s.serial[ti][ci]++
			row[ci] = s.serial[ti][ci]
		} else if c.hasDef {
			row[ci] = c.def
		}
	}
	return row, tbl.checkRow(row)
}

func (tbl *table) checkRow(row []any) error {
	for ci, c := range tbl.cols {
		if c.notNull && row[ci] == nil {
			return errf("null value in column %q of table %q violates not-null constraint", c.name, tbl.name)
		}
	}
	return nil
}

// checkPrimary enforces the uniqueness of `PRIMARY KEY` columns.
func (tbl *table) checkPrimary(rows [][]any) error {
	for ci, c := range tbl.cols {
		if !c.primary {
			continue
		}
		seen := make(map[string]bool, len(rows))
		for _, row := range rows {
			key := c.typ.textOut(row[ci])
			if seen[key] {
				return errf("duplicate key value violates unique constraint: table %q already has %s = %s", tbl.name, c.name, key)
			}
			seen[key] = true
		}
	}
	return nil
}

// run executes a statement (not COPY). The store is modified only on success.
func (s *Store) run(st *stmt, args []driver.Value) (*result, error) {
	params, err := st.bindArgs(args)
	if err != nil {
		return nil, err
	}
	value := func(o operand) any {
		if o.param > 0 {
			return params[o.param-1]
		}
		return o.val
	}
	tbl, rows := st.tbl, s.rows[st.ti]
	res := &result{}
	outCols := st.ret
	if st.kind == stSelect {
		outCols = st.cols
	}
	for _, ci := range outCols {
		res.cols = append(res.cols, tbl.cols[ci].name)
	}
	matches := func(row []any) bool { return st.where == nil || st.where.eval(tbl, row, params) == tTrue }

	switch st.kind {
	case stSelect:
		for _, row := range rows {
			if matches(row) {
				res.add(tbl, outCols, row)
				res.affected++
			}
		}
	case stInsert:
		vals := make([]any, len(st.vals))
		for i, o := range st.vals {
			vals[i] = value(o)
		}
		row, err := s.newRow(st.ti, st.cols, vals)
		if err != nil {
			return nil, err
		}
		rows = append(rows, row) // snapshots own their backing arrays
		if err := tbl.checkPrimary(rows); err != nil {
			return nil, err
		}
		s.rows[st.ti] = rows
		res.add(tbl, outCols, row)
		res.affected = 1
	case stUpdate:
		updated := make([][]any, len(rows))
		for ri, row := range rows {
			updated[ri] = row
			if !matches(row) {
				continue
			}
			nr := append([]any(nil), row...)
			for _, a := range st.sets {
				nr[a.col] = value(a.src)
			}
			if err := tbl.checkRow(nr); err != nil {
				return nil, err
			}
			updated[ri] = nr
			res.add(tbl, outCols, nr)
			res.affected++
		}
		if err := tbl.checkPrimary(updated); err != nil {
			return nil, err
		}
		s.rows[st.ti] = updated
	case stDelete:
		kept := make([][]any, 0, len(rows))
		for _, row := range rows {
			if matches(row) {
				res.add(tbl, outCols, row)
				res.affected++
			} else {
				kept = append(kept, row)
			}
		}
		s.rows[st.ti] = kept
	}
	return res, nil
}
