package vsql

import (
	"database/sql"
	"regexp"
	"strings"
	"testing"
	"time"

	"github.com/benoitkugler/gomacro/analysis"
	"github.com/benoitkugler/gomacro/generator"
	"github.com/benoitkugler/gomacro/generator/go/sqlcrud"
	gensql "github.com/benoitkugler/gomacro/generator/sql"
	"golang.org/x/tools/go/packages"
)

// generateFixture runs both generators on the fixture used by their own tests and returns the
// raw (unformatted) outputs. It mirrors analysis.LoadSource, except that the generated file
// crud_gen.go living next to the fixture is masked by an overlay: the generators' tests rewrite
// it and a stale copy does not type-check, which makes analysis.LoadSource fail.
func generateFixture(t *testing.T) (ddl, crud string) {
	t.Helper()
	dir := "/repo/analysis/sql/test"
	src := dir + "/models.go"
	cfg := &packages.Config{
		Dir: dir,
		Mode: packages.NeedName | packages.NeedFiles | packages.NeedSyntax |
			packages.NeedTypes | packages.NeedImports | packages.NeedDeps | packages.NeedTypesInfo,
		Overlay: map[string][]byte{dir + "/crud_gen.go": []byte("package test\n")},
	}
	pkgs, err := packages.Load(cfg, "file="+src)
	if err != nil {
		t.Skip("fixture not loadable:", err)
	}
	if len(pkgs) != 1 || packages.PrintErrors(pkgs) > 0 {
		t.Fatal("fixture package has errors")
	}
	ana := analysis.NewAnalysisFromFile(pkgs[0], src)
	return generator.WriteDeclarations(gensql.Generate(ana)), generator.WriteDeclarations(sqlcrud.Generate(ana, true))
}

var (
	reSQL    = regexp.MustCompile("(?s)`((?:INSERT|UPDATE|DELETE|SELECT)[^`]*)`|\"((?:INSERT|UPDATE|DELETE|SELECT) [^\"\n]*)\"")
	reCopyIn = regexp.MustCompile(`pq\.CopyIn\("(\w+)",\s*((?:"\w+",\s*)+)\)`)
)

// copyIn duplicates the format of pq.CopyIn.
func copyIn(table string, cols ...string) string {
	return `COPY "` + table + `" ("` + strings.Join(cols, `", "`) + `") FROM STDIN`
}

func TestEndToEndFixture(t *testing.T) {
	ddl, crud := generateFixture(t)

	// the fixture uses a composite type declared by another package: PostgreSQL (and vsql) need its declaration
	_, err := NewStore(ddl)
	wantErr(t, err, `unknown column type "comp"`)
	s, err := NewStore("CREATE TYPE Comp AS (A smallint, B smallint);\n" + ddl)
	if err != nil {
		t.Fatal(err)
	}
	defer s.Close()
	if w := s.Warnings(); len(w) != 1 || !strings.Contains(w[0], `"order"`) { // Repas.Order
		t.Fatal(w)
	}
	names := map[string]TableInfo{}
	for _, ta := range s.Tables() {
		names[ta.Name] = ta
	}
	if len(names) != 10 || len(names["table1s"].Columns) != 12 || !names["table1s"].Columns[10].HasDefault ||
		names["table1s"].Columns[7].Type != "composite" || names["with_optional_times"].Columns[2].Type != "timestamp (0) with time zone" {
		t.Fatalf("%+v", s.Tables())
	}

	// every statement text found in the generated code is understood, with two exceptions which PostgreSQL >= 10
	// rejects as well (tables with a single non primary column)
	var stmts []string
	for _, m := range reSQL.FindAllStringSubmatch(crud, -1) {
		stmts = append(stmts, m[1]+m[2])
	}
	for _, m := range reCopyIn.FindAllStringSubmatch(crud, -1) {
		stmts = append(stmts, copyIn(m[1], regexp.MustCompile(`\w+`).FindAllString(m[2], -1)...))
	}
	if len(stmts) < 80 {
		t.Fatal("statements not found in the generated code", len(stmts))
	}
	var rejected []string
	for _, q := range stmts {
		if _, err := s.prepare(q); err != nil {
			wantErr(t, err, "ROW() expression")
			rejected = append(rejected, oneLine(q))
		}
	}
	if len(rejected) != 1 || !strings.HasPrefix(rejected[0], "UPDATE progressions SET ( idexercice ) = ( $1 )") {
		t.Fatal(rejected)
	}
	find := func(prefix string) string {
		t.Helper()
		for _, q := range stmts {
			if strings.HasPrefix(oneLine(q), prefix) {
				return q
			}
		}
		t.Fatal("no generated statement starts with", prefix)
		return ""
	}

	db := s.DB()
	// Exercice.Insert, twice
	var (
		id, flow, idTeacher int64
		title, desc         string
		params              []byte
		public              bool
	)
	for want := int64(1); want <= 2; want++ {
		err = db.QueryRow(find("INSERT INTO exercices"), "title", "desc", `{"k":true}`, 4, 12, false).
			Scan(&id, &title, &desc, &params, &flow, &idTeacher, &public)
		if err != nil || id != want || title != "title" || string(params) != `{"k": true}` || flow != 4 || idTeacher != 12 || public {
			t.Fatal(err, id, title, string(params), flow, idTeacher, public)
		}
	}
	// Exercice.Update
	err = db.QueryRow(find("UPDATE exercices SET"), "new title", "desc", `null`, 0, 13, true, 2).
		Scan(&id, &title, &desc, &params, &flow, &idTeacher, &public)
	if err != nil || id != 2 || title != "new title" || string(params) != "null" || idTeacher != 13 || !public {
		t.Fatal(err, id, title, string(params))
	}
	// SelectExercices(ids...) and SelectAllExercices
	for q, args := range map[string][]any{
		find("SELECT id, title, description, parameters, flow, idteacher, public FROM exercices WHERE id = ANY($1)"): {"{2,1,5}"},
		"SELECT id, title, description, parameters, flow, idteacher, public FROM exercices":                          nil,
	} {
		rows, err := db.Query(q, args...)
		if err != nil {
			t.Fatal(err)
		}
		var titles []string
		for rows.Next() {
			if err := rows.Scan(&id, &title, &desc, &params, &flow, &idTeacher, &public); err != nil {
				t.Fatal(err)
			}
			titles = append(titles, title)
		}
		if strings.Join(titles, ",") != "title,new title" {
			t.Fatal(titles)
		}
	}
	// Question.Insert with a NULL foreign key, then Table1.Insert
	if err = db.QueryRow(find("INSERT INTO questions"), `{"with_tag":null}`, true, 1, "d", sql.NullInt64{}).Scan(new(int64), &params, &public, &id, &desc, new(sql.NullInt64)); err != nil {
		t.Fatal(err)
	}
	if _, err = db.Exec(find("INSERT INTO repass"), "first", 1); err != nil {
		t.Fatal(err)
	}
	var f, strs, cp, ext, ba []byte
	var l, other, optKey sql.NullInt64
	err = db.QueryRow(find("INSERT INTO table1s"), 1, 1, nil, nil, "{1,2,3,4,5}", nil, []byte("(1, 2, 3)"), []byte("(4, 5)"), "{t,f,t}", 1).
		Scan(&id, new(int64), new(int64), &l, &other, &f, &strs, &cp, &ext, &ba, &optKey)
	if err != nil || id != 1 || l.Valid || string(f) != "{1,2,3,4,5}" || strs != nil || string(cp) != "(1,2,3)" || string(ext) != "(4,5)" || string(ba) != "{t,f,t}" || optKey.Int64 != 1 {
		t.Fatal(err, id, l, string(f), strs, string(cp), string(ext), string(ba), optKey)
	}
	if !strings.Contains(s.Canon(), `"(4,5)" | "{t,f,t}" | "0" | "1"`) { // guard column takes its DEFAULT
		t.Fatal(s.Canon())
	}
	// custom queries
	res, err := db.Exec(find("UPDATE table1s SET F = $1 WHERE Ex1 = $2 OR Ex2 = $2"), "{5,4,3,2,1}", 1)
	if n, _ := res.RowsAffected(); err != nil || n != 1 {
		t.Fatal(err, n)
	}
	res, err = db.Exec(find("UPDATE table1s SET Ex1 = $1 WHERE F = $2"), 7, "{5,4,3,2,1}")
	if n, _ := res.RowsAffected(); err != nil || n != 1 {
		t.Fatal(err, n)
	}
	res, err = db.Exec(find("UPDATE repass SET Order = $1 WHERE V = 0 /* LocalEnum.A */"), "x")
	if n, _ := res.RowsAffected(); err != nil || n != 0 {
		t.Fatal(err, n)
	}
	// link table: Insert, InsertMany (COPY inside a transaction), Delete, Delete...ByIdExercices
	if _, err = db.Exec(find("INSERT INTO exercice_questions"), 1, 1, 3, 0); err != nil {
		t.Fatal(err)
	}
	tx, err := db.Begin()
	if err != nil {
		t.Fatal(err)
	}
	stmt, err := tx.Prepare(find(`COPY "exercice_questions"`))
	if err != nil {
		t.Fatal(err)
	}
	for i := 1; i <= 3; i++ {
		if _, err = stmt.Exec(2, 1, 5, i); err != nil {
			t.Fatal(err)
		}
	}
	if _, err = stmt.Exec(); err != nil {
		t.Fatal(err)
	}
	if err = stmt.Close(); err != nil {
		t.Fatal(err)
	}
	if err = tx.Commit(); err != nil {
		t.Fatal(err)
	}
	res, err = db.Exec(find("DELETE FROM exercice_questions WHERE IdExercice = $1 AND IdQuestion = $2;"), 1, 1)
	if n, _ := res.RowsAffected(); err != nil || n != 1 {
		t.Fatal(err, n)
	}
	rows, err := db.Query(find("DELETE FROM exercice_questions WHERE idexercice = ANY($1) RETURNING"), "{2}")
	if err != nil {
		t.Fatal(err)
	}
	n := 0
	for rows.Next() {
		var a, b, c, d int64
		if err := rows.Scan(&a, &b, &c, &d); err != nil || a != 2 || b != 1 || c != 5 || d != int64(n+1) {
			t.Fatal(err, a, b, c, d)
		}
		n++
	}
	if n != 3 {
		t.Fatal(n)
	}
	// nullable timestamps
	var t1 time.Time
	var t2 sql.NullTime
	now := time.Now()
	if err = db.QueryRow(find("INSERT INTO with_optional_times"), now, sql.NullTime{}).Scan(&id, &t1, &t2); err != nil || t2.Valid || !t1.Equal(now.Round(time.Second)) {
		t.Fatal(err, t1, t2)
	}
	// DeleteExerciceById returns the item
	if err = db.QueryRow(find("DELETE FROM exercices WHERE id = $1 RETURNING"), 1).Scan(&id, &title, &desc, &params, &flow, &idTeacher, &public); err != nil || title != "title" {
		t.Fatal(err, title)
	}
	// schema violations by hand-made calls
	_, err = db.Exec(find("INSERT INTO exercice_questions"), 1, 1, 1<<15, 0)
	wantErr(t, err, "bareme", "smallint")
	_, err = db.Exec(find("INSERT INTO exercice_questions"), 1, 1, 0)
	wantErr(t, err, "placeholder $4 out of range")
	for _, e := range s.Log() {
		if e.SQL == "" {
			t.Fatal("empty log entry")
		}
	}
}

// TestPQArrayFormats feeds vsql array columns with the text produced by the Value methods of
// lib/pq's array types (the few formatting lines are duplicated here: vsql does not import pq).
func TestPQArrayFormats(t *testing.T) {
	pqStrings := func(a []string) any { // pq.StringArray.Value
		if a == nil {
			return nil
		}
		quoted := make([]string, len(a))
		for i, s := range a {
			quoted[i] = `"` + strings.NewReplacer(`\`, `\\`, `"`, `\"`).Replace(s) + `"`
		}
		return "{" + strings.Join(quoted, ",") + "}"
	}
	s, err := NewStore(`CREATE TABLE a (Id serial PRIMARY KEY, S text[], I integer[], F real[], B boolean[], Sm smallint[] NOT NULL);`)
	if err != nil {
		t.Fatal(err)
	}
	defer s.Close()
	db := s.DB()
	insert := "INSERT INTO a (s, i, f, b, sm) VALUES ($1, $2, $3, $4, $5) RETURNING s, i, f, b, sm"
	var sa, ia, fa, ba, sma []byte
	strs := []string{"a", "b c", `with "quote"`, `back\slash`, "", "NULL", "{x,y}", "é"}
	err = db.QueryRow(insert, pqStrings(strs), "{1,-2,3}", "{1.5,0.1,-2}", "{t,f}", "{}").Scan(&sa, &ia, &fa, &ba, &sma)
	if err != nil {
		t.Fatal(err)
	}
	// what PostgreSQL prints; pq.StringArray.Scan parses it back to the original strings
	if string(sa) != `{a,"b c","with \"quote\"","back\\slash","","NULL","{x,y}",é}` {
		t.Fatal(string(sa))
	}
	elems, err := splitArray(string(sa))
	if err != nil || len(elems) != len(strs) {
		t.Fatal(err, elems)
	}
	for i := range strs {
		if *elems[i] != strs[i] {
			t.Fatal(i, *elems[i])
		}
	}
	if string(ia) != "{1,-2,3}" || string(fa) != "{1.5,0.1,-2}" || string(ba) != "{t,f}" || string(sma) != "{}" {
		t.Fatal(string(ia), string(fa), string(ba), string(sma))
	}
	// nil slices are NULL; a NULL is rejected by NOT NULL columns
	if err = db.QueryRow(insert, pqStrings(nil), nil, nil, nil, "{1}").Scan(&sa, &ia, &fa, &ba, &sma); err != nil || sa != nil || ia != nil || ba != nil {
		t.Fatal(err, sa, ia, ba)
	}
	_, err = db.Exec(insert, nil, nil, nil, nil, nil)
	wantErr(t, err, `null value in column "sm"`)
	// elements are checked against the element type
	_, err = db.Exec(insert, nil, "{1,2.5}", nil, nil, "{}")
	wantErr(t, err, "$2", "integer")
	_, err = db.Exec(insert, nil, nil, nil, "{true,2}", "{}")
	wantErr(t, err, "$4", "boolean")
	_, err = db.Exec(insert, nil, nil, nil, nil, "{40000}")
	wantErr(t, err, "$5", "out of range for type smallint")
	// = ANY($1) with a pq.Int64Array / pq.StringArray value
	var n int
	if err = db.QueryRow("SELECT id FROM a WHERE id = ANY($1)", "{2,3}").Scan(&n); err != nil || n != 2 {
		t.Fatal(err, n)
	}
}
