package vsql

import (
	"context"
	"database/sql"
	"database/sql/driver"
	"io"
)

// DB returns the database/sql handle bound to this store (one per store, one connection).
// Call Close on the store (or on the handle) when the store is discarded.
func (s *Store) DB() *sql.DB {
	s.mu.Lock()
	defer s.mu.Unlock()
	if s.db == nil {
		s.db = sql.OpenDB(connector{s})
		s.db.SetMaxOpenConns(1)
	}
	return s.db
}

// Close releases the handle created by DB, if any. The store remains usable.
func (s *Store) Close() error {
	s.mu.Lock()
	db := s.db
	s.db = nil
	s.mu.Unlock()
	if db != nil {
		return db.Close()
	}
	return nil
}

// Log returns every statement executed since ResetLog.
func (s *Store) Log() []Executed {
	s.mu.Lock()
	defer s.mu.Unlock()
	return append([]Executed(nil), s.log...)
}

func (s *Store) ResetLog() {
	s.mu.Lock()
	defer s.mu.Unlock()
	s.log = nil
}

type connector struct{ s *Store }

func (c connector) Connect(context.Context) (driver.Conn, error) { return &conn{s: c.s}, nil }
func (c connector) Driver() driver.Driver                        { return c }
func (c connector) Open(string) (driver.Conn, error)             { return &conn{s: c.s}, nil }

type conn struct {
	s              *Store
	inTx, failedTx bool
	snapRows       [][][]any
}

// record logs a statement and maintains the "aborted transaction" state. s.mu is held.
func (c *conn) record(sql string, args []driver.Value, err error) error {
	e := Executed{SQL: sql}
	for _, a := range args {
		if b, ok := a.([]byte); ok {
			a = append([]byte(nil), b...)
		}
		e.Args = append(e.Args, a)
	}
	if err != nil {
		e.Err = err.Error()
		c.failedTx = c.inTx
	}
	c.s.log = append(c.s.log, e)
	return err
}

func (c *conn) aborted() error {
	if c.failedTx {
		return errf("current transaction is aborted, commands ignored until end of transaction block")
	}
	return nil
}

func (c *conn) Close() error { return nil }

func (c *conn) Prepare(query string) (driver.Stmt, error) {
	c.s.mu.Lock()
	defer c.s.mu.Unlock()
	if err := c.aborted(); err != nil {
		return nil, c.record(query, nil, err)
	}
	st, err := c.s.prepare(query)
	if err != nil {
		return nil, c.record(query, nil, err) // like lib/pq, errors of the statement text surface at Prepare
	}
	if st.kind == stCopy {
		if !c.inTx {
			return nil, c.record(query, nil, errf("COPY outside of a transaction is not supported (as in lib/pq)"))
		}
		return &copyStmt{c: c, st: st}, nil
	}
	return &dstmt{c: c, st: st}, nil
}

func (c *conn) Begin() (driver.Tx, error) {
	c.s.mu.Lock()
	defer c.s.mu.Unlock()
	if c.inTx {
		return nil, errf("a transaction is already in progress")
	}
	// Serial counters are deliberately not part of the snapshot: PostgreSQL sequences are not rolled back.
	c.snapRows, _ = c.s.snapshot()
	c.inTx, c.failedTx = true, false
	return c, nil
}

func (c *conn) end(restore bool) {
	if restore {
		c.s.rows = c.snapRows
	}
	c.snapRows, c.inTx, c.failedTx = nil, false, false
}

func (c *conn) Commit() error {
	c.s.mu.Lock()
	defer c.s.mu.Unlock()
	failed := c.failedTx
	c.end(failed)
	if failed {
		return errf("could not complete operation in a failed transaction (rolled back)")
	}
	return nil
}

func (c *conn) Rollback() error {
	c.s.mu.Lock()
	defer c.s.mu.Unlock()
	c.end(true)
	return nil
}

type dstmt struct {
	c  *conn
	st *stmt
}

func (d *dstmt) Close() error  { return nil }
func (d *dstmt) NumInput() int { return -1 } // argument count checked (and logged) by vsql itself

func (d *dstmt) run(args []driver.Value) (*result, error) {
	c := d.c
	c.s.mu.Lock()
	defer c.s.mu.Unlock()
	if err := c.aborted(); err != nil {
		return nil, c.record(d.st.sql, args, err)
	}
	res, err := c.s.run(d.st, args)
	return res, c.record(d.st.sql, args, err)
}

func (d *dstmt) Exec(args []driver.Value) (driver.Result, error) {
	res, err := d.run(args)
	if err != nil {
		return nil, err
	}
	return driver.RowsAffected(res.affected), nil // LastInsertId unsupported, as in lib/pq
}

func (d *dstmt) Query(args []driver.Value) (driver.Rows, error) {
	res, err := d.run(args)
	if err != nil {
		return nil, err
	}
	return &rows{res: res}, nil
}

type rows struct {
	res *result
	i   int
}

func (r *rows) Columns() []string { return r.res.cols }
func (r *rows) Close() error      { return nil }
func (r *rows) Next(dest []driver.Value) error {
	if r.i >= len(r.res.rows) {
		return io.EOF
	}
	copy(dest, r.res.rows[r.i])
	r.i++
	return nil
}

// copyStmt mimics lib/pq's COPY FROM STDIN statement: Exec(values...) buffers a row,
// Exec() sends everything, Close ends the copy (flushing if needed).
type copyStmt struct {
	c    *conn
	st   *stmt
	rows [][]any
	err  error // first error, reported by the server at flush time
	done bool
}

func (cs *copyStmt) NumInput() int { return -1 }

func (cs *copyStmt) Query([]driver.Value) (driver.Rows, error) {
	return nil, errf("Query is not supported on a COPY statement")
}

func (cs *copyStmt) Close() error {
	if cs.done {
		return nil
	}
	_, err := cs.Exec(nil)
	return err
}

func (cs *copyStmt) Exec(args []driver.Value) (driver.Result, error) {
	c, st := cs.c, cs.st
	c.s.mu.Lock()
	defer c.s.mu.Unlock()
	if cs.done {
		return nil, c.record(st.sql, args, errf("COPY statement has already been closed"))
	}
	if err := c.aborted(); err != nil {
		return nil, c.record(st.sql, args, err)
	}
	if len(args) > 0 { // buffer one row
		row := make([]any, len(st.cols))
		var err error
		if len(args) < len(st.cols) {
			err = errf("COPY %s: missing data for column %q", st.tbl.name, st.tbl.cols[st.cols[len(args)]].name)
		} else if len(args) > len(st.cols) {
			err = errf("COPY %s: extra data after last expected column (%d values for %d columns)", st.tbl.name, len(args), len(st.cols))
		}
		for i := 0; i < len(st.cols) && err == nil; i++ {
			col := st.tbl.cols[st.cols[i]]
			if row[i], err = col.typ.fromDriver(args[i], true); err != nil {
				err = errf("COPY %s: invalid value for column %q (%s): %v", st.tbl.name, col.name, col.typ.text, err)
			}
		}
		if cs.err == nil {
			cs.err = err
		}
		cs.rows = append(cs.rows, row)
		return driver.RowsAffected(0), c.record(st.sql, args, nil)
	}
	cs.done = true
	if cs.err != nil {
		return nil, c.record(st.sql, nil, cs.err)
	}
	all := c.s.rows[st.ti]
	for _, vals := range cs.rows {
		row, err := c.s.newRow(st.ti, st.cols, vals)
		if err != nil {
			return nil, c.record(st.sql, nil, err)
		}
		all = append(all, row)
	}
	if err := st.tbl.checkPrimary(all); err != nil {
		return nil, c.record(st.sql, nil, err)
	}
	c.s.rows[st.ti] = all
	return driver.RowsAffected(len(cs.rows)), c.record(st.sql, nil, nil)
}
