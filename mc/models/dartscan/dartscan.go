// Package dartscan is a structured scanner for the Dart text emitted by gomacro's
// generator/dart: imports, classes, typedefs, enums, JSON helper functions, and the identifiers
// each file defines and uses. (No Dart SDK exists in the sandbox: the scanner is the reference.)
package dartscan

import (
	"regexp"
	"strings"
)

type Class struct {
	Name       string
	Implements []string
	Fields     []string // "Type name"
	CtorArgs   []string
	Abstract   bool
}

type Enum struct {
	Name   string
	Names  []string
	Values []string // the _values table, nil when the index mapping is used
	Iota   bool
}

type UnionJSON struct {
	Name  string
	Cases []string // case "K":
	Is    []string // if (item is T) -> T
	Kinds []string // 'Kind': "K" in toJson
}

type File struct {
	Name     string
	Imports  []string
	Classes  map[string]*Class
	Typedefs map[string]string
	Enums    map[string]*Enum
	Funcs    map[string]int // defined function name -> count
	Unions   map[string]*UnionJSON
	Exts     map[string]int
	Uses     map[string]bool // identifiers used: helper functions called, type names mentioned
	Defs     map[string]int  // type-level definitions (class, typedef, enum) -> count
}

var (
	reImport   = regexp.MustCompile(`(?m)^\s*import '([^']+)';`)
	reClass    = regexp.MustCompile(`(?m)^\s*(abstract )?class (\w+)\s*(?:implements ([\w, ]+))?\s*\{`)
	reTypedef  = regexp.MustCompile(`(?m)^\s*typedef (\w+) = ([^;]+);`)
	reEnum     = regexp.MustCompile(`(?s)enum\s+(\w+)\s*\{(.*?)\}`)
	reExt      = regexp.MustCompile(`extension (_\w+Ext) on (\w+)`)
	reFuncDef  = regexp.MustCompile(`(?m)^\s*([\w<>, ]+?)\s+(\w+(?:FromJson|ToJson|Label))\((?:dynamic|[\w<>, ]+) \w+\)\s*(?:\{|=>)`)
	reCall     = regexp.MustCompile(`\b(\w+(?:FromJson|ToJson))\b`)
	reExtUse   = regexp.MustCompile(`\b(_\w+Ext)\.`)
	reField    = regexp.MustCompile(`(?m)^\s*final ([\w<>, ]+) (\w+);`)
	reCtor     = regexp.MustCompile(`const (\w+)\(([^)]*)\);`)
	reValues   = regexp.MustCompile(`(?s)static const _values = \[(.*?)\];`)
	reCase     = regexp.MustCompile(`case "((?:[^"\\]|\\.)*)":`)
	reIs       = regexp.MustCompile(`item is (\w+)\)`)
	reKind     = regexp.MustCompile(`'Kind': "((?:[^"\\]|\\.)*)"`)
	reTypeWord = regexp.MustCompile(`\b[A-Z]\w*\b`)
)

var builtinTypes = map[string]bool{"String": true, "List": true, "Map": true, "DateTime": true, "MapEntry": true}

func typeWords(s string, into map[string]bool) {
	for _, w := range reTypeWord.FindAllString(s, -1) {
		if !builtinTypes[w] {
			into[w] = true
		}
	}
}

func Scan(name, text string) *File {
	f := &File{Name: name, Classes: map[string]*Class{}, Typedefs: map[string]string{}, Enums: map[string]*Enum{}, Funcs: map[string]int{},
		Unions: map[string]*UnionJSON{}, Exts: map[string]int{}, Uses: map[string]bool{}, Defs: map[string]int{}}
	// strip comments
	var lines []string
	for _, l := range strings.Split(text, "\n") {
		t := strings.TrimSpace(l)
		if strings.HasPrefix(t, "//") {
			continue
		}
		lines = append(lines, l)
	}
	text = strings.Join(lines, "\n")
	for _, m := range reImport.FindAllStringSubmatch(text, -1) {
		f.Imports = append(f.Imports, m[1])
	}
	for _, loc := range reClass.FindAllStringSubmatchIndex(text, -1) {
		m := reClass.FindStringSubmatch(text[loc[0]:loc[1]])
		c := &Class{Name: m[2], Abstract: m[1] != ""}
		if m[3] != "" {
			for _, i := range strings.Split(m[3], ",") {
				c.Implements = append(c.Implements, strings.TrimSpace(i))
				f.Uses[strings.TrimSpace(i)] = true
			}
		}
		// body up to the matching closing brace of the class
		body := text[loc[1]:]
		depth, end := 1, len(body)
		for i := 0; i < len(body); i++ {
			if body[i] == '{' {
				depth++
			} else if body[i] == '}' {
				depth--
				if depth == 0 {
					end = i
					break
				}
			}
		}
		body = body[:end]
		for _, fm := range reField.FindAllStringSubmatch(body, -1) {
			c.Fields = append(c.Fields, fm[1]+" "+fm[2])
			typeWords(fm[1], f.Uses)
		}
		if cm := reCtor.FindStringSubmatch(body); cm != nil && strings.TrimSpace(cm[2]) != "" {
			for _, a := range strings.Split(cm[2], ",") {
				c.CtorArgs = append(c.CtorArgs, strings.TrimSpace(a))
			}
		}
		f.Classes[c.Name] = c
		f.Defs[c.Name]++
	}
	for _, m := range reTypedef.FindAllStringSubmatch(text, -1) {
		f.Typedefs[m[1]] = strings.TrimSpace(m[2])
		f.Defs[m[1]]++
		typeWords(m[2], f.Uses)
	}
	for _, m := range reEnum.FindAllStringSubmatch(text, -1) {
		en := &Enum{Name: m[1]}
		for _, n := range strings.Split(m[2], ",") {
			if n = strings.TrimSpace(n); n != "" {
				en.Names = append(en.Names, n)
			}
		}
		f.Enums[en.Name] = en
		f.Defs[en.Name]++
	}
	for _, loc := range reExt.FindAllStringSubmatchIndex(text, -1) {
		m := reExt.FindStringSubmatch(text[loc[0]:loc[1]])
		f.Exts[m[1]]++
		body := text[loc[1]:]
		if j := strings.Index(body, "\n\tString "); j >= 0 {
			body = body[:j]
		}
		if en := f.Enums[m[2]]; en != nil {
			if vm := reValues.FindStringSubmatch(body); vm != nil {
				for _, v := range splitTop(vm[1]) {
					en.Values = append(en.Values, strings.TrimSpace(v))
				}
			} else if strings.Contains(body, ".values[i]") {
				en.Iota = true
			}
		}
	}
	for _, loc := range reFuncDef.FindAllStringSubmatchIndex(text, -1) {
		m := reFuncDef.FindStringSubmatch(text[loc[0]:loc[1]])
		f.Funcs[m[2]]++
		typeWords(m[1], f.Uses)
	}
	defined := f.Funcs
	_ = defined
	for _, m := range reCall.FindAllStringSubmatch(text, -1) {
		f.Uses[m[1]] = true
	}
	for _, m := range reExtUse.FindAllStringSubmatch(text, -1) {
		f.Uses[m[1]] = true
	}
	// union json routines: <Name> <id>FromJson with switch (kind)
	for name, c := range f.Classes {
		if !c.Abstract {
			continue
		}
		u := &UnionJSON{Name: name}
		i := strings.Index(text, "abstract class "+name+" {}")
		if i < 0 {
			continue
		}
		body := text[i:]
		if j := strings.Index(body[1:], "abstract class "); j >= 0 {
			body = body[:j+1]
		}
		if j := strings.Index(body, "throw (\"unexpected type\");\n\t\t}\t\n\t}"); j >= 0 {
			body = body[:j]
		}
		for _, m := range reCase.FindAllStringSubmatch(body, -1) {
			u.Cases = append(u.Cases, m[1])
		}
		for _, m := range reIs.FindAllStringSubmatch(body, -1) {
			u.Is = append(u.Is, m[1])
			f.Uses[m[1]] = true
		}
		for _, m := range reKind.FindAllStringSubmatch(body, -1) {
			u.Kinds = append(u.Kinds, m[1])
		}
		f.Unions[name] = u
	}
	return f
}

func splitTop(s string) []string {
	var out []string
	inStr := false
	start := 0
	for i := 0; i < len(s); i++ {
		switch {
		case s[i] == '"' && (i == 0 || s[i-1] != '\\'):
			inStr = !inStr
		case s[i] == ',' && !inStr:
			out = append(out, s[start:i])
			start = i + 1
		}
	}
	if strings.TrimSpace(s[start:]) != "" {
		out = append(out, s[start:])
	}
	return out
}
