package checks

import (
	"bufio"
	"bytes"
	"encoding/json"
	"fmt"
	"go/ast"
	"go/parser"
	"go/token"
	"go/types"
	"os"
	"os/exec"
	"path/filepath"
	"reflect"
	"regexp"
	"sort"
	"strconv"
	"strings"
	"sync"
	"time"

	"github.com/benoitkugler/gomacro/analysis"
	"verif.test/mc/evid"
	"verif.test/mc/explore"
	"verif.test/mc/prog"
	"verif.test/mc/vlib"
)

// BatchCheck is a check whose oracle runs inside a compiled test binary (DESIGN §3.5): every
// enumerated program is written, with the generated code and a driver file, as one package of
// a scratch module; one main links them all with vlib and evaluates the value-level oracle.
type BatchCheck struct {
	ID          string
	Mode        string // vlib mode
	Families    []*ProgCheck
	Targets     []string                        // gomacro targets whose output goes into the package (gounions, randdata) or the driver (typescript, sql)
	Budget      func(tier string, cost int) int // value / rand budget for a program with `cost` deviations
	Deadline    map[string]time.Duration
	Rule        string
	Assumptions []string
	Keep        func(p *prog.Program) bool // optional filter on programs

	replayFamily string // when set, only the program with this family / vector is evaluated
	replayVec    []int
}

type batchItem struct {
	job
	caseID   string
	features []string
	files    map[string]string
	budget   int
}

var batchChecks = map[string]*BatchCheck{}

func registerBatch(bc *BatchCheck) {
	batchChecks[bc.ID] = bc
	registry[bc.ID] = func(tier string) *evid.Report { return runBatchCheck(bc, tier) }
}

func typeExprQ(t types.Type, root *types.Package, used map[*types.Package]bool) string {
	return types.TypeString(t, func(p *types.Package) string {
		if p == root {
			return ""
		}
		used[p] = true
		return p.Name()
	})
}

func accessible(obj types.Object, root *types.Package) bool {
	return obj.Pkg() == root || obj.Exported()
}

// driverSource writes the file registering the program with vlib.
func driverSource(bc *BatchCheck, l *prog.Loaded, caseID string, outs map[string]string, randFuncs map[string]bool) string {
	root := l.Root.Types
	used := map[*types.Package]bool{}
	tx := func(t types.Type) string { return "t((*" + typeExprQ(t, root, used) + ")(nil))" }
	enums, unions := refEnums(l), refUnions(l)
	var b strings.Builder
	fmt.Fprintf(&b, "\tc := &vlib.Case{ID: %q}\n", caseID)
	// analysed types
	b.WriteString("\tc.Types = []reflect.Type{\n")
	var decls []types.Type
	ev := &Eval{L: l}
	decls = sourceDecls(ev, 0) // the outputs are generated from the first analysed file
	tsNames := map[string]string{}
	for _, d := range decls {
		n, isNamed := types.Unalias(d).(*types.Named)
		if isNamed && n.TypeParams().Len() > 0 {
			continue
		}
		if _, isAlias := d.(*types.Alias); isAlias && !isNamed {
			continue
		}
		if isNamed {
			if _, isItf := n.Underlying().(*types.Interface); isItf && unions[n] == nil {
				continue
			}
		}
		fmt.Fprintf(&b, "\t\t%s,\n", tx(d))
		if isNamed && n.Obj().Pkg() == root {
			if _, isAlias := d.(*types.Alias); !isAlias {
				tsNames[tx(d)] = n.Obj().Name()
			}
		}
	}
	b.WriteString("\t}\n")
	// unions
	b.WriteString("\tc.Unions = map[reflect.Type][]reflect.Type{\n")
	var ukeys []*types.Named
	for u := range unions {
		ukeys = append(ukeys, u)
	}
	sort.Slice(ukeys, func(i, j int) bool { return ukeys[i].String() < ukeys[j].String() })
	for _, u := range ukeys {
		if !accessible(u.Obj(), root) {
			continue
		}
		var ms []string
		ok := true
		for _, m := range unions[u] {
			if !accessible(m.Obj(), root) || m.TypeParams().Len() > 0 {
				ok = false
				break
			}
			ms = append(ms, tx(m))
		}
		if ok {
			fmt.Fprintf(&b, "\t\t%s: {%s},\n", tx(u), strings.Join(ms, ", "))
		}
	}
	b.WriteString("\t}\n")
	// enums
	var ekeys []*types.Named
	for en := range enums {
		ekeys = append(ekeys, en)
	}
	sort.Slice(ekeys, func(i, j int) bool { return ekeys[i].String() < ekeys[j].String() })
	constExpr := func(c *types.Const) string {
		if c.Pkg() == root {
			return c.Name()
		}
		used[c.Pkg()] = true
		return c.Pkg().Name() + "." + c.Name()
	}
	b.WriteString("\tc.Enums = map[reflect.Type][]any{\n")
	for _, en := range ekeys {
		if !accessible(en.Obj(), root) {
			continue
		}
		var all []string
		for _, m := range enums[en].members {
			if accessible(m.obj, root) {
				all = append(all, constExpr(m.obj))
			}
		}
		fmt.Fprintf(&b, "\t\t%s: {%s},\n", tx(en), strings.Join(all, ", "))
	}
	b.WriteString("\t}\n\tc.EnumsExp = map[reflect.Type][]any{\n")
	for _, en := range ekeys {
		if !accessible(en.Obj(), root) {
			continue
		}
		var exp []string
		for _, m := range enums[en].members {
			if m.obj.Exported() {
				exp = append(exp, constExpr(m.obj))
			}
		}
		fmt.Fprintf(&b, "\t\t%s: {%s},\n", tx(en), strings.Join(exp, ", "))
	}
	b.WriteString("\t}\n")
	// skip-data fields
	b.WriteString("\tc.SkipData = map[string]bool{\n")
	for _, p := range userPackages(l) {
		sc := p.Types.Scope()
		for _, name := range sc.Names() {
			tn, ok := sc.Lookup(name).(*types.TypeName)
			if !ok {
				continue
			}
			st, ok := tn.Type().Underlying().(*types.Struct)
			if !ok {
				continue
			}
			for i := 0; i < st.NumFields(); i++ {
				if reflect.StructTag(st.Tag(i)).Get("gomacro-data") == "ignore" {
					fmt.Fprintf(&b, "\t\t%q: true,\n", name+"."+st.Field(i).Name())
				}
			}
		}
	}
	b.WriteString("\t}\n")
	// rand functions
	if randFuncs != nil {
		b.WriteString("\tc.Rand = map[reflect.Type]func() any{\n")
		for _, d := range decls {
			n, ok := types.Unalias(d).(*types.Named)
			if !ok || n.TypeParams().Len() > 0 || n.Obj().Pkg() != root {
				continue
			}
			if _, isAlias := d.(*types.Alias); isAlias {
				continue
			}
			fn := "rand" + n.Obj().Name()
			if randFuncs[fn] {
				fmt.Fprintf(&b, "\t\t%s: func() any { return %s() },\n", tx(d), fn)
			}
		}
		b.WriteString("\t}\n")
	}
	if ts, ok := outs[prog.TTS]; ok {
		b.WriteString("\tc.TSNames = map[reflect.Type]string{\n")
		var ks []string
		for k := range tsNames {
			ks = append(ks, k)
		}
		sort.Strings(ks)
		for _, k := range ks {
			fmt.Fprintf(&b, "\t\t%s: %q,\n", k, tsNames[k])
		}
		b.WriteString("\t}\n")
		fmt.Fprintf(&b, "\tc.TS = %s\n", strconv.Quote(ts))
	}
	if sqlText, ok := outs[prog.TSQL]; ok {
		fmt.Fprintf(&b, "\tc.SQL = %s\n", strconv.Quote(sqlText))
		b.WriteString("\tc.JSONB = map[string]reflect.Type{\n")
		for _, sd := range structDecls(ev, 0) {
			st := sd.named.Underlying().(*types.Struct)
			for _, f := range flatFields(st, enums, unions) {
				if !f.Exported() {
					continue
				}
				rc, ok := refSQLType(f.Type(), enums, unions)
				if n, isN := types.Unalias(f.Type()).(*types.Named); isN && unions[n] != nil {
					continue // a bare union column has no defined Go encoding (sqlcrud refuses it)
				}
				if ok && rc.kind == "json" && strings.ToLower(f.Name()) != "id" {
					fmt.Fprintf(&b, "\t\t%q: %s,\n", snakePlural(sd.named.Obj().Name())+"."+f.Name(), tx(f.Type()))
				}
			}
		}
		b.WriteString("\t}\n")
	}
	if crudSrc, ok := outs["@sqlcrud-fixed"]; ok {
		b.WriteString(crudDriver(l, ev, caseID, crudSrc, outs[prog.TSQL], enums, unions, tx))
	}
	b.WriteString("\tvlib.Register(c)\n")
	var hdr strings.Builder
	fmt.Fprintf(&hdr, "package %s\n\nimport (\n\t\"reflect\"\n\n\t\"verif.test/mc/vlib\"\n", l.Root.Name)
	var ups []string
	for p := range used {
		ups = append(ups, p.Path())
	}
	sort.Strings(ups)
	for _, p := range ups {
		fmt.Fprintf(&hdr, "\t%q\n", p)
	}
	hdr.WriteString(")\n\nfunc init() {\n\tt := func(p any) reflect.Type { return reflect.TypeOf(p).Elem() }\n")
	return hdr.String() + b.String() + "}\n"
}

func funcNames(src string) map[string]bool {
	out := map[string]bool{}
	f, err := parser.ParseFile(token.NewFileSet(), "x.go", src, parser.SkipObjectResolution)
	if err != nil {
		return out
	}
	for _, d := range f.Decls {
		if fd, ok := d.(*ast.FuncDecl); ok && fd.Recv == nil {
			out[fd.Name.Name] = true
		}
	}
	return out
}

const batchGoMod = `module verif.test/proj

go 1.23.0

require (
	github.com/benoitkugler/gomacro v0.0.0
	github.com/lib/pq v0.0.0
	golang.org/x/tools v0.31.0
	verif.test/mc v0.0.0
)

replace verif.test/mc => %s

replace github.com/lib/pq => %s

replace github.com/benoitkugler/gomacro => %s
`

func runBatchCheck(bc *BatchCheck, tier string) *evid.Report {
	r := evid.NewReport(bc.ID, tier)
	r.Rule = bc.Rule
	r.Assumptions = bc.Assumptions
	deadline := 25 * time.Minute
	if d, ok := bc.Deadline[tier]; ok {
		deadline = d
	}
	stopAt := r.Start.Add(deadline)
	// 1. enumerate programs
	var items []*batchItem
	seen := map[string]int{}
	st := explore.Stats{}
	for _, fc := range bc.Families {
		bound := fc.Bound[tier]
		r.Bounds["deviation_bound_"+fc.Family] = bound
		explore.Enumerate(bound, func(c explore.Chooser) {
			p := fc.Synth(c)
			if bc.Keep != nil && !bc.Keep(p) {
				return
			}
			run := c.(*explore.Run)
			h := fc.Family + ":" + p.Hash()
			cost := explore.Cost(run.Choices)
			if i, ok := seen[h]; ok {
				if items[i].cost > cost {
					items[i].cost, items[i].vec = cost, run.Vec()
				}
				return
			}
			seen[h] = len(items)
			items = append(items, &batchItem{job: job{family: fc.Family, vec: run.Vec(), cost: cost, hash: h}})
		}, func(*explore.Run) {}, &st)
	}
	if bc.replayFamily != "" {
		var only []*batchItem
		for _, it := range items {
			if it.family == bc.replayFamily && explore.VecString(it.vec) == explore.VecString(bc.replayVec) {
				only = append(only, it)
			}
		}
		if len(only) == 0 { // the vector is not in this tier's enumeration: evaluate it anyway
			only = []*batchItem{{job: job{family: bc.replayFamily, vec: bc.replayVec, cost: explore.Cost(bc.replayVec), hash: "replay"}}}
		}
		items = only
	}
	sort.SliceStable(items, func(i, j int) bool { return items[i].cost < items[j].cost })
	r.Transitions = st.Transitions
	r.Bounds["vectors_enumerated"] = st.Runs
	perCost := map[int]int{}
	for _, it := range items {
		perCost[it.cost]++
	}
	r.Bounds["programs_per_deviation_count"] = perCost

	// 2. scratch module
	tmp, err := os.MkdirTemp("", "gomacro-batch-"+bc.ID+"-")
	if err != nil {
		r.Internal(err.Error())
		return r
	}
	defer os.RemoveAll(tmp)
	mcDir := filepath.Join(evid.VerifDir, "mc")
	os.WriteFile(filepath.Join(tmp, "go.mod"), []byte(fmt.Sprintf(batchGoMod, mcDir, filepath.Join(mcDir, "stubs", "pq"), evid.RepoDir)), 0o644)
	if sum, err := os.ReadFile(filepath.Join(mcDir, "go.sum")); err == nil {
		os.WriteFile(filepath.Join(tmp, "go.sum"), sum, 0o644)
	}
	counts := map[string]int{}
	famOf := map[string]*ProgCheck{}
	for _, fc := range bc.Families {
		famOf[fc.Family] = fc
	}
	var mainImports []string
	var built []*batchItem
	for k, it := range items {
		it.idx = k
		it.caseID = fmt.Sprintf("c%05d", k)
		it.budget = bc.Budget(tier, it.cost)
		if it.budget < 0 {
			counts["programs_beyond_shared_budget"]++
			continue
		}
		prog.Infix = "/" + it.caseID
		ok := prepareBatchItem(bc, famOf[it.family], it, tmp, counts, r)
		prog.Infix = ""
		if ok {
			built = append(built, it)
			mainImports = append(mainImports, it.files["@root"])
		}
	}
	prog.Infix = ""
	if len(built) == 0 {
		r.Internal("no program could be prepared for the batch")
		return r
	}
	var mb strings.Builder
	mb.WriteString("package main\n\nimport (\n\t\"verif.test/mc/vlib\"\n")
	for _, p := range mainImports {
		fmt.Fprintf(&mb, "\t_ %q\n", p)
	}
	mb.WriteString(")\n\nfunc main() { vlib.Main() }\n")
	// the module root itself may be a package of the programs (verif.test/proj): main lives below it
	os.MkdirAll(filepath.Join(tmp, "zzmain"), 0o755)
	os.WriteFile(filepath.Join(tmp, "zzmain", "main.go"), []byte(mb.String()), 0o644)

	// 3. build
	bin := filepath.Join(tmp, "batch.bin")
	cmd := exec.Command("go", "build", "-o", bin, "./zzmain")
	cmd.Dir = tmp
	cmd.Env = append(os.Environ(), "GOFLAGS=-mod=mod", "GOPROXY=off", "GOSUMDB=off", "GOTOOLCHAIN=local")
	if out, err := cmd.CombinedOutput(); err != nil {
		r.Internal("batch does not build (programs passed the in-process type check): " + trunc(string(out), 3000))
		return r
	}
	r.Extra["batch_build_s"] = time.Since(r.Start).Seconds()

	// 4. run shards
	byCase := map[string]*batchItem{}
	for _, it := range built {
		byCase[it.caseID] = it
	}
	nsh := nWorkers()
	var mu sync.Mutex
	results := map[string]*vlib.CaseResult{}
	merge := func(cr *vlib.CaseResult) {
		old := results[cr.Case]
		if old == nil {
			results[cr.Case] = cr
			return
		}
		for k, v := range cr.Counts {
			old.Counts[k] += v
		}
		old.Failures = append(old.Failures, cr.Failures...)
		for k, v := range cr.Sets {
			if old.Sets == nil {
				old.Sets = map[string][]string{}
			}
			for _, x := range v {
				dup := false
				for _, y := range old.Sets[k] {
					dup = dup || x == y
				}
				if !dup {
					old.Sets[k] = append(old.Sets[k], x)
				}
			}
		}
	}
	fatal := map[string]string{}
	var wg sync.WaitGroup
	for sh := 0; sh < nsh; sh++ {
		wg.Add(1)
		go func(sh int) {
			defer wg.Done()
			var skip []string
			for attempt := 0; attempt < 50; attempt++ {
				if time.Now().After(stopAt) {
					return
				}
				// all programs of a shard share the minimum budget? No: budgets differ per case, so
				// the budget argument is ignored by vlib when the case carries its own (see Budgets file).
				args := append([]string{bc.Mode, "-1", strconv.Itoa(sh), strconv.Itoa(nsh)}, skip...)
				c := exec.Command(bin, args...)
				c.Dir = tmp
				var stderr bytes.Buffer
				c.Stderr = &stderr
				so, _ := c.StdoutPipe()
				if err := c.Start(); err != nil {
					r.Internal(err.Error())
					return
				}
				killedAtDeadline := false
				timer := time.AfterFunc(time.Until(stopAt)+10*time.Second, func() { killedAtDeadline = true; c.Process.Kill() })
				sc := bufio.NewScanner(so)
				sc.Buffer(make([]byte, 1<<20), 64<<20)
				current := ""
				for sc.Scan() {
					line := sc.Text()
					if strings.HasPrefix(line, "START ") {
						current = strings.TrimPrefix(line, "START ")
						continue
					}
					var cr vlib.CaseResult
					if err := json.Unmarshal([]byte(line), &cr); err == nil && cr.Done {
						mu.Lock()
						merge(&cr)
						mu.Unlock()
						skip = append(skip, cr.Case)
						current = ""
					}
				}
				err := c.Wait()
				timer.Stop()
				if err == nil {
					return
				}
				if killedAtDeadline {
					return // stopped by the check's own deadline: the case is not finished (exhaustive=false), it did not die
				}
				if current == "" {
					r.Internal("batch binary failed outside a case: " + trunc(stderr.String(), 500))
					return
				}
				mu.Lock()
				fatal[current] = fatalLine0(stderr.String())
				mu.Unlock()
				skip = append(skip, current)
			}
		}(sh)
	}
	wg.Wait()

	// 5. fold
	exercised := map[string]bool{}
	for _, it := range built {
		cr := results[it.caseID]
		if cr == nil {
			if msg, ok := fatal[it.caseID]; ok {
				r.Evaluations++
				r.State(it.hash, true)
				r.Outcome("fatal")
				clause := "no-fatal-crash"
				if bc.ID == "C15" {
					clause = "terminates"
				}
				r.Fail(evid.Failure{Clause: bc.ID + "/" + clause, Sig: sigOf(msg), Detail: "the test binary died while evaluating this program: " + msg,
					Family: it.family, Vector: it.vec, Cost: it.cost, Features: it.features, Files: cleanFiles(it.files)})
			} else {
				r.Exhaustive = false
			}
			continue
		}
		r.Evaluations++
		n := 0
		for k, v := range cr.Counts {
			if strings.Contains(k, ":") && !strings.HasPrefix(k, "refused") && !strings.HasPrefix(k, "skipped") {
				continue
			}
			counts[k] += v
			if k == "values" || k == "documents" || k == "rand-calls" || k == "transitions" {
				n += v
			}
		}
		r.TracesImpl += n
		r.State(it.hash, n > 0)
		for _, fn := range cr.Sets["functions-exercised"] {
			exercised[fn] = true
		}
		// C15 "varies": decided on the union of the shards' observations
		for k, set := range cr.Sets {
			if tn, ok := strings.CutPrefix(k, "distinct:"); ok {
				if cr.Counts["hadchoice:"+tn] > 0 && cr.Counts["runs:"+tn] >= 2+nsh && len(set) < 2 && it.budget > 0 {
					cr.Failures = append(cr.Failures, vlib.Failure{Clause: "varies", Sig: "single value", Detail: fmt.Sprintf("rand function of %s returned one single value over %d explored sequences of random answers", tn, cr.Counts["runs:"+tn]-nsh)})
				}
			}
		}
		for k, set := range cr.Sets {
			if tn, ok := strings.CutPrefix(k, "interior:"); ok {
				if cr.Counts["interior-runs:"+tn] >= 2 && len(set) < 2 && it.budget > 0 {
					cr.Failures = append(cr.Failures, vlib.Failure{Clause: "varies", Sig: "single value inside the draw ranges", Detail: fmt.Sprintf("rand function of %s returned one single value over the %d explored calls whose non-default random answers all lie inside their range (n/3, n/2 of a large range, any value of a small one): real draws fall there almost surely", tn, cr.Counts["interior-runs:"+tn])})
				}
			}
		}
		if len(cr.Failures) == 0 {
			r.Outcome("ok")
		}
		for _, f := range cr.Failures {
			r.Outcome(f.Clause + ": " + f.Sig)
			if f.Clause == "harness" {
				r.Internal(fmt.Sprintf("%s (features %v): %s", it.caseID, it.features, f.Detail))
				continue
			}
			r.Fail(evid.Failure{Clause: bc.ID + "/" + f.Clause, Sig: f.Sig, Detail: f.Detail, Family: it.family, Vector: it.vec,
				Cost: it.cost + f.Cost, Features: it.features, Files: cleanFiles(it.files)})
		}
		if len(r.Samples) < 3 && it.cost <= 1 {
			r.Sample(map[string]any{"features": it.features, "counts": cr.Counts, "failures": len(cr.Failures)})
		}
	}
	if time.Now().After(stopAt) {
		r.Exhaustive = false
		r.Bounds["deadline_hit"] = deadline.String()
	}
	r.Extra["counters"] = counts
	r.Extra["programs"] = len(items)
	r.Extra["programs_in_batch"] = len(built)
	if len(exercised) > 0 {
		var l []string
		for fn := range exercised {
			l = append(l, fn)
		}
		sort.Strings(l)
		r.Extra["generated_functions_exercised_count"] = len(l)
		if len(l) > 120 {
			l = l[:120]
		}
		r.Extra["generated_functions_exercised"] = l
	}
	if bc.Mode == "c05" {
		// the model-checking state space of C05 is the set of database states reached by the BFS
		r.StatesN = counts["states"]
		r.Transitions = counts["transitions"]
		r.Extra["database_states_reached"] = counts["states"]
		r.Extra["crud_transitions_executed"] = counts["transitions"]
	} else if n := counts["values"] + counts["documents"] + counts["rand-calls"]; n > 0 {
		r.Extra["value_level_runs"] = n
		r.Transitions += counts["value-transitions"] + counts["rand-transitions"]
	}
	return r
}

func cleanFiles(m map[string]string) map[string]string {
	out := map[string]string{}
	for k, v := range m {
		if !strings.HasPrefix(k, "@") {
			out[k] = v
		}
	}
	return out
}

// prepareBatchItem synthesises program k with its on-disk import paths, runs the generators,
// checks that everything type-checks in process and writes the package to the scratch module.
func prepareBatchItem(bc *BatchCheck, fc *ProgCheck, it *batchItem, tmp string, counts map[string]int, r *evid.Report) (ok bool) {
	defer func() {
		if v := recover(); v != nil {
			r.Internal(fmt.Sprintf("preparing vector %v: %v", it.vec, v))
			ok = false
		}
	}()
	p := fc.Synth(&explore.Fixed{Vec: it.vec})
	if err := p.Gofmt(); err != nil {
		r.Internal(err.Error())
		return false
	}
	it.features = p.Features
	l, err := prog.Load(p)
	if err != nil {
		r.Internal(fmt.Sprintf("vector %v: %v", it.vec, err))
		return false
	}
	var ans []*analysis.Analysis
	for i := range l.RootFiles {
		an, pi := l.Analyse(i)
		if pi != nil {
			counts["refused:analysis"]++
			return false
		}
		ans = append(ans, an)
	}
	outs := map[string]string{}
	genFiles := map[string]string{}
	var randFuncs map[string]bool
	for _, t := range bc.Targets {
		out, pi := l.RunTarget(t, ans[:1])
		if pi == nil {
			// what is checked is the output of a second generation in the same process, from a fresh
			// analysis of the same loaded packages: state kept between calls shows there
			if an2, pi2 := l.Analyse(0); pi2 == nil {
				out, pi = l.RunTarget(t, []*analysis.Analysis{an2})
				if pi != nil {
					counts["second-generation-refused:"+t]++
				}
			}
		}
		if pi != nil {
			counts["refused:"+t]++
			if t == prog.TGounions || t == bc.Targets[len(bc.Targets)-1] {
				return false
			}
			continue
		}
		outs[t] = out[""]
		switch t {
		case prog.TGounions, prog.TRanddata, prog.TSqlcrud:
			name := "gen_" + t + "_verif.go"
			fixed, errs := compileWithSource(l, name, out[""])
			if len(errs) > 0 {
				counts["not_compiling:"+t]++
				// the property is about what this generated code does: code that does not compile does nothing
				// (C01 reports the same program for its own reason)
				if bc.ID != "C02" && bc.ID != "C15" && bc.ID != "C05" {
					// the Go code is only the means to obtain documents here (C03, C04): C01's business
					return false
				}
				r.Fail(evid.Failure{Clause: bc.ID + "/generated-code-usable", Sig: t + " does not compile: " + errClass(errs[0]),
					Detail: fmt.Sprintf("the output of %s does not type-check with its source package, so nothing of the property can hold for this program:\n%s", t, strings.Join(errs, "\n")),
					Family: fc.Family, Features: p.Features, Files: p.FilesMap(), Vector: it.vec, Cost: explore.Cost(it.vec)})
				return false
			}
			if t == prog.TSqlcrud {
				outs["@sqlcrud-fixed"] = fixed
			}
			if t == prog.TRanddata {
				randFuncs = funcNames(fixed)
				fixed = strings.Replace(fixed, "\"math/rand\"", "rand \"verif.test/mc/vlib/vrand\"", 1)
			}
			genFiles[name] = fixed
		}
	}
	// the generated files must type-check together (duplicate helpers between the two outputs...)
	drv := driverSource(bc, l, it.caseID, outs, randFuncs)
	genFiles["drv_verif.go"] = drv
	it.files = map[string]string{"@root": l.Root.PkgPath}
	root := p.Root()
	for _, pk := range p.Pkgs {
		rel := strings.TrimPrefix(pk.Path, prog.Module)
		dir := filepath.Join(tmp, rel)
		os.MkdirAll(dir, 0o755)
		for _, f := range pk.Files {
			os.WriteFile(filepath.Join(dir, f.Name), []byte(f.Src), 0o644)
			it.files[pk.Path+"/"+f.Name] = f.Src
		}
		if pk == root {
			for name, src := range genFiles {
				os.WriteFile(filepath.Join(dir, name), []byte(src), 0o644)
				if name != "drv_verif.go" {
					it.files[pk.Path+"/"+name] = src
				}
			}
			// per-case budget
			os.WriteFile(filepath.Join(dir, "budget_verif.go"), []byte(fmt.Sprintf("package %s\n\nimport \"verif.test/mc/vlib\"\n\nfunc init() { vlib.SetBudget(%q, %d) }\n", pk.Name, it.caseID, it.budget)), 0o644)
		}
	}
	return true
}

var (
	reUniqueD = regexp.MustCompile(`(?i)ADD (UNIQUE|PRIMARY KEY)\s?\((.*)\)`)
)

func splitCols(s string) []string {
	var out []string
	for _, c := range strings.Split(s, ",") {
		out = append(out, strings.TrimSpace(c))
	}
	return out
}

func quoteList(l []string) string {
	q := make([]string, len(l))
	for i, s := range l {
		q[i] = strconv.Quote(s)
	}
	return "{" + strings.Join(q, ", ") + "}"
}

// crudDriver emits the table metadata of C05, computed from the syntax tree and go/types.
func crudDriver(l *prog.Loaded, ev *Eval, caseID, crudSrc, ddl string, enums map[*types.Named]*refEnum, unions map[*types.Named][]*types.Named, tx func(types.Type) string) string {
	var b strings.Builder
	fmt.Fprintf(&b, "\tcm := &vlib.CrudMeta{DDL: %s}\n", strconv.Quote(ddl))
	b.WriteString("\tcm.Funcs = map[string]any{\n")
	var names []string
	for n := range funcNames(crudSrc) {
		names = append(names, n)
	}
	sort.Strings(names)
	for _, n := range names {
		if n == "loadJSON" || n == "dumpJSON" {
			continue
		}
		fmt.Fprintf(&b, "\t\t%q: %s,\n", n, n)
	}
	b.WriteString("\t}\n")
	for _, sd := range structDecls(ev, 0) {
		st := sd.named.Underlying().(*types.Struct)
		tagOf := map[*types.Var]reflect.StructTag{}
		for i := 0; i < st.NumFields(); i++ {
			tagOf[st.Field(i)] = reflect.StructTag(st.Tag(i))
		}
		name := sd.named.Obj().Name()
		primary := ""
		var guards []string
		var fks []string
		uniqueCol := map[string]bool{}
		var uniques, selectKeys [][]string
		var queries []string
		for _, line := range sd.doc {
			m := reDirective.FindStringSubmatch(line)
			if m == nil {
				continue
			}
			if m[1] == "QUERY" {
				q, _, _ := strings.Cut(m[2], " ")
				queries = append(queries, q)
				continue
			}
			if um := reUniqueD.FindStringSubmatch(m[2]); um != nil {
				cols := splitCols(um[2])
				if len(cols) == 1 {
					uniqueCol[cols[0]] = true
				}
				uniques = append(uniques, cols)
			}
			if sm := reSelectKeyD.FindStringSubmatch(m[2]); sm != nil {
				selectKeys = append(selectKeys, splitCols(sm[1]))
			}
		}
		isFK := map[string]bool{}
		for _, f := range flatFields(st, enums, unions) {
			tag := tagOf[f]
			if tag.Get("gomacro-sql-guard") != "" {
				guards = append(guards, f.Name())
				continue
			}
			if !f.Exported() {
				continue
			}
			if primary == "" && strings.ToLower(f.Name()) == "id" {
				primary = f.Name()
			}
			rc := refColumn{field: f, tag: tag}
			if fkTarget(rc, name, enums) != "" {
				isFK[f.Name()] = true
				nullable, data := false, ""
				if stt, ok := f.Type().Underlying().(*types.Struct); ok {
					if d := nullWrapped(stt); d != nil {
						nullable, data = true, d.Name()
					}
				}
				fks = append(fks, fmt.Sprintf("{Field: %q, Nullable: %v, DataName: %q, Unique: %v}", f.Name(), nullable, data, uniqueCol[f.Name()]))
			}
		}
		var ul []string
		for _, u := range uniques {
			if len(u) == 1 && isFK[u[0]] {
				continue
			}
			ul = append(ul, quoteList(u))
		}
		var sl []string
		for _, u := range selectKeys {
			sl = append(sl, quoteList(u))
		}
		fmt.Fprintf(&b, "\tcm.Tables = append(cm.Tables, vlib.TableMeta{Name: %q, Type: %s, Primary: %q, Guards: []string%s, FKs: []vlib.FKMeta{%s}, Uniques: [][]string{%s}, SelectKeys: [][]string{%s}, Queries: []string%s})\n",
			name, tx(sd.named), primary, quoteList(guards), strings.Join(fks, ", "), strings.Join(ul, ", "), strings.Join(sl, ", "), quoteList(queries))
	}
	fmt.Fprintf(&b, "\tvlib.RegisterCrud(%q, cm)\n", caseID)
	return b.String()
}

// replayBatch re-evaluates the program of a stored failure in a one-package batch.
func replayBatch(bc *BatchCheck, f *evid.Failure) int {
	for _, tier := range []string{"quick", "thorough"} {
		cp := *bc
		cp.replayFamily, cp.replayVec = f.Family, f.Vector
		r := runBatchCheck(&cp, tier)
		for _, g := range r.Failures() {
			if g.Clause == f.Clause && g.Sig == f.Sig {
				fmt.Printf("REPRODUCED %s (tier %s budget): %s\n", g.Clause, tier, g.Detail)
				return 1
			}
		}
	}
	fmt.Println("not reproduced:", f.Clause, f.Sig)
	return 0
}
