package checks

import (
	"encoding/json"
	"fmt"
	"os"
	"os/exec"
	"path/filepath"
	"regexp"
	"sort"
	"strings"
	"sync"

	"github.com/benoitkugler/gomacro/analysis"
	"github.com/benoitkugler/gomacro/analysis/httpapi"
	"github.com/benoitkugler/gomacro/generator/typescript"
	"verif.test/mc/evid"
	"verif.test/mc/explore"
	"verif.test/mc/fam"
	"verif.test/mc/models/tsparse"
	"verif.test/mc/prog"
)

// C14: the generated Axios client issues exactly the extracted requests.
// F-endpoints: the full product verb x input x query subset x return kind, built directly as
// httpapi.Endpoint values; every generated method is executed under Node with a recording
// stand-in for axios (node/c14_harness.js) and compared with the request computed here.

const c14TypesSrc = `package api

type ID int64

type Flag bool

type Label string

type In struct {
	A int
	B string
}

type Out struct {
	N  int
	ID ID
}

type Payload struct {
	Items []string
}

type Holder struct {
	I  In
	O  Out
	P  Payload
	Id ID
	F  float64
	B  bool
	S  string
	N  int
	L  []Out
	Fl Flag
	La Label
}
`

type c14Types struct {
	in, out, payload, id, float, boolean, str, integer, outs, flag, label analysis.Type
}

func loadC14Types() (*c14Types, error) {
	p := &prog.Program{Family: "F-endpoints", Analysed: []string{"a.go"}, Pkgs: []*prog.Pkg{{Path: prog.Module + "/api", Name: "api", Files: []prog.File{{Name: "a.go", Src: c14TypesSrc}}}}}
	l, err := prog.Load(p)
	if err != nil {
		return nil, err
	}
	an, pi := l.Analyse(0)
	if pi != nil {
		return nil, fmt.Errorf("analysis of the endpoint types: %s", pi)
	}
	holder := an.GetByName("Holder").(*analysis.Struct)
	f := func(i int) analysis.Type { return holder.Fields[i].Type }
	return &c14Types{in: f(0), out: f(1), payload: f(2), id: f(3), float: f(4), boolean: f(5), str: f(6), integer: f(7), outs: f(8), flag: f(9), label: f(10)}, nil
}

type c14Endpoint struct {
	prog  *prog.Program // set for endpoints of extracted route lists
	vec   []int
	ep    httpapi.Endpoint
	input string // none json form
	qkind []string
	ret   string // none json blob list
}

func buildEndpoints(t *c14Types) []c14Endpoint {
	var out []c14Endpoint
	type form struct {
		file   bool
		values int
		json   bool
	}
	var forms []form
	for _, fi := range []bool{false, true} {
		for v := 0; v <= 2; v++ {
			for _, js := range []bool{false, true} {
				if fi || v > 0 || js {
					forms = append(forms, form{fi, v, js})
				}
			}
		}
	}
	qAll := []struct {
		name, kind string
		ty         analysis.Type
	}{{"s", "string", t.str}, {"i-1", "int", t.integer}, {"f", "float", t.float}, {"b", "bool", t.boolean}, {"id", "named-int", t.id}, {"fl", "named-bool", t.flag}, {"la", "named-string", t.label}}
	idx := 0
	for _, verb := range []string{"GET", "DELETE", "POST", "PUT"} {
		inputs := []string{"none"}
		if verb == "POST" || verb == "PUT" {
			inputs = append(inputs, "json")
			for i := range forms {
				inputs = append(inputs, fmt.Sprintf("form%d", i))
			}
		}
		for _, in := range inputs {
			for qmask := 0; qmask < 128; qmask++ {
				for _, ret := range []string{"none", "json", "blob"} {
					ce := c14Endpoint{input: in, ret: ret}
					ct := httpapi.Contract{Name: fmt.Sprintf("m%d", idx)}
					switch {
					case in == "json":
						ct.InputBody = t.in
					case strings.HasPrefix(in, "form"):
						var k int
						fmt.Sscanf(in, "form%d", &k)
						fm := forms[k]
						if fm.file {
							ct.InputForm.File = "upload"
						}
						for v := 0; v < fm.values; v++ {
							ct.InputForm.ValueNames = append(ct.InputForm.ValueNames, []string{"v1", "v-2"}[v])
						}
						if fm.json {
							ct.InputForm.JSON = httpapi.TypedParam{Name: "payload", Type: t.payload}
						}
						ce.input = "form"
					}
					for qi, q := range qAll {
						if qmask&(1<<qi) != 0 {
							ct.InputQueryParams = append(ct.InputQueryParams, httpapi.TypedParam{Name: q.name, Type: q.ty})
							ce.qkind = append(ce.qkind, q.kind)
						}
					}
					switch ret {
					case "json":
						if idx%2 == 0 {
							ct.Return = t.out
						} else {
							ct.Return = t.outs
						}
					case "blob":
						ct.Return = t.str // any non-nil type: blob returns are flagged
						ct.IsReturnBlob = true
					}
					ce.ep = httpapi.Endpoint{Url: fmt.Sprintf("/api/r%d/:id", idx), Method: verb, Contract: ct}
					out = append(out, ce)
					idx++
				}
			}
		}
	}
	return out
}

type c14Case struct {
	ID       string         `json:"id"`
	Method   string         `json:"method"`
	Args     []any          `json:"args"`
	Response map[string]any `json:"response"`
}

type c14Result struct {
	ID       string `json:"id"`
	Requests []struct {
		Verb   string `json:"verb"`
		Nargs  int    `json:"nargs"`
		URL    string `json:"url"`
		Body   any    `json:"body"`
		Config any    `json:"config"`
	} `json:"requests"`
	Returned          any `json:"returned"`
	Threw             any `json:"threw"`
	HandleErrorCalled any `json:"handle_error_called"`
	StartRequestCalls int `json:"start_request_calls"`
}

// variant 0: typical values, variant 1: edge values ("" / 0 / false / "a b&c").
func queryValue(kind string, variant int) (arg any, want string) {
	switch kind {
	case "string":
		if variant == 0 {
			return "a b&c", "a b&c"
		}
		return "", ""
	case "int":
		if variant == 0 {
			return 12, "12"
		}
		return 0, "0"
	case "float":
		if variant == 0 {
			return 1.5, "1.5"
		}
		return -2, "-2"
	case "bool":
		if variant == 0 {
			return true, "ok"
		}
		return false, ""
	case "named-int":
		if variant == 0 {
			return 7, "7"
		}
		return 0, "0"
	case "named-bool":
		if variant == 0 {
			return false, ""
		}
		return true, "ok"
	case "named-string":
		if variant == 0 {
			return "x y", "x y"
		}
		return "", ""
	}
	return nil, ""
}

const c14Base, c14Token = "http://host/base", "tok"

// expected builds the arguments of one call and the request it must produce.
func (ce c14Endpoint) expected(variant int) (args []any, want map[string]any, response map[string]any, wantReturn any) {
	ct := ce.ep.Contract
	want = map[string]any{"verb": strings.ToLower(ce.ep.Method), "url": c14Base + ce.ep.Url}
	body := any("<absent>")
	isBodyVerb := ce.ep.Method == "POST" || ce.ep.Method == "PUT"
	switch ce.input {
	case "json":
		b := map[string]any{"A": float64(3 - 3*variant), "B": []string{"x", ""}[variant]}
		args = append(args, b)
		body = b
	case "form":
		var fd [][]any
		if len(ct.InputForm.ValueNames) > 0 {
			fp := map[string]any{}
			for i, n := range ct.InputForm.ValueNames {
				fp[n] = []string{"val" + fmt.Sprint(i), ""}[variant]
			}
			args = append(args, fp)
		}
		if ct.InputForm.File != "" {
			args = append(args, map[string]any{"$file": map[string]any{"name": "f 1.txt", "content": "abc"}})
			fd = append(fd, []any{ct.InputForm.File, map[string]any{"$file": map[string]any{"name": "f 1.txt", "size": float64(3)}}})
		}
		for i, n := range ct.InputForm.ValueNames {
			fd = append(fd, []any{n, []string{"val" + fmt.Sprint(i), ""}[variant]})
		}
		if ct.InputForm.JSON.Name != "" {
			pl := map[string]any{"Items": []any{"p", "q"}}
			if variant == 1 {
				pl = map[string]any{"Items": nil}
			}
			args = append(args, pl)
			js, _ := json.Marshal(pl)
			fd = append(fd, []any{ct.InputForm.JSON.Name, string(js)})
		}
		body = map[string]any{"$formData": fd}
	default:
		if isBodyVerb {
			body = nil
		}
	}
	want["body"] = body
	params := any("<absent>")
	if len(ct.InputQueryParams) > 0 {
		qa := map[string]any{}
		pm := map[string]any{}
		for i, q := range ct.InputQueryParams {
			a, w := queryValue(ce.qkind[i], variant)
			qa[q.Name] = a
			pm[q.Name] = w
		}
		if ce.input != "json" {
			args = append(args, qa)
		}
		params = pm
	}
	want["params"] = params
	rt := any("<absent>")
	response = map[string]any{"data": map[string]any{"N": float64(1), "ID": float64(2)}, "headers": map[string]any{}}
	wantReturn = response["data"]
	if ct.IsReturnBlob {
		rt = "arraybuffer"
		response = map[string]any{"data": map[string]any{"$binary": "filecontent"}, "headers": map[string]any{"content-disposition": "attachment; filename=my%20file.pdf"}}
		wantReturn = map[string]any{"blob": map[string]any{"$binary": true}, "filename": "my file.pdf"}
	} else if ct.Return == nil {
		wantReturn = true
	}
	want["responseType"] = rt
	want["headers"] = map[string]any{"Authorization": "Bearer " + c14Token}
	return
}

func canon(x any) string {
	b, _ := json.Marshal(x)
	return string(b)
}

func runC14(tier string) int {
	r := evid.NewReport("C14", tier)
	r.Rule = "all endpoints of F-endpoints (GET/DELETE x query subset x return kind; POST/PUT x {no input, JSON body, the 11 non-empty form combinations} x the 128 subsets of {string, int, float, bool, named int, named bool, named string} query parameters x {no return, JSON, blob}) built as httpapi.Endpoint values, plus the endpoint lists extracted from F-routes programs; every generated method is executed under Node 20 with two argument vectors (typical and edge values) against a recording stand-in for axios; non-trivial = the method issued a request"
	r.Assumptions = []string{
		"node/ts2js.js strips the TypeScript annotations of the class (it fails loudly on anything outside the template); the type section is checked by tsparse",
		"JSON / form inputs are only combined with POST and PUT (GET and DELETE carry query parameters only)",
	}
	types, err := loadC14Types()
	if err != nil {
		r.Internal(err.Error())
		return r.Finish()
	}
	eps := buildEndpoints(types)
	r.Bounds["endpoints"] = len(eps)
	tmp, err := os.MkdirTemp("", "gomacro-c14-")
	if err != nil {
		r.Internal(err.Error())
		return r.Finish()
	}
	defer os.RemoveAll(tmp)
	const perClass = 336
	var chunks []c14Chunk
	for i := 0; i < len(eps); i += perClass {
		j := i + perClass
		if j > len(eps) {
			j = len(eps)
		}
		chunks = append(chunks, c14Chunk{eps: eps[i:j], name: fmt.Sprintf("class%d", i/perClass)})
	}
	// single-endpoint classes: a type must be declared even when no other method mentions it
	for _, ce := range eps {
		ct := ce.ep.Contract
		bare := ce.input == "none" && ce.ret == "none" && ce.ep.Method == "GET"
		if (len(ce.qkind) == 1 && bare) || // one query parameter of each kind, nothing else
			(len(ce.qkind) == 0 && ce.input == "none" && ce.ret == "json" && ce.ep.Method == "GET") ||
			(len(ce.qkind) == 0 && ce.input == "json" && ce.ret == "none" && ce.ep.Method == "POST") ||
			(ce.input == "form" && ct.InputForm.JSON.Name != "" && ct.InputForm.File == "" && len(ct.InputForm.ValueNames) == 0 && len(ce.qkind) == 0 && ce.ret == "none" && ce.ep.Method == "POST") {
			chunks = append(chunks, c14Chunk{eps: []c14Endpoint{ce}, name: "single-" + ct.Name})
		}
	}
	// endpoint lists extracted by ParseEcho from route programs (quick: 1 deviation)
	routeLists, routeChunks := extractedRouteLists(r, types)
	chunks = append(chunks, routeChunks...)
	var mu sync.Mutex
	var wg sync.WaitGroup
	sem := make(chan struct{}, nWorkers())
	for ci, ch := range chunks {
		wg.Add(1)
		go func(ci int, ch c14Chunk) {
			defer wg.Done()
			sem <- struct{}{}
			defer func() { <-sem }()
			var list []httpapi.Endpoint
			for _, ce := range ch.eps {
				list = append(list, ce.ep)
			}
			text := ch.text // set for the classes generated from extracted route lists
			if text != "" {
				// nothing to generate
			} else if pi := prog.Guard(func() { text = typescript.GenerateAxios(list) }); pi != nil {
				mu.Lock()
				r.Fail(evid.Failure{Clause: "C14/generates", Sig: "GenerateAxios panics: " + trunc(pi.Msg, 60), Detail: pi.String(), Family: "F-endpoints"})
				mu.Unlock()
				return
			}
			fails := checkAxiosText(text, ch.name)
			var cases []c14Case
			type exp struct {
				ce      c14Endpoint
				variant int
				want    map[string]any
				ret     any
			}
			exps := map[string]exp{}
			for _, ce := range ch.eps {
				for variant := 0; variant < 2; variant++ {
					args, want, resp, ret := ce.expected(variant)
					id := fmt.Sprintf("%s/%d", ce.ep.Contract.Name, variant)
					if args == nil {
						args = []any{}
					}
					cases = append(cases, c14Case{ID: id, Method: ce.ep.Contract.Name, Args: args, Response: resp})
					exps[id] = exp{ce, variant, want, ret}
				}
			}
			job := map[string]any{"ts": text, "base_url": c14Base, "token": c14Token, "cases": cases}
			jb, _ := json.Marshal(job)
			jobFile := filepath.Join(tmp, ch.name+".job.json")
			outFile := filepath.Join(tmp, ch.name+".out.json")
			os.WriteFile(jobFile, jb, 0o644)
			cmd := exec.Command("node", filepath.Join(evid.VerifDir, "node", "c14_harness.js"), jobFile, outFile)
			if out, err := cmd.CombinedOutput(); err != nil {
				mu.Lock()
				r.Fail(evid.Failure{Clause: "C14/client-well-formed", Sig: "class outside the TypeScript template: " + trunc(firstLine(string(out)), 80), Detail: "the Node harness could not transform or run the generated class: " + trunc(string(out), 1500), Family: "F-endpoints"})
				mu.Unlock()
				return
			}
			ob, _ := os.ReadFile(outFile)
			var res struct {
				SyntaxOK    bool        `json:"syntax_ok"`
				SyntaxError string      `json:"syntax_error"`
				Results     []c14Result `json:"results"`
			}
			if err := json.Unmarshal(ob, &res); err != nil {
				mu.Lock()
				r.Internal("bad harness output: " + err.Error())
				mu.Unlock()
				return
			}
			mu.Lock()
			defer mu.Unlock()
			for _, f := range fails {
				r.Fail(f)
			}
			if !res.SyntaxOK {
				r.Fail(evid.Failure{Clause: "C14/client-well-formed", Sig: "JavaScript syntax error after stripping types", Detail: res.SyntaxError, Family: "F-endpoints"})
				return
			}
			for _, cr := range res.Results {
				ex := exps[cr.ID]
				r.Evaluations++
				r.TracesImpl++
				r.Transitions++
				desc := describeEndpoint(ex.ce)
				r.State(cr.ID+"@"+ch.name, len(cr.Requests) > 0)
				fail := func(clause, sig, detail string) {
					r.Outcome(clause + ": " + sig)
					f := evid.Failure{Clause: "C14/" + clause, Sig: sig + " [" + ex.ce.ep.Method + " " + ex.ce.input + " q=" + fmt.Sprint(len(ex.ce.qkind) > 0) + " ret=" + ex.ce.ret + "]", Detail: fmt.Sprintf("%s (argument variant %d): %s", desc, ex.variant, detail),
						Family: "F-endpoints", Cost: len(ex.ce.qkind), Extra: map[string]any{"endpoint": desc, "generated_method": methodText(text, ex.ce.ep.Contract.Name)}}
					if ex.ce.prog != nil { // class generated from an extracted route list, expectations from the route file
						f.Family, f.Features, f.Files, f.Vector = "F-routes", ex.ce.prog.Features, ex.ce.prog.FilesMap(), ex.ce.vec
						f.Sig = "extracted routes: " + f.Sig
					}
					r.Fail(f)
				}
				if cr.Threw != nil || cr.HandleErrorCalled != nil {
					fail("no-exception", "method threw", fmt.Sprintf("threw=%v handleError=%v", cr.Threw, cr.HandleErrorCalled))
					continue
				}
				if len(cr.Requests) != 1 {
					fail("one-request", fmt.Sprintf("%d requests", len(cr.Requests)), fmt.Sprintf("%d requests issued", len(cr.Requests)))
					continue
				}
				rq := cr.Requests[0]
				if rq.Verb != ex.want["verb"] {
					fail("verb", "verb", fmt.Sprintf("verb %q, want %q", rq.Verb, ex.want["verb"]))
				}
				if rq.URL != ex.want["url"] {
					fail("url", "url", fmt.Sprintf("url %q, want %q", rq.URL, ex.want["url"]))
				}
				if canon(rq.Body) != canon(ex.want["body"]) {
					fail("body", "body", fmt.Sprintf("body %s, want %s", canon(rq.Body), canon(ex.want["body"])))
				}
				cfg, isObj := rq.Config.(map[string]any)
				if !isObj {
					fail("config", "config is not an object", fmt.Sprintf("config %s (axios was called with %d arguments)", canon(rq.Config), rq.Nargs))
					continue
				}
				if canon(cfg["params"]) != canon(ex.want["params"]) {
					fail("query-params", "query parameters", fmt.Sprintf("params %s, want %s", canon(cfg["params"]), canon(ex.want["params"])))
				}
				if canon(cfg["responseType"]) != canon(ex.want["responseType"]) {
					fail("response-type", "responseType", fmt.Sprintf("responseType %s, want %s", canon(cfg["responseType"]), canon(ex.want["responseType"])))
				}
				if canon(cfg["headers"]) != canon(ex.want["headers"]) {
					fail("headers", "headers", fmt.Sprintf("headers %s, want %s", canon(cfg["headers"]), canon(ex.want["headers"])))
				}
				if ok, _ := cfg["other_keys"].([]any); len(ok) > 0 {
					fail("config", "unexpected config keys", fmt.Sprintf("unexpected config keys %v", ok))
				}
				if canon(cr.Returned) != canon(ex.ret) {
					fail("return", "returned value", fmt.Sprintf("returned %s, want %s", canon(cr.Returned), canon(ex.ret)))
				}
				if cr.StartRequestCalls != 1 {
					fail("start-request", "startRequest calls", fmt.Sprintf("startRequest called %d times", cr.StartRequestCalls))
				}
				if len(r.Samples) < 3 && ex.ce.input == "form" && len(ex.ce.qkind) == 2 {
					r.Sample(map[string]any{"endpoint": desc, "request": rq, "returned": cr.Returned})
				}
				r.Outcome("ok " + ex.ce.ep.Method + " " + ex.ce.input + " " + ex.ce.ret)
			}
		}(ci, ch)
	}
	wg.Wait()
	_ = routeLists
	return r.Finish()
}

func describeEndpoint(ce c14Endpoint) string {
	ct := ce.ep.Contract
	return fmt.Sprintf("%s %s handler=%s input=%s form{file=%q values=%v json=%q} query=%v return=%s", ce.ep.Method, ce.ep.Url, ct.Name, ce.input, ct.InputForm.File, ct.InputForm.ValueNames, ct.InputForm.JSON.Name, ce.qkind, ce.ret)
}

func methodText(text, name string) string {
	i := strings.Index(text, "async "+name+"(")
	if i < 0 {
		return ""
	}
	j := strings.Index(text[i:], "/** ")
	if j < 0 {
		j = len(text) - i
	}
	return trunc(text[i:i+j], 1500)
}

// checkAxiosText checks the type section of one generated file.
func checkAxiosText(text, name string) []evid.Failure {
	var out []evid.Failure
	typesPart, _, err := tsparse.SplitAxios(text)
	if err != nil {
		return []evid.Failure{{Clause: "C14/client-well-formed", Sig: "unexpected file layout", Detail: err.Error(), Family: "F-endpoints"}}
	}
	env, err := tsparse.Parse(typesPart)
	if err != nil {
		return []evid.Failure{{Clause: "C14/client-well-formed", Sig: "type declarations are not valid TypeScript", Detail: err.Error(), Family: "F-endpoints"}}
	}
	if d := env.Duplicates(); len(d) > 0 {
		out = append(out, evid.Failure{Clause: "C14/types-included-once", Sig: "duplicate declaration", Detail: fmt.Sprint(d), Family: "F-endpoints"})
	}
	if u := env.Undeclared(); len(u) > 0 {
		out = append(out, evid.Failure{Clause: "C14/types-included-once", Sig: "undeclared name in the declarations", Detail: fmt.Sprint(u), Family: "F-endpoints"})
	}
	// type names mentioned by the signatures (parameter lists and AxiosResponse<...>)
	mentioned := map[string]bool{}
	for _, line := range strings.Split(text, "\n") {
		t := strings.TrimSpace(line)
		frag := ""
		if strings.HasPrefix(t, "async ") && strings.HasSuffix(t, ") {") {
			frag = t[strings.Index(t, "(")+1 : len(t)-3]
		} else if i := strings.Index(t, "const rep:AxiosResponse<"); i >= 0 {
			frag = t[i+len("const rep:AxiosResponse<"):]
			if j := strings.Index(frag, "> = "); j >= 0 {
				frag = frag[:j]
			}
		}
		frag = reTSString.ReplaceAllString(frag, "")
		for _, w := range reTSWord.FindAllString(frag, -1) {
			mentioned[w] = true
		}
	}
	var missing []string
	for w := range mentioned {
		switch w {
		case "File", "Blob", "AxiosResponse", "Axios", "Record":
			continue
		}
		if _, ok := env.Types[w]; !ok {
			missing = append(missing, w)
		}
	}
	sort.Strings(missing)
	if len(missing) > 0 {
		out = append(out, evid.Failure{Clause: "C14/types-included-once", Sig: "signature mentions undeclared types: " + strings.Join(missing, ","), Detail: fmt.Sprintf("%s: the method signatures mention %v, which the file does not declare", name, missing), Family: "F-endpoints"})
	}
	return out
}

var (
	reTSWord   = regexpMust(`\b[A-Z][A-Za-z0-9_]*\b`)
	reTSString = regexpMust(`"[^"]*"`)
)

// extractedRouteLists runs GenerateAxios on the endpoint lists ParseEcho extracts from the
// F-routes programs (<= 1 deviation) and checks the text (well-formed, types included).
// c14Chunk is one generated class and the endpoints expected in it.
type c14Chunk struct {
	eps  []c14Endpoint
	name string
	text string // pre-generated class (extracted route lists); "" = generate from eps
}

// groundTruthEndpoints describes the routes the synthesiser wrote (not what was extracted): the
// class generated from the extracted list is executed against them.
func groundTruthEndpoints(routes []fam.Route, eps []httpapi.Endpoint, t *c14Types) []c14Endpoint {
	var out []c14Endpoint
	for i, rt := range routes {
		ct := httpapi.Contract{Name: eps[i].Contract.Name, IsReturnBlob: rt.Blob}
		ce := c14Endpoint{input: "none", ret: "none"}
		if rt.Input != "" {
			ce.input = "json"
			ct.InputBody = t.in
		}
		if len(rt.FormValues) > 0 || rt.FormFile != "" || rt.JSONField != nil {
			ce.input = "form"
			ct.InputForm.File = rt.FormFile
			ct.InputForm.ValueNames = rt.FormValues
			if rt.JSONField != nil {
				ct.InputForm.JSON = httpapi.TypedParam{Name: rt.JSONField.Name, Type: t.payload}
			}
		}
		for _, q := range rt.Query {
			kind, ty := "string", t.str
			switch q.Type {
			case "bool":
				kind, ty = "bool", t.boolean
			case "int", "int64":
				kind, ty = "int", t.integer
			case "IdDossier":
				kind, ty = "named-int", t.id
			}
			ct.InputQueryParams = append(ct.InputQueryParams, httpapi.TypedParam{Name: q.Name, Type: ty})
			ce.qkind = append(ce.qkind, kind)
		}
		switch {
		case rt.Blob:
			ce.ret = "blob"
			ct.Return = t.str
		case rt.Return != "":
			ce.ret = "json"
			ct.Return = t.out
		}
		ce.ep = httpapi.Endpoint{Url: rt.URL, Method: rt.Verb, Contract: ct}
		out = append(out, ce)
	}
	return out
}

func extractedRouteLists(r *evid.Report, t *c14Types) (int, []c14Chunk) {
	var chunks []c14Chunk
	n := 0
	st := explore.Stats{}
	seen := map[string]bool{}
	explore.Enumerate(1, func(c explore.Chooser) {
		p := fam.Routes(c)
		if seen[p.Hash()] {
			return
		}
		seen[p.Hash()] = true
		if p.Gofmt() != nil {
			return
		}
		l, err := prog.Load(p)
		if err != nil {
			return
		}
		var eps []httpapi.Endpoint
		if pi := prog.Guard(func() { eps = httpapi.ParseEcho(l.Root, l.RootFiles[0], p.Notes["prefix"]) }); pi != nil {
			return
		}
		var text string
		pi := prog.Guard(func() { text = typescript.GenerateAxios(eps) })
		n++
		if pi != nil {
			if pi.Runtime {
				r.Fail(evid.Failure{Clause: "C14/generates", Sig: "GenerateAxios crashes on extracted routes: " + pi.Where, Detail: pi.String(), Family: "F-routes", Features: p.Features, Files: p.FilesMap(), Vector: c.(*explore.Run).Vec()})
			}
			return
		}
		for _, f := range checkAxiosText(text, "routes") {
			f.Family, f.Features, f.Files, f.Vector = "F-routes", p.Features, p.FilesMap(), c.(*explore.Run).Vec()
			r.Fail(f)
		}
		// one method per endpoint, named after its handler
		dupNames := false
		for _, ep := range eps {
			switch n := strings.Count(text, "async "+ep.Contract.Name+"("); {
			case n == 0:
				r.Fail(evid.Failure{Clause: "C14/one-method-per-endpoint", Sig: "method missing", Detail: "no method " + ep.Contract.Name, Family: "F-routes", Features: p.Features, Files: p.FilesMap(), Vector: c.(*explore.Run).Vec()})
			case n > 1: // two endpoints share one method name: the later member replaces the earlier one
				dupNames = true
				r.Fail(evid.Failure{Clause: "C14/one-method-per-endpoint", Sig: "method " + regexpMust(`[0-9]+`).ReplaceAllString(ep.Contract.Name, "#") + " defined more than once", Detail: fmt.Sprintf("method %s is defined %d times in the class (endpoint %s %s)", ep.Contract.Name, n, ep.Method, ep.Url), Family: "F-routes", Features: p.Features, Files: p.FilesMap(), Vector: c.(*explore.Run).Vec()})
			}
		}
		// execute the class against the routes the synthesiser wrote (one entry per registration, in
		// order: C13 decides that; a list of another length is left to it)
		var routes []fam.Route
		if json.Unmarshal([]byte(p.Notes["routes"]), &routes) == nil && len(routes) == len(eps) && len(eps) > 0 && !dupNames {
			ch := c14Chunk{name: fmt.Sprintf("routes%d", n), text: text}
			for _, ce := range groundTruthEndpoints(routes, eps, t) {
				if (ce.ep.Method == "GET" || ce.ep.Method == "DELETE") && ce.input != "none" {
					continue // same assumption as for F-endpoints: bodies and forms go with POST and PUT
				}
				ch.eps = append(ch.eps, ce)
			}
			for i := range ch.eps {
				ch.eps[i].prog = p
				ch.eps[i].vec = c.(*explore.Run).Vec()
			}
			chunks = append(chunks, ch)
		}
	}, func(*explore.Run) {}, &st)
	r.Bounds["route_programs_checked"] = n
	r.Bounds["route_programs_executed"] = len(chunks)
	return n, chunks
}

func init() { customRunners["C14"] = runC14 }

func regexpMust(s string) *regexp.Regexp { return regexp.MustCompile(s) }
