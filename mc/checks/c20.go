package checks

import (
	"fmt"
	"os"
	"os/exec"
	"path/filepath"
	"strings"

	"verif.test/mc/evid"
	"verif.test/mc/overlay"
)

// customRunners are checks that build and run their own binary (with -overlay).
var customRunners = map[string]func(tier string) int{}

func goEnv() []string {
	return append(os.Environ(), "GOFLAGS=-mod=mod", "GOPROXY=off", "GOSUMDB=off", "GOTOOLCHAIN=local")
}

// buildOverlay builds ./cmd/<name> of the mc module with the overlay and returns the binary path.
func buildOverlay(ov *overlay.Overlay, name, scratch string, extra ...string) (string, error) {
	ovPath, err := ov.Write(scratch)
	if err != nil {
		return "", err
	}
	bin := filepath.Join(evid.VerifDir, ".bin", name)
	args := append([]string{"build", "-tags", "verifoverlay", "-overlay", ovPath}, extra...)
	args = append(args, "-o", bin, "./cmd/"+name)
	cmd := exec.Command("go", args...)
	cmd.Dir = filepath.Join(evid.VerifDir, "mc")
	cmd.Env = goEnv()
	if out, err := cmd.CombinedOutput(); err != nil {
		return "", fmt.Errorf("build of %s with the overlay failed: %v\n%s", name, err, out)
	}
	return bin, nil
}

func runC20(tier string) int {
	scratch, err := os.MkdirTemp("", "gomacro-ov-c20-")
	if err != nil {
		fmt.Fprintln(os.Stderr, err)
		return 2
	}
	defer os.RemoveAll(scratch)
	ov := overlay.New(evid.VerifDir)
	if err := ov.Sync(evid.RepoDir+"/generator/formatters.go", scratch); err != nil {
		fmt.Fprintln(os.Stderr, "INTERNAL ERROR: instrumenting formatters.go:", err)
		return 2
	}
	bin, err := buildOverlay(ov, "c20h", scratch)
	if err != nil {
		fmt.Fprintln(os.Stderr, "BUILD FAILED:", err)
		return 2
	}
	race := racePass(scratch)
	harnessB := harnessBPass(ov, scratch, tier)
	cmd := exec.Command(bin, tier)
	cmd.Env = append(os.Environ(), "VERIF_DIR="+evid.VerifDir, "VERIF_C20_RACE="+race, "VERIF_C20B="+harnessB)
	cmd.Stdout, cmd.Stderr = os.Stdout, os.Stderr
	if err := cmd.Run(); err != nil {
		if ee, ok := err.(*exec.ExitError); ok {
			return ee.ExitCode()
		}
		fmt.Fprintln(os.Stderr, err)
		return 2
	}
	return 0
}

// racePass builds cmd/c20race with -race and runs it with stand-in tools first on PATH.
// It returns "ok: ...", "race: <excerpt>" or "unavailable: <why>".
func racePass(scratch string) string {
	bin := filepath.Join(evid.VerifDir, ".bin", "c20race")
	b := exec.Command("go", "build", "-race", "-o", bin, "./cmd/c20race")
	b.Dir = filepath.Join(evid.VerifDir, "mc")
	b.Env = append(goEnv(), "CGO_ENABLED=1")
	if out, err := b.CombinedOutput(); err != nil {
		return "unavailable: -race build failed: " + firstLine(string(out))
	}
	tools := filepath.Join(scratch, "tools")
	work := filepath.Join(scratch, "work")
	os.MkdirAll(tools, 0o755)
	os.MkdirAll(work, 0o755)
	logf := filepath.Join(scratch, "tools.log")
	script := "#!/bin/sh\necho \"$(basename $0) $@\" >> " + logf + "\nexit 0\n"
	for _, t := range []string{"which", "goimports", "dart", "npx", "pg_format"} {
		os.WriteFile(filepath.Join(tools, t), []byte(script), 0o755)
	}
	c := exec.Command(bin, work)
	c.Env = append(os.Environ(), "PATH="+tools+":"+os.Getenv("PATH"), "GORACE=halt_on_error=0")
	out, err := c.CombinedOutput()
	if i := strings.Index(string(out), "WARNING: DATA RACE"); i >= 0 {
		ex := string(out)[i:]
		if len(ex) > 1500 {
			ex = ex[:1500]
		}
		return "race: " + ex
	}
	if err != nil {
		return "unavailable: race pass failed: " + firstLine(string(out))
	}
	lg, _ := os.ReadFile(logf)
	return fmt.Sprintf("ok: %s; %d tool invocations logged, no race reported", strings.TrimSpace(string(out)), strings.Count(string(lg), "\n"))
}

// harnessBPass drives cmd.saveOutputs itself (package main): the overlay adds a test file to
// /repo/cmd and instruments cmd/gomacro.go (sync, go statements); `go test` runs it in /repo
// without writing there. Returns the path of the JSON result, or "unavailable: ...".
func harnessBPass(ov *overlay.Overlay, scratch, tier string) string {
	if err := ov.Sync(evid.RepoDir+"/cmd/gomacro.go", scratch); err != nil {
		return "unavailable: instrumenting cmd/gomacro.go: " + err.Error()
	}
	ov.Replace[evid.RepoDir+"/cmd/verif_c20b_test.go"] = filepath.Join(evid.VerifDir, "mc", "overlay", "files", "verif_c20b_test.go.txt")
	ovPath, err := ov.Write(scratch)
	if err != nil {
		return "unavailable: " + err.Error()
	}
	out := filepath.Join(scratch, "c20b.json")
	c := exec.Command("go", "test", "-overlay", ovPath, "-vet=off", "-count=1", "-run", "TestVerifC20B", "./cmd")
	c.Dir = evid.RepoDir
	c.Env = append(os.Environ(), "GOFLAGS=-mod=readonly", "GOPROXY=off", "GOSUMDB=off", "GOTOOLCHAIN=local", "VERIF_C20B_OUT="+out, "VERIF_TIER="+tier)
	if b, err := c.CombinedOutput(); err != nil {
		return "unavailable: go test of harness B failed: " + trunc(string(b), 600)
	}
	b, err := os.ReadFile(out)
	if err != nil {
		return "unavailable: no result file"
	}
	return string(b)
}

// harnessCPass runs TestVerifC07C (overlay test file of package main in cmd): Config.run on a small
// module under every schedule within the bound; returns its JSON result or "unavailable: ...".
func harnessCPass(scratch, tier string) string {
	dir := filepath.Join(scratch, "c07c")
	os.MkdirAll(dir, 0o755)
	ov := overlay.New(evid.VerifDir)
	if err := ov.Sync(evid.RepoDir+"/generator/formatters.go", dir); err != nil {
		return "unavailable: instrumenting generator/formatters.go: " + err.Error()
	}
	if err := ov.Sync(evid.RepoDir+"/cmd/gomacro.go", dir); err != nil {
		return "unavailable: instrumenting cmd/gomacro.go: " + err.Error()
	}
	ov.Replace[evid.RepoDir+"/cmd/verif_c20b_test.go"] = filepath.Join(evid.VerifDir, "mc", "overlay", "files", "verif_c20b_test.go.txt")
	ovPath, err := ov.Write(dir)
	if err != nil {
		return "unavailable: " + err.Error()
	}
	out := filepath.Join(dir, "c07c.json")
	c := exec.Command("go", "test", "-overlay", ovPath, "-vet=off", "-count=1", "-run", "TestVerifC07C", "./cmd")
	c.Dir = evid.RepoDir
	c.Env = append(os.Environ(), "GOFLAGS=-mod=readonly", "GOPROXY=off", "GOSUMDB=off", "GOTOOLCHAIN=local", "VERIF_C07C_OUT="+out, "VERIF_TIER="+tier)
	if b, err := c.CombinedOutput(); err != nil {
		return "unavailable: go test of harness C failed: " + trunc(string(b), 600)
	}
	b, err := os.ReadFile(out)
	if err != nil {
		return "unavailable: no result file"
	}
	return string(b)
}

func firstLine(s string) string {
	if i := strings.Index(s, "\n"); i >= 0 {
		return s[:i]
	}
	return s
}

func init() { customRunners["C20"] = runC20 }

func runC07(tier string) int {
	scratch, err := os.MkdirTemp("", "gomacro-ov-c07-")
	if err != nil {
		fmt.Fprintln(os.Stderr, err)
		return 2
	}
	defer os.RemoveAll(scratch)
	ov := overlay.New(evid.VerifDir)
	if err := ov.Maps(scratch, "./analysis/...", "./generator/..."); err != nil {
		fmt.Fprintln(os.Stderr, "INTERNAL ERROR: instrumenting map ranges:", err)
		return 2
	}
	bin, err := buildOverlay(ov, "c07h", scratch)
	if err != nil {
		fmt.Fprintln(os.Stderr, "BUILD FAILED:", err)
		return 2
	}
	// harness C: the CLI's configuration mode under the cooperative scheduler (its own overlay:
	// sync / go statements of cmd/gomacro.go and generator/formatters.go, not the map ranges)
	harnessC := harnessCPass(scratch, tier)
	cmd := exec.Command(bin, tier)
	cmd.Env = append(os.Environ(), "VERIF_DIR="+evid.VerifDir, "VERIF_C07_SITES="+strings.Join(ov.Sites, ","), "VERIF_C07C="+harnessC)
	cmd.Stdout, cmd.Stderr = os.Stdout, os.Stderr
	if err := cmd.Run(); err != nil {
		if ee, ok := err.(*exec.ExitError); ok {
			return ee.ExitCode()
		}
		fmt.Fprintln(os.Stderr, err)
		return 2
	}
	return 0
}

func init() { customRunners["C07"] = runC07 }
