package checks

import (
	"fmt"
	"time"

	"github.com/benoitkugler/gomacro/analysis"
	"github.com/benoitkugler/gomacro/analysis/httpapi"
	"github.com/benoitkugler/gomacro/generator/typescript"
	"verif.test/mc/fam"
	"verif.test/mc/prog"
)

// C18: unsupported input is refused with a diagnostic, never a crash.
// Every program of every in-process family x analysis + seven targets.

func evalC18(e *Eval) {
	var ans []*analysis.Analysis
	outcome := ""
	for i := range e.L.RootFiles {
		an, pi := e.L.Analyse(i)
		if pi != nil {
			if pi.Runtime {
				e.Fail("no-runtime-error", "analysis: "+pi.Where, "analysis died with a Go runtime error instead of a diagnostic: "+pi.String())
				outcome += "A!"
			} else {
				outcome += "Ad"
				e.Count("refused:analysis")
			}
			e.Res.Outcome = outcome
			e.Res.Nontrivial = true
			return
		}
		ans = append(ans, an)
	}
	nOK := 0
	for _, t := range prog.AllTargets {
		_, pi := e.L.RunTarget(t, ans)
		switch {
		case pi == nil:
			nOK++
			outcome += "."
		case pi.Runtime:
			outcome += "!"
			e.Fail("no-runtime-error", t+": "+pi.Where, fmt.Sprintf("target %s died with a Go runtime error instead of a diagnostic: %s", t, pi.String()))
		default:
			outcome += "d"
			e.Count("refused:" + t)
		}
	}
	if e.Prog.Family == "F-routes" {
		// the seventh target of the CLI: typescript/api = ParseEcho + GenerateAxios
		var eps []httpapi.Endpoint
		if pi := prog.Guard(func() { eps = httpapi.ParseEcho(e.L.Root, e.L.RootFiles[0], e.Prog.Notes["prefix"]) }); pi != nil {
			if pi.Runtime {
				outcome += "!"
				e.Fail("no-runtime-error", "ParseEcho: "+pi.Where, "ParseEcho died with a Go runtime error instead of a diagnostic: "+pi.String())
			} else {
				outcome += "d"
				e.Count("refused:typescript/api")
			}
		} else if pi := prog.Guard(func() { typescript.GenerateAxios(eps) }); pi != nil {
			if pi.Runtime {
				outcome += "!"
				e.Fail("no-runtime-error", "GenerateAxios: "+pi.Where, "GenerateAxios died with a Go runtime error instead of a diagnostic: "+pi.String())
			} else {
				outcome += "d"
				e.Count("refused:typescript/api")
			}
		} else {
			outcome += "."
		}
	}
	e.Res.Outcome = outcome
	e.Res.Nontrivial = true
	if e.Cost == 1 && len(e.Prog.Features) > 0 {
		e.Res.Sample = map[string]any{"features": e.Prog.Features, "outcome(7 targets: .=ok d=diagnostic !=runtime error)": outcome}
	}
}

func init() {
	registerProg(&ProgCheck{
		ID: "C18", Family: "F-types", Synth: fam.Types,
		Bound:       map[string]int{"quick": 2, "thorough": 3},
		Deadline:    map[string]time.Duration{"quick": 5 * time.Minute, "thorough": 45 * time.Minute},
		FatalClause: "no-fatal-crash",
		Rule:        "every program of families F-types, F-enum, F-union, F-tables, F-routes within the deviation bound x analysis + 7 targets (gounions, randdata, sqlcrud with and without sets, sql, typescript, dart; plus ParseEcho + GenerateAxios for route files); distinct = distinct source text; every program is non-trivial (8 stages each)",
		Assumptions: []string{"a panic whose value is not a runtime.Error is an explicit gomacro diagnostic", "worker process death (stack overflow) counts as a crash"},
		Eval:        evalC18,
		More: []*ProgCheck{
			{Family: "F-enum", Synth: fam.Enum, Bound: map[string]int{"quick": 2, "thorough": 3}},
			{Family: "F-union", Synth: fam.Union, Bound: map[string]int{"quick": 2, "thorough": 3}},
			{Family: "F-tables", Synth: fam.Tables, Bound: map[string]int{"quick": 2, "thorough": 3}},
			{Family: "F-routes", Synth: fam.Routes, Bound: map[string]int{"quick": 2, "thorough": 3}},
		},
	})
}
