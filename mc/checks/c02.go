package checks

import (
	"strings"
	"time"

	"verif.test/mc/explore"
	"verif.test/mc/fam"
	"verif.test/mc/prog"
)

func typesSupported(c explore.Chooser) *prog.Program {
	return fam.TypesWith(c, fam.TypesOpt{NoUnsupported: true})
}

func sharedBudget(quick, thorough int) func(tier string, cost int) int {
	return func(tier string, cost int) int {
		if tier == "thorough" {
			return thorough - cost
		}
		return quick - cost
	}
}

func init() {
	registerBatch(&BatchCheck{
		ID: "C02", Mode: "c02",
		Families: []*ProgCheck{{Family: "F-types", Synth: typesSupported, Bound: map[string]int{"quick": 1, "thorough": 2}}},
		Targets:  []string{prog.TGounions},
		Budget:   sharedBudget(2, 3),
		Deadline: map[string]time.Duration{"quick": 8 * time.Minute, "thorough": 50 * time.Minute},
		Rule:     "programs of F-types (supported forms) within the program deviation bound, compiled with their generated union wrappers; for each analysed type every value within the remaining shared deviation budget (program + value deviations <= 2 quick / 3 thorough) is marshalled, unmarshalled and compared with the reference encoder; non-trivial = at least one value was round-tripped",
		Assumptions: []string{
			"reference wire document: encoding/json itself on every union-free component; structs containing unions are described with encoding/json's field rules (exported fields, tag name, \"-\", omitempty, embedded structs), unions as {Kind, Data}",
			"values leave unexported and json:\"-\" fields zero (a round trip cannot preserve them in plain Go either)",
			"a program whose generated code does not type-check in process is reported (clause generated-code-usable): no value can be round-tripped through it",
		},
	})
	registerBatch(&BatchCheck{
		ID: "C15", Mode: "c15",
		Families: []*ProgCheck{{Family: "F-types", Synth: typesSupported, Bound: map[string]int{"quick": 1, "thorough": 2}}},
		Targets:  []string{prog.TGounions, prog.TRanddata},
		// deviations in the random answers: 2 on the scaffold, 1 on the programs at 1 deviation and, in the
		// thorough tier, 1 on the programs at 2 deviations (2 answers off the default on ~1000 draw
		// alternatives is ~5.10^5 calls per program: affordable once, not 160 times)
		Budget: func(tier string, cost int) int {
			if cost == 0 {
				return 2
			}
			if tier == "thorough" && cost == 2 {
				return 1
			}
			return 2 - cost
		},
		Deadline: map[string]time.Duration{"quick": 8 * time.Minute, "thorough": 50 * time.Minute},
		Rule:     "programs of F-types (supported forms) compiled with their randdata and gounions outputs; math/rand is replaced by a shim whose every draw is a choice point (all values for n <= 8, {0, n-1, n/3, n/2} above); every sequence of random answers within the shared deviation budget is explored for every generated function; on the scaffold program a table sweep also gives every draw on 9..64 values (an index into a small table such as the letters of randstring), one at a time, every value of its range; non-trivial = at least one generated function was called",
		Assumptions: []string{
			"a generated function drawing more than 100000 random numbers in one call does not terminate",
			"Int31 / Float64 answer from a 3-value alphabet",
		},
	})
}

func init() {
	registerBatch(&BatchCheck{
		ID: "C03", Mode: "c03",
		Families: []*ProgCheck{{Family: "F-types", Synth: typesSupported, Bound: map[string]int{"quick": 1, "thorough": 2}}},
		Targets:  []string{prog.TGounions, prog.TTS},
		Keep: func(p *prog.Program) bool {
			// a field tagged gomacro:"ignore" is left out of the TypeScript on purpose although Go emits it
			for _, f := range p.Features {
				if strings.Contains(f, `gomacro:\"ignore\"`) || strings.Contains(f, `gomacro:"ignore"`) {
					return false
				}
			}
			return true
		},
		Budget:   sharedBudget(2, 3),
		Deadline: map[string]time.Duration{"quick": 8 * time.Minute, "thorough": 50 * time.Minute},
		Rule:     "programs of F-types (supported forms; the TypeScript generator refuses pointers) compiled with their union wrappers; the TypeScript output is parsed by tsparse (well-formed, every name declared exactly once) and every document json.Marshal produces for every value of every analysed type within the shared deviation budget must inhabit the declaration of its type; non-trivial = at least one document was checked",
		Assumptions: []string{
			"tsparse accepts exactly the TypeScript subset the generator can emit; a text it rejects is reported as not valid TypeScript (no TypeScript compiler exists offline)",
			"inhabitation is closed-world: exact property sets, primitive kinds, null only where the type admits it, tuple lengths, literal sets of the `as const` objects, Kind/Data alternatives",
		},
	})
}

func init() {
	registerBatch(&BatchCheck{
		ID: "C04", Mode: "c04",
		Families: []*ProgCheck{{Family: "F-tables", Synth: fam.TablesJSON, Bound: map[string]int{"quick": 1, "thorough": 2}}},
		Targets:  []string{prog.TGounions, prog.TSQL},
		Keep: func(p *prog.Program) bool {
			// a column tagged gomacro:"ignore" gets no union wrappers (ignored by gounions) but is still a jsonb column
			for _, f := range p.Features {
				if strings.Contains(f, `gomacro:"ignore"`) {
					return false
				}
			}
			return true
		},
		Budget:   sharedBudget(2, 3),
		Deadline: map[string]time.Duration{"quick": 8 * time.Minute, "thorough": 50 * time.Minute},
		Rule:     "programs of F-tables with a jsonb column, compiled with their union wrappers; for every value of the column's Go type within the shared deviation budget the CHECK's validation function is interpreted (vpg) on the document json.Marshal emits, then on every single-point corruption of it (unknown key at every closed object, every node replaced by each other JSON kind, unknown Kind, non-member enum value, fixed array length +-1); non-trivial = at least one document was evaluated",
		Assumptions: []string{
			"vpg interprets the PL/pgSQL subset of the templates with PostgreSQL's three-valued logic and errors, written from the manual (no PostgreSQL exists here); AND/OR evaluate left to right with short-circuit",
			"a CHECK is violated iff it evaluates to FALSE; an error also rejects the row",
			"null is not counted as a wrong kind where the Go type is a slice or a map",
		},
	})
}

func init() {
	registerBatch(&BatchCheck{
		ID: "C05", Mode: "c05",
		Families: []*ProgCheck{{Family: "F-tables", Synth: fam.Tables, Bound: map[string]int{"quick": 1, "thorough": 2}}},
		Targets:  []string{prog.TGounions, prog.TSQL, prog.TSqlcrud},
		Keep: func(p *prog.Program) bool {
			switch p.Notes["col"] {
			case "ext.Pos": // composite of another package: its CREATE TYPE belongs to that package's schema
				return false
			case "Empty": // CREATE TYPE t AS () is legal PostgreSQL but outside vsql's grammar
				return false
			}
			return true
		},
		Budget: func(tier string, cost int) int { // BFS depth
			if tier == "thorough" && cost <= 1 {
				return 4
			}
			return 3
		},
		Deadline: map[string]time.Duration{"quick": 8 * time.Minute, "thorough": 50 * time.Minute},
		Rule:     "BFS depth 3 (quick; thorough: 4 for programs within 1 deviation, 3 for those at 2); link tables with two keys get two more row variants mixing the keys of the others; programs of F-tables compiled with their sqlcrud output and the pq stub; an in-memory store (vsql) is created from the generated DDL of the same program; explicit-state BFS: state = contents of all tables + serial counters (canonical form), transitions = every generated function (Insert, Update, Select*, Delete*, by foreign key / unique / select key, link-table Insert/InsertMany/Delete, custom queries) with 3 row variants (two fully populated with distinct values, one with every nullable NULL and slice nil) and existing / missing ids; every transition must execute without SQL error and agree with a map model; non-trivial = at least one transition executed",
		Assumptions: []string{
			"vsql implements the generated tables from the DDL text and mimics PostgreSQL + lib/pq for the statement shapes the generator emits (written from the documentation); foreign keys, UNIQUE and CHECK constraints are not enforced",
			"custom queries are executed (no SQL error allowed) but their effect is not modelled: the search does not continue from the states they produce",
		},
	})
}
