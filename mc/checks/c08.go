package checks

import (
	"fmt"
	"go/ast"
	"go/constant"
	"go/token"
	"go/types"
	"reflect"
	"regexp"
	"sort"
	"strings"
	"time"
	"unicode"

	"github.com/benoitkugler/gomacro/analysis"
	"verif.test/mc/explore"
	"verif.test/mc/fam"
	"verif.test/mc/models/sqlddl"
	"verif.test/mc/prog"
)

// C08: the SQL schema is a faithful image of the table structs.
// The reference below restates the documented mapping on go/types; it never calls gomacro.

func snakePlural(name string) string {
	rs := []rune(name)
	var b strings.Builder
	for i, r := range rs {
		if unicode.IsUpper(r) && i > 0 {
			prev := rs[i-1]
			nextLower := i+1 < len(rs) && unicode.IsLower(rs[i+1])
			if unicode.IsLower(prev) || unicode.IsDigit(prev) || (unicode.IsUpper(prev) && nextLower) {
				b.WriteByte('_')
			}
		}
		b.WriteRune(unicode.ToLower(r))
	}
	return b.String() + "s"
}

type refColumn struct {
	field    *types.Var
	tag      reflect.StructTag
	sqlType  string
	notNull  bool
	kind     string   // builtin enum array composite json
	enumVals []string // SQL literals
	arrayLen int64    // -1 unless fixed array
	compName string
	compOf   *types.Named
}

func basicSQL(b *types.Basic) (string, bool) {
	info := b.Info()
	switch {
	case info&types.IsBoolean != 0:
		return "boolean", true
	case info&types.IsInteger != 0:
		if b.Kind() == types.Int16 || b.Kind() == types.Uint8 {
			return "smallint", true
		}
		return "integer", true
	case info&types.IsFloat != 0:
		return "real", true
	case info&types.IsString != 0:
		return "text", true
	}
	return "", false
}

func timeSQL(t types.Type) string {
	if n, ok := types.Unalias(t).(*types.Named); ok && strings.Contains(strings.ToLower(n.Obj().Name()), "date") {
		return "date"
	}
	return "timestamp (0) with time zone"
}

// nullWrapped returns the data field of a struct {Valid bool; X T} in either order.
func nullWrapped(st *types.Struct) *types.Var {
	if st.NumFields() != 2 {
		return nil
	}
	isValid := func(f *types.Var) bool {
		b, ok := f.Type().Underlying().(*types.Basic)
		return ok && b.Info() == types.IsBoolean && f.Name() == "Valid"
	}
	if isValid(st.Field(0)) {
		return st.Field(1)
	}
	if isValid(st.Field(1)) {
		return st.Field(0)
	}
	return nil
}

func sqlLiteral(v constant.Value) string {
	if v.Kind() == constant.String {
		// an SQL string literal: apostrophes doubled, nothing else escaped (standard_conforming_strings)
		return "'" + strings.ReplaceAll(constant.StringVal(v), "'", "''") + "'"
	}
	return v.ExactString()
}

// refSQLType is the Go -> SQL mapping of the property statement. ok=false: unsupported (pointer...).
func refSQLType(t types.Type, enums map[*types.Named]*refEnum, unions map[*types.Named][]*types.Named) (c refColumn, ok bool) {
	c.arrayLen = -1
	t = types.Unalias(t)
	if isTimeLike(t) {
		return refColumn{sqlType: timeSQL(t), notNull: true, kind: "builtin", arrayLen: -1}, true
	}
	if n, isNamed := t.(*types.Named); isNamed {
		if re := enums[n]; re != nil {
			b := n.Underlying().(*types.Basic)
			name, _ := basicSQL(b)
			c.kind, c.sqlType, c.notNull = "enum", name, true
			for _, m := range re.members {
				c.enumVals = append(c.enumVals, sqlLiteral(m.obj.Val()))
			}
			return c, true
		}
		if unions[n] != nil {
			return refColumn{sqlType: "jsonb", notNull: true, kind: "json", arrayLen: -1}, true
		}
		if st, isSt := n.Underlying().(*types.Struct); isSt {
			if data := nullWrapped(st); data != nil {
				if b, isB := data.Type().Underlying().(*types.Basic); isB {
					if name, ok := basicSQL(b); ok {
						return refColumn{sqlType: name, notNull: false, kind: "builtin", arrayLen: -1}, true
					}
				} else if isTimeLike(data.Type()) {
					return refColumn{sqlType: timeSQL(data.Type()), notNull: false, kind: "builtin", arrayLen: -1}, true
				}
				return refColumn{sqlType: "jsonb", notNull: true, kind: "json", arrayLen: -1}, true
			}
			allInt := true
			for _, f := range flatFields(st, enums, unions) {
				ft := types.Unalias(f.Type())
				if fn, ok := ft.(*types.Named); ok {
					// integer enums only
					if enums[fn] == nil {
						allInt = false
						break
					}
					if b, ok := fn.Underlying().(*types.Basic); !ok || b.Info()&types.IsInteger == 0 {
						allInt = false
						break
					}
					continue
				}
				if b, ok := ft.(*types.Basic); !ok || b.Info()&types.IsInteger == 0 {
					allInt = false
					break
				}
			}
			if allInt {
				return refColumn{sqlType: n.Obj().Name(), notNull: true, kind: "composite", compName: n.Obj().Name(), compOf: n, arrayLen: -1}, true
			}
			return refColumn{sqlType: "jsonb", notNull: true, kind: "json", arrayLen: -1}, true
		}
		return refSQLType(n.Underlying(), enums, unions)
	}
	switch u := t.(type) {
	case *types.Basic:
		name, ok := basicSQL(u)
		if !ok {
			return c, false
		}
		return refColumn{sqlType: name, notNull: true, kind: "builtin", arrayLen: -1}, true
	case *types.Slice, *types.Array:
		var elem types.Type
		length := int64(-1)
		if s, ok := u.(*types.Slice); ok {
			elem = s.Elem()
		} else {
			elem = u.(*types.Array).Elem()
			length = u.(*types.Array).Len()
		}
		elem = types.Unalias(elem)
		if b, ok := elem.(*types.Basic); ok {
			if b.Kind() == types.Uint8 {
				return refColumn{sqlType: "bytea", notNull: true, kind: "builtin", arrayLen: -1}, true
			}
			if name, ok := basicSQL(b); ok {
				return refColumn{sqlType: name + "[]", notNull: length >= 0, kind: "array", arrayLen: length}, true
			}
			return c, false
		}
		if en, ok := elem.(*types.Named); ok && enums[en] != nil && !isTimeLike(en) {
			if b, ok := en.Underlying().(*types.Basic); ok && b.Info()&types.IsInteger != 0 {
				name, _ := basicSQL(b)
				return refColumn{sqlType: name + "[]", notNull: length >= 0, kind: "array", arrayLen: length}, true
			}
		}
		return refColumn{sqlType: "jsonb", notNull: true, kind: "json", arrayLen: -1}, true
	case *types.Map:
		return refColumn{sqlType: "jsonb", notNull: true, kind: "json", arrayLen: -1}, true
	}
	return c, false
}

// structDecl is a struct declared in the analysed file with the doc comment its declaration carries.
type structDecl struct {
	named *types.Named
	doc   []string // raw comment lines
}

func structDecls(e *Eval, fileIdx int) []structDecl { return structDeclsG(e, fileIdx, false) }

// structDeclsG also lists, when generic is set, the generic struct declarations (the analysis only
// accepts those whose parameters do not appear in their fields, and the SQL target gives them a table).
func structDeclsG(e *Eval, fileIdx int, generic bool) []structDecl {
	abs := e.L.RootFiles[fileIdx]
	var out []structDecl
	for _, f := range e.L.Root.Syntax {
		if e.L.Fset.File(f.Pos()).Name() != abs {
			continue
		}
		for _, d := range f.Decls {
			gd, ok := d.(*ast.GenDecl)
			if !ok || gd.Tok != token.TYPE {
				continue
			}
			for _, sp := range gd.Specs {
				ts := sp.(*ast.TypeSpec)
				obj := e.L.Root.TypesInfo.Defs[ts.Name]
				// (an alias declared in the file denotes the struct it is an alias of)
				n, ok := types.Unalias(obj.Type()).(*types.Named)
				if !ok {
					continue
				}
				if _, isSt := n.Underlying().(*types.Struct); !isSt || (n.TypeParams().Len() > 0 && !generic) || n.TypeArgs().Len() > 0 {
					continue
				}
				dup := false
				for _, prev := range out {
					dup = dup || prev.named == n
				}
				if dup {
					continue
				}
				sd := structDecl{named: n}
				var cg *ast.CommentGroup
				if ts.Doc != nil {
					cg = ts.Doc
				} else if !gd.Lparen.IsValid() {
					cg = gd.Doc
				}
				if cg != nil {
					for _, c := range cg.List {
						sd.doc = append(sd.doc, c.Text)
					}
				}
				out = append(out, sd)
			}
		}
	}
	return out
}

var (
	reDirective   = regexp.MustCompile(`^// gomacro:(\w+) (.+)`)
	reEnumPH      = regexp.MustCompile(`#\[(\w+)\.(\w+)\]`)
	reWord        = regexp.MustCompile(`\w+`)
	reSelectKeyD  = regexp.MustCompile(`(?i)_SELECT KEY\s?\((.*)\)`)
	reGenFK       = regexp.MustCompile(`^ALTER TABLE (\w+) ADD FOREIGN KEY\((\w+)\) REFERENCES (\w+)\s*(?:ON DELETE (.+))?$`)
	reGenDefault  = regexp.MustCompile(`^ALTER TABLE (\w+) ALTER COLUMN (\w+) SET DEFAULT (.+)$`)
	reGenJSON     = regexp.MustCompile(`^ALTER TABLE (\w+) ADD CONSTRAINT (\w+)_gomacro CHECK \((\w+)\((\w+)\)\)$`)
	reInlineEnum  = regexp.MustCompile(`^(\w+) IN \((.*)\)$`)
	reInlineArray = regexp.MustCompile(`^array_length\((\w+), 1\) = (\d+)$`)
)

// expandEnumPlaceholders replaces #[T.C] by the SQL literal of the constant (reference).
func expandEnumPlaceholders(pkg *types.Package, s string) (string, error) {
	var err error
	out := reEnumPH.ReplaceAllStringFunc(s, func(m string) string {
		sub := reEnumPH.FindStringSubmatch(m)
		c, ok := pkg.Scope().Lookup(sub[2]).(*types.Const)
		if !ok {
			err = fmt.Errorf("no constant %s", sub[2])
			return m
		}
		if n, ok := c.Type().(*types.Named); !ok || n.Obj().Name() != sub[1] {
			err = fmt.Errorf("constant %s is not of type %s", sub[2], sub[1])
		}
		return sqlLiteral(c.Val())
	})
	return out, err
}

// expandTableNames replaces the word after REFERENCES and every whole-word table struct name.
func expandTableNames(s string, tables map[string]bool) string {
	idx := reWord.FindAllStringIndex(s, -1)
	var b strings.Builder
	last := 0
	prevWord := ""
	prevEnd := 0
	for _, loc := range idx {
		w := s[loc[0]:loc[1]]
		b.WriteString(s[last:loc[0]])
		afterRef := prevWord == "REFERENCES" && s[prevEnd:loc[0]] == " "
		if afterRef || tables[w] {
			b.WriteString(snakePlural(w))
		} else {
			b.WriteString(w)
		}
		last = loc[1]
		prevWord, prevEnd = w, loc[1]
	}
	b.WriteString(s[last:])
	return b.String()
}

type sqlRef struct {
	tables      []refTable
	customStmts []string // expected custom statements (normalised), in order
	queries     []refQuery
	unsupported string
}

type refTable struct {
	decl    structDecl
	sqlName string
	cols    []refColumn
	primary int
}

type refQuery struct {
	funcName string
	query    string   // expected SQL text
	args     []string // placeholder names, first-occurrence order
	argTypes []string // Go type text relative to the root package
}

func relTo(pkg *types.Package) types.Qualifier {
	return func(o *types.Package) string {
		if o == pkg {
			return ""
		}
		return o.Name()
	}
}

var rePlaceholder = regexp.MustCompile(`\$(\w+)\$`)

func buildSQLRef(e *Eval, enums map[*types.Named]*refEnum, unions map[*types.Named][]*types.Named) *sqlRef {
	ref := &sqlRef{}
	decls := structDeclsG(e, 0, true)
	tableNames := map[string]bool{}
	for _, d := range decls {
		tableNames[d.named.Obj().Name()] = true
	}
	root := e.L.Root.Types
	for _, d := range decls {
		rt := refTable{decl: d, sqlName: snakePlural(d.named.Obj().Name()), primary: -1}
		st := d.named.Underlying().(*types.Struct)
		// tags by field
		tagOf := map[*types.Var]string{}
		var collect func(st *types.Struct)
		collect = func(st *types.Struct) {
			for i := 0; i < st.NumFields(); i++ {
				tagOf[st.Field(i)] = st.Tag(i)
				if st.Field(i).Embedded() {
					if n, ok := types.Unalias(st.Field(i).Type()).(*types.Named); ok {
						if in, ok := n.Underlying().(*types.Struct); ok {
							collect(in)
						}
					}
				}
			}
		}
		collect(st)
		for _, f := range flatFields(st, enums, unions) {
			tag := reflect.StructTag(tagOf[f])
			if !f.Exported() && tag.Get("gomacro-sql-guard") == "" {
				continue
			}
			c, ok := refSQLType(f.Type(), enums, unions)
			if !ok {
				ref.unsupported = "column type " + f.Type().String()
			}
			c.field, c.tag = f, tag
			if rt.primary < 0 && strings.ToLower(f.Name()) == "id" {
				rt.primary = len(rt.cols)
			}
			rt.cols = append(rt.cols, c)
		}
		ref.tables = append(ref.tables, rt)
		// directives
		byName := map[string]types.Type{}
		for _, c := range rt.cols {
			byName[c.field.Name()] = c.field.Type()
		}
		for _, line := range d.doc {
			m := reDirective.FindStringSubmatch(line)
			if m == nil {
				continue
			}
			switch m[1] {
			case "SQL":
				if reSelectKeyD.MatchString(m[2]) {
					continue
				}
				// table names are renamed in the text of the directive, then the placeholders are
				// replaced by literals (which are values, not words of the directive: never renamed)
				content, err := expandEnumPlaceholders(root, expandTableNames(m[2], tableNames))
				if err != nil {
					ref.unsupported = err.Error()
				}
				if strings.HasPrefix(m[2], "ADD") {
					content = "ALTER TABLE " + rt.sqlName + " " + content
				}
				ref.customStmts = append(ref.customStmts, sqlddl.StripComments(content))
			case "QUERY":
				name, q, _ := strings.Cut(m[2], " ")
				rq := refQuery{funcName: name}
				seen := map[string]int{}
				for _, pm := range rePlaceholder.FindAllStringSubmatch(q, -1) {
					if _, ok := seen[pm[1]]; ok {
						continue
					}
					seen[pm[1]] = len(seen) + 1
					rq.args = append(rq.args, pm[1])
					cm := regexp.MustCompile(`(\w+)\s*=\s*\$` + pm[1] + `\$`).FindStringSubmatch(q)
					if cm == nil || byName[cm[1]] == nil {
						ref.unsupported = "placeholder " + pm[1] + " not compared with a column"
						rq.argTypes = append(rq.argTypes, "?")
						continue
					}
					rq.argTypes = append(rq.argTypes, types.TypeString(byName[cm[1]], relTo(root)))
				}
				q = rePlaceholder.ReplaceAllStringFunc(q, func(s string) string {
					return fmt.Sprintf("$%d", seen[s[1:len(s)-1]])
				})
				q, err := expandEnumPlaceholders(root, expandTableNames(q, tableNames))
				if err != nil {
					ref.unsupported = err.Error()
				}
				rq.query = sqlddl.StripComments(q)
				ref.queries = append(ref.queries, rq)
			}
		}
	}
	return ref
}

// fkTarget: the table a field references, per the ID-type convention or the tag.
func fkTarget(c refColumn, own string, enums map[*types.Named]*refEnum) string {
	t := types.Unalias(c.field.Type())
	if n, ok := t.(*types.Named); ok && enums[n] == nil {
		if b, ok := n.Underlying().(*types.Basic); ok && b.Kind() == types.Int64 {
			name := n.Obj().Name()
			low := strings.ToLower(name)
			target := ""
			if len(name) > 2 && strings.HasPrefix(low, "id") {
				target = name[2:]
			} else if len(name) > 2 && strings.HasSuffix(low, "id") {
				target = name[:len(name)-2]
			}
			if target != "" && target != own {
				return target
			}
		}
	}
	return c.tag.Get("gomacro-sql-foreign")
}

func sortedCopy(l []string) []string {
	c := append([]string{}, l...)
	sort.Strings(c)
	return c
}

func evalC08(e *Eval) {
	enums, unions := refEnums(e.L), refUnions(e.L)
	an, pi := e.L.Analyse(0)
	if pi != nil {
		e.Res.Outcome = "analysis " + pi.String()
		return // C18's business
	}
	out, pi := e.L.RunTarget(prog.TSQL, []*analysis.Analysis{an})
	if pi != nil {
		if pi.Runtime {
			e.Res.Outcome = "sql crashed"
			e.Count("sql-runtime-error(C18)")
		} else {
			e.Res.Outcome = "refused: " + trunc(pi.Msg, 40)
		}
		return
	}
	text := out[""]
	ref := buildSQLRef(e, enums, unions)
	sc, err := sqlddl.Parse(text)
	if err != nil {
		e.Fail("schema-parses", "unparsable schema", "the SQL output cannot be read: "+err.Error())
		return
	}
	e.Res.Nontrivial = true
	checkC08(e, ref, sc, enums)
	e.Res.Outcome = fmt.Sprintf("tables=%d stmts=%d funcs=%d", len(sc.Tables), len(sc.Statements), len(sc.Functions))
	if e.Cost == 1 {
		e.Res.Sample = map[string]any{"features": e.Prog.Features, "a.go": e.Prog.Root().Files[0].Src, "sql(head)": trunc(text, 600)}
	}
}

func checkC08(e *Eval, ref *sqlRef, sc *sqlddl.Schema, enums map[*types.Named]*refEnum) {
	if len(sc.Tables) != len(ref.tables) {
		e.Fail("one-table-per-struct", "table count", fmt.Sprintf("%d tables for %d structs", len(sc.Tables), len(ref.tables)))
	}
	root := e.L.Root.Types
	wantTypes := map[string]*types.Named{}
	type fkKey struct{ table, col string }
	wantFK := map[fkKey][2]string{}
	wantDefault := map[fkKey]string{}
	wantJSON := map[fkKey]bool{}
	for _, rt := range ref.tables {
		gn := rt.decl.named.Obj().Name()
		t := sc.Table(rt.sqlName)
		if t == nil {
			e.Fail("table-name", "missing table", fmt.Sprintf("struct %s: no table named %s (snake-case-plural)", gn, rt.sqlName))
			continue
		}
		var gotNames, wantNames []string
		for _, c := range t.Columns {
			gotNames = append(gotNames, c.Name)
		}
		for _, c := range rt.cols {
			wantNames = append(wantNames, c.field.Name())
		}
		if strings.Join(gotNames, ",") != strings.Join(wantNames, ",") {
			e.FailX("columns", "column list", fmt.Sprintf("table %s: columns [%s], exported and guard fields in order are [%s]", rt.sqlName, strings.Join(gotNames, ","), strings.Join(wantNames, ",")), strings.Join(wantNames, ","), strings.Join(gotNames, ","))
			continue
		}
		for i, rc := range rt.cols {
			col := t.Columns[i]
			cn := rt.sqlName + "." + col.Name
			k := fkKey{rt.sqlName, col.Name}
			if target := fkTarget(rc, gn, enums); target != "" {
				wantFK[k] = [2]string{snakePlural(target), rc.tag.Get("gomacro-sql-on-delete")}
			}
			if g := rc.tag.Get("gomacro-sql-guard"); g != "" {
				v, _ := expandEnumPlaceholders(root, g)
				wantDefault[k] = sqlddl.StripComments(v)
			}
			if i == rt.primary {
				if !col.Serial {
					e.Fail("primary-key", "id not serial", fmt.Sprintf("%s: the id field is declared %q, want serial PRIMARY KEY", cn, col.Type))
				}
				continue
			}
			if col.Serial {
				e.Fail("primary-key", "serial on non id", cn+": serial PRIMARY KEY on a field that is not the id")
				continue
			}
			if rc.kind == "json" {
				wantJSON[k] = true
			}
			if rc.kind == "composite" && rc.compOf.Obj().Pkg() == rt.decl.named.Obj().Pkg() {
				wantTypes[rc.compName] = rc.compOf
			}
			if col.Type != rc.sqlType {
				e.FailX("column-type", fmt.Sprintf("%s want %s", col.Type, rc.sqlType), fmt.Sprintf("%s (Go type %s): SQL type %q, mapping says %q", cn, rc.field.Type(), col.Type, rc.sqlType), rc.sqlType, col.Type)
			}
			if col.NotNull != rc.notNull {
				e.FailX("nullability", fmt.Sprintf("%s notnull=%v", rc.kind, col.NotNull), fmt.Sprintf("%s (Go type %s, SQL %s): NOT NULL=%v, want %v", cn, rc.field.Type(), rc.sqlType, col.NotNull, rc.notNull), fmt.Sprint(rc.notNull), fmt.Sprint(col.NotNull))
			}
			// inline checks
			var enumCheck, arrCheck []string
			for _, ck := range col.Checks {
				if m := reInlineEnum.FindStringSubmatch(ck); m != nil {
					if m[1] != col.Name {
						e.Fail("enum-check", "check on other column", cn+": CHECK names column "+m[1])
					}
					for _, v := range strings.Split(m[2], ",") {
						enumCheck = append(enumCheck, strings.TrimSpace(v))
					}
				} else if m := reInlineArray.FindStringSubmatch(ck); m != nil {
					if m[1] != col.Name {
						e.Fail("array-length-check", "check on other column", cn+": CHECK names column "+m[1])
					}
					arrCheck = append(arrCheck, m[2])
				} else {
					e.Fail("column-checks", "unknown inline check", cn+": unexpected CHECK ("+ck+")")
				}
			}
			if rc.kind == "enum" {
				if strings.Join(sortedCopy(enumCheck), "|") != strings.Join(sortedCopy(rc.enumVals), "|") {
					e.FailX("enum-check", "enum values", fmt.Sprintf("%s: CHECK lists [%s], the enum's constant values are [%s]", cn, strings.Join(enumCheck, ", "), strings.Join(rc.enumVals, ", ")), strings.Join(rc.enumVals, ", "), strings.Join(enumCheck, ", "))
				}
			} else if len(enumCheck) > 0 {
				e.Fail("enum-check", "enum check on non enum", cn+": IN check on a column that is not an enum")
			}
			if rc.arrayLen >= 0 {
				if len(arrCheck) != 1 || arrCheck[0] != fmt.Sprint(rc.arrayLen) {
					e.FailX("array-length-check", "array length", fmt.Sprintf("%s: fixed array of length %d has length checks %v", cn, rc.arrayLen, arrCheck), fmt.Sprint(rc.arrayLen), fmt.Sprint(arrCheck))
				}
			} else if len(arrCheck) > 0 {
				e.Fail("array-length-check", "length check on non array", cn+": array_length check on a column that is not a fixed array")
			}
		}
	}
	// composite type declarations
	gotTypes := map[string]bool{}
	for _, ct := range sc.Types {
		gotTypes[ct.Name] = true
		n := wantTypes[ct.Name]
		if n == nil {
			e.Fail("composite-types", "unexpected CREATE TYPE", "CREATE TYPE "+ct.Name+" for a type that is not a local composite column type")
			continue
		}
		st := n.Underlying().(*types.Struct)
		// attribute names: the property does not say whether the Go field name or the JSON name is
		// used; both are accepted, the attribute types and their order are checked
		var want, wantJSON []string
		for i := 0; i < st.NumFields(); i++ {
			c, _ := refSQLType(st.Field(i).Type(), enums, nil)
			want = append(want, st.Field(i).Name()+" "+c.sqlType)
			jn, _, _ := strings.Cut(reflect.StructTag(st.Tag(i)).Get("json"), ",")
			if jn == "" {
				jn = st.Field(i).Name()
			}
			wantJSON = append(wantJSON, jn+" "+c.sqlType)
		}
		var got []string
		for _, f := range ct.Fields {
			got = append(got, f[0]+" "+f[1])
		}
		if strings.Join(got, ", ") != strings.Join(want, ", ") && strings.Join(got, ", ") != strings.Join(wantJSON, ", ") {
			e.FailX("composite-types", "composite fields", fmt.Sprintf("CREATE TYPE %s AS (%s), want (%s)", ct.Name, strings.Join(got, ", "), strings.Join(want, ", ")), strings.Join(want, ", "), strings.Join(got, ", "))
		}
	}
	for name := range wantTypes {
		if !gotTypes[name] {
			e.Fail("composite-types", "missing CREATE TYPE", "no CREATE TYPE for the local composite "+name)
		}
	}
	// generated statements
	gotFK := map[fkKey]int{}
	gotDefault := map[fkKey]string{}
	gotGuardCheck := map[string]bool{}
	gotJSON := map[fkKey]int{}
	var custom []string
	for _, st := range sc.Statements {
		plain := sqlddl.StripComments(st)
		if m := reGenFK.FindStringSubmatch(plain); m != nil {
			k := fkKey{m[1], m[2]}
			gotFK[k]++
			w, ok := wantFK[k]
			if !ok {
				e.Fail("foreign-keys", "FK on a non foreign-key field", "unexpected "+plain)
			} else if m[3] != w[0] || strings.TrimSpace(m[4]) != w[1] {
				e.FailX("foreign-keys", "FK target or action", fmt.Sprintf("%s: want REFERENCES %s ON DELETE %q", plain, w[0], w[1]), w[0]+" "+w[1], m[3]+" "+m[4])
			}
			continue
		}
		if m := reGenDefault.FindStringSubmatch(plain); m != nil {
			gotDefault[fkKey{m[1], m[2]}] = strings.TrimSpace(m[3])
			continue
		}
		if m := reGenJSON.FindStringSubmatch(plain); m != nil {
			k := fkKey{m[1], m[2]}
			gotJSON[k]++
			if m[4] != m[2] {
				e.Fail("json-check", "json check on other column", plain+": constraint of column "+m[2]+" validates "+m[4])
			}
			if _, ok := sc.Functions[m[3]]; !ok {
				e.Fail("json-check", "validator not defined", plain+": function "+m[3]+" is not defined in the script")
			}
			if !wantJSON[k] {
				e.Fail("json-check", "json check on non json column", "unexpected "+plain)
			}
			continue
		}
		isGuardCheck := false
		for k, v := range wantDefault {
			if plain == fmt.Sprintf("ALTER TABLE %s ADD CHECK(%s = %s)", k.table, k.col, v) {
				gotGuardCheck[k.table+"."+k.col] = true
				isGuardCheck = true
			}
		}
		if !isGuardCheck {
			custom = append(custom, plain)
		}
	}
	for k, w := range wantFK {
		if gotFK[k] != 1 {
			e.Fail("foreign-keys", fmt.Sprintf("%d FK constraints", gotFK[k]), fmt.Sprintf("foreign-key field %s.%s (-> %s) has %d FOREIGN KEY constraints, want exactly 1", k.table, k.col, w[0], gotFK[k]))
		}
	}
	for k, v := range wantDefault {
		if gotDefault[k] != v {
			e.FailX("guards", "guard default", fmt.Sprintf("guard %s.%s: DEFAULT %q, want %q", k.table, k.col, gotDefault[k], v), v, gotDefault[k])
		}
		if !gotGuardCheck[k.table+"."+k.col] {
			e.Fail("guards", "guard check missing", fmt.Sprintf("guard %s.%s: no CHECK(%s = %s)", k.table, k.col, k.col, v))
		}
	}
	for k := range gotDefault {
		if _, ok := wantDefault[k]; !ok {
			e.Fail("guards", "default on non guard", fmt.Sprintf("DEFAULT set on %s.%s which is not a guard", k.table, k.col))
		}
	}
	for k := range wantJSON {
		if gotJSON[k] != 1 {
			e.Fail("json-check", fmt.Sprintf("%d json checks", gotJSON[k]), fmt.Sprintf("jsonb column %s.%s has %d validator CHECK constraints, want 1", k.table, k.col, gotJSON[k]))
		}
	}
	// the remaining statements are C16's business (custom constraints); keep them for it
	e.customStatements = custom
}

func init() {
	registerProg(&ProgCheck{
		ID: "C08", Family: "F-tables", Synth: fam.Tables,
		Bound:    map[string]int{"quick": 2, "thorough": 3},
		Deadline: map[string]time.Duration{"quick": 5 * time.Minute, "thorough": 45 * time.Minute},
		Rule:     "programs of F-tables (and F-types, whose structs are tables too) within the deviation bound; the SQL output is parsed (sqlddl) and compared with a restatement of the mapping computed on go/types; non-trivial = sql.Generate accepted the program",
		Assumptions: []string{
			"the reference mapping is my reading of the documented Go->SQL mapping (DESIGN §4 C08)",
			"snake-case-plural: an underscore before an upper-case letter that follows a lower-case letter or digit, or that starts a lower-case run after an acronym; lower-cased; 's' appended",
		},
		Eval: evalC08,
		More: []*ProgCheck{
			{Family: "F-types", Synth: func(c explore.Chooser) *prog.Program { return fam.TypesWith(c, fam.TypesOpt{NoUnsupported: true}) }, Bound: map[string]int{"quick": 1, "thorough": 2}},
		},
	})
}
