package checks

import (
	"fmt"
	"go/ast"
	"go/constant"
	"go/token"
	"go/types"
	"sort"
	"strings"
	"time"

	"github.com/benoitkugler/gomacro/analysis"
	"golang.org/x/tools/go/packages"
	"verif.test/mc/explore"
	"verif.test/mc/fam"
	"verif.test/mc/prog"
)

// C10: enum detection is exact. Reference: an independent walk over go/types
// constants and the syntax tree (trailing comments), never through gomacro.

type refMember struct {
	obj     *types.Const
	comment string
}

type refEnum struct {
	members   []refMember
	plainIota bool // declared as one plain `X T = iota` block of exported constants, no opt-out
}

// userPackages returns the packages reachable from root that share its 2-segment prefix.
func userPackages(l *prog.Loaded) []*packages.Package {
	chunks := strings.Split(l.Root.PkgPath, "/")
	prefix := l.Root.PkgPath
	if len(chunks) >= 2 {
		prefix = strings.Join(chunks[:2], "/")
	}
	seen := map[string]bool{}
	var out []*packages.Package
	var walk func(p *packages.Package)
	walk = func(p *packages.Package) {
		if seen[p.PkgPath] {
			return
		}
		seen[p.PkgPath] = true
		out = append(out, p)
		var keys []string
		for k := range p.Imports {
			keys = append(keys, k)
		}
		sort.Strings(keys)
		for _, k := range keys {
			if strings.HasPrefix(k, prefix) {
				walk(p.Imports[k])
			}
		}
	}
	walk(l.Root)
	return out
}

func refEnums(l *prog.Loaded) map[*types.Named]*refEnum {
	out := map[*types.Named]*refEnum{}
	for _, p := range userPackages(l) {
		// index const specs by name position
		type specInfo struct {
			spec  *ast.ValueSpec
			decl  *ast.GenDecl
			index int // spec index in decl
		}
		byPos := map[token.Pos]specInfo{}
		for _, f := range p.Syntax {
			for _, d := range f.Decls {
				gd, ok := d.(*ast.GenDecl)
				if !ok || gd.Tok != token.CONST {
					continue
				}
				for si, sp := range gd.Specs {
					vs := sp.(*ast.ValueSpec)
					for _, n := range vs.Names {
						byPos[n.Pos()] = specInfo{vs, gd, si}
					}
				}
			}
		}
		declsOf := map[*types.Named]map[*ast.GenDecl]bool{}
		optedOut := map[*types.Named]bool{}
		scope := p.Types.Scope()
		for _, name := range scope.Names() {
			c, ok := scope.Lookup(name).(*types.Const)
			if !ok {
				continue
			}
			named, ok := c.Type().(*types.Named)
			if !ok {
				continue
			}
			if named.Obj().Pkg() != p.Types {
				continue // the statement counts the constants declared in the type's own package
			}
			si, ok := byPos[c.Pos()]
			if !ok {
				panic("reference: const spec not found for " + name)
			}
			comment := ""
			if si.spec.Comment != nil {
				comment = strings.TrimSpace(si.spec.Comment.Text())
			}
			if declsOf[named] == nil {
				declsOf[named] = map[*ast.GenDecl]bool{}
			}
			declsOf[named][si.decl] = true
			if strings.Contains(comment, "gomacro:no-enum") {
				optedOut[named] = true
				continue
			}
			if out[named] == nil {
				out[named] = &refEnum{}
			}
			out[named].members = append(out[named].members, refMember{c, comment})
		}
		// plain iota blocks
		for named, re := range out {
			if named.Obj().Pkg() != p.Types || optedOut[named] || len(declsOf[named]) != 1 {
				continue
			}
			b, ok := named.Underlying().(*types.Basic)
			if !ok || b.Info()&types.IsInteger == 0 {
				continue
			}
			for gd := range declsOf[named] {
				re.plainIota = isPlainIotaBlock(gd, named.Obj().Name(), len(re.members))
			}
		}
	}
	return out
}

func isPlainIotaBlock(gd *ast.GenDecl, tname string, nmembers int) bool {
	if !gd.Lparen.IsValid() || len(gd.Specs) != nmembers {
		return false
	}
	for i, sp := range gd.Specs {
		vs := sp.(*ast.ValueSpec)
		if len(vs.Names) != 1 || !ast.IsExported(vs.Names[0].Name) {
			return false
		}
		if i == 0 {
			id, ok := vs.Type.(*ast.Ident)
			if !ok || id.Name != tname || len(vs.Values) != 1 {
				return false
			}
			v, ok := vs.Values[0].(*ast.Ident)
			if !ok || v.Name != "iota" {
				return false
			}
		} else if vs.Type != nil || len(vs.Values) != 0 {
			return false
		}
	}
	return true
}

func evalC10(e *Eval) {
	ref := refEnums(e.L)
	an, pi := e.L.Analyse(0)
	nConst := 0
	for _, re := range ref {
		nConst += len(re.members)
	}
	e.Res.Nontrivial = nConst > 0
	if pi != nil {
		if pi.Runtime {
			e.Res.Outcome = "analysis-crash"
			e.Fail("analysis-completes", pi.Where+": "+trunc(pi.Msg, 60), "analysis died with a runtime error: "+pi.String())
		} else {
			e.Res.Outcome = "refused"
		}
		return
	}
	nEnum, nIota, nPlain := 0, 0, 0
	for ty, node := range an.Types {
		named, ok := ty.(*types.Named)
		if !ok {
			continue
		}
		basic, ok := named.Underlying().(*types.Basic)
		if !ok {
			continue
		}
		re := ref[named]
		en, isEnum := node.(*analysis.Enum)
		tn := named.Obj().Pkg().Name() + "." + named.Obj().Name()
		if (re != nil) != isEnum {
			e.FailX("enum-iff-typed-constant", fmt.Sprintf("want enum=%v", re != nil),
				fmt.Sprintf("%s: enum=%v but reference says enum=%v (%d typed constants without opt-out)", tn, isEnum, re != nil, refLen(re)),
				fmt.Sprint(re != nil), fmt.Sprint(isEnum))
			continue
		}
		if !isEnum {
			continue
		}
		nEnum++
		// members: exactly the reference constants, each once
		got := map[*types.Const]int{}
		for _, m := range en.Members {
			got[m.Const]++
		}
		want := map[*types.Const]string{}
		for _, m := range re.members {
			want[m.obj] = m.comment
		}
		for c, n := range got {
			if _, ok := want[c]; !ok {
				e.Fail("members-exact", "extra member", fmt.Sprintf("%s: member %s is not a typed constant of the type without opt-out", tn, c.Name()))
			} else if n != 1 {
				e.Fail("members-exact", "duplicate member", fmt.Sprintf("%s: member %s listed %d times", tn, c.Name(), n))
			}
		}
		for c := range want {
			if got[c] == 0 {
				e.Fail("members-exact", "missing member", fmt.Sprintf("%s: constant %s (=%s) is missing from the members", tn, c.Name(), c.Val().ExactString()))
			}
		}
		for _, m := range en.Members {
			if wc, ok := want[m.Const]; ok && wc != m.Comment {
				e.FailX("member-comment", "comment", fmt.Sprintf("%s.%s: comment %q, trailing comment in source is %q", tn, m.Const.Name(), m.Comment, wc), wc, m.Comment)
			}
		}
		// kind
		var kind analysis.BasicKind
		if pk := prog.Guard(func() { kind = en.Kind() }); pk != nil {
			if pk.Runtime {
				e.Fail("kind", "Kind() crashed", tn+": "+pk.String())
			}
		} else {
			wantKind := map[bool]analysis.BasicKind{}
			_ = wantKind
			info := basic.Info()
			var wk analysis.BasicKind
			switch {
			case info&types.IsBoolean != 0:
				wk = analysis.BKBool
			case info&types.IsInteger != 0:
				wk = analysis.BKInt
			case info&types.IsFloat != 0:
				wk = analysis.BKFloat
			case info&types.IsString != 0:
				wk = analysis.BKString
			}
			if wk != kind {
				e.Fail("kind", "kind", fmt.Sprintf("%s: Kind()=%d want %d", tn, kind, wk))
			}
		}
		// iota flag
		if en.IsIota {
			nIota++
			if basic.Info()&types.IsInteger == 0 {
				e.Fail("isiota-only-when", "not integer", tn+": flagged iota-like but not integer backed")
			}
			var vals []string
			okSeq := true
			k := int64(0)
			for _, m := range en.Members {
				if !m.Const.Exported() {
					continue
				}
				var v int64
				exact := false
				if cv := m.Const.Val(); cv.Kind() == constant.Int { // Int64Val panics on the other kinds
					v, exact = constant.Int64Val(cv)
				}
				vals = append(vals, m.Const.Name()+"="+m.Const.Val().ExactString())
				if !exact || v != k {
					okSeq = false
				}
				k++
			}
			if !okSeq {
				e.FailX("isiota-only-when", "exported values not 0,1,2,...", fmt.Sprintf("%s: flagged iota-like but exported members in reported order are [%s]", tn, strings.Join(vals, " ")), "IsIota=false", "IsIota=true")
			}
		}
		if re.plainIota {
			nPlain++
			if !en.IsIota {
				e.FailX("isiota-plain-block", "plain iota block not flagged", tn+": a plain `= iota` block of exported constants is not flagged iota-like", "IsIota=true", "IsIota=false")
			}
		}
	}
	e.Res.Outcome = fmt.Sprintf("enums=%d iota=%d plain=%d", nEnum, nIota, nPlain)
	if e.Cost <= 1 {
		e.Res.Sample = map[string]any{"features": e.Prog.Features, "a.go": e.Prog.Root().Files[0].Src, "outcome": e.Res.Outcome}
	}
}

func refLen(re *refEnum) int {
	if re == nil {
		return 0
	}
	return len(re.members)
}

func trunc(s string, n int) string {
	if len(s) > n {
		return s[:n]
	}
	return s
}

func init() {
	registerProg(&ProgCheck{
		ID: "C10", Family: "F-enum", Synth: fam.Enum,
		Bound:    map[string]int{"quick": 4, "thorough": 5},
		Deadline: map[string]time.Duration{"quick": 4 * time.Minute, "thorough": 40 * time.Minute},
		Rule:     "programs of family F-enum (DESIGN §3.3) within the deviation bound of the default scaffold; distinct = distinct source text; non-trivial = declares at least one typed constant without opt-out",
		Assumptions: []string{
			"reference membership is computed from go/types constants and ast.ValueSpec trailing comments of the same in-memory packages",
			"in-memory *packages.Package is equivalent to packages.Load for the fields gomacro reads (loader conformance pass: check C17/loader)",
		},
		Eval: evalC10,
		More: []*ProgCheck{{
			// what users get goes through analysis.LoadSources: the enums found from packages loaded by the
			// real loader must be the ones found from the in-memory packages the oracle above has examined
			Family: "F-realloader/F-enum", Synth: realLoaderEnumSynth,
			Bound: map[string]int{"quick": 2, "thorough": 2}, Eval: evalC10RealLoader,
		}},
	})
}

// realLoaderEnumSynth keeps the deviations that decide where the constants live and what their
// trailing comments say (the loader decides which files are parsed, and how); any other deviation
// collapses onto the scaffold.
func realLoaderEnumSynth(c explore.Chooser) *prog.Program {
	p := fam.Enum(c)
	for _, f := range p.Features {
		if !strings.HasPrefix(f, "T1.loc") && !strings.Contains(f, ".comment=") {
			p = fam.Enum(&explore.Fixed{})
			break
		}
	}
	p.Family = "F-realloader/" + p.Family
	return p
}

// enumView describes the enums of an analysis by name: kind flags, members in order with value and comment.
func enumView(an *analysis.Analysis) map[string]string {
	out := map[string]string{}
	for t, n := range an.Types {
		en, ok := n.(*analysis.Enum)
		if !ok {
			continue
		}
		var b strings.Builder
		fmt.Fprintf(&b, "iota=%v", en.IsIota)
		for _, m := range en.Members {
			fmt.Fprintf(&b, " | %s=%s //%s", m.Const.Name(), m.Const.Val().ExactString(), m.Comment)
		}
		out[t.String()] = b.String()
	}
	return out
}

func evalC10RealLoader(e *Eval) {
	disk, _, err := loadFromDisk(e)
	if err != nil {
		e.Res.Internal = err.Error()
		return
	}
	am, pm := e.L.Analyse(0)
	ad, pd := disk.Analyse(0)
	if (pm == nil) != (pd == nil) {
		e.Fail("loader-independent", "analysis outcome differs", fmt.Sprintf("analysis of the in-memory packages: %v; of the packages loaded by LoadSources: %v", pm, pd))
		return
	}
	if pm != nil {
		e.Res.Outcome = "refused by both"
		return
	}
	e.Res.Nontrivial = true
	e.Res.Traces = 1
	vm, vd := enumView(am), enumView(ad)
	var names []string
	for k := range vm {
		names = append(names, k)
	}
	for k := range vd {
		if _, ok := vm[k]; !ok {
			names = append(names, k)
		}
	}
	sort.Strings(names)
	for _, k := range names {
		if vm[k] != vd[k] {
			e.FailX("loader-independent", "enum differs through LoadSources", fmt.Sprintf("%s: from the packages loaded by analysis.LoadSources: [%s]; from the in-memory packages (checked against go/types above): [%s]", k, vd[k], vm[k]), vm[k], vd[k])
		}
	}
	e.Res.Outcome = fmt.Sprintf("enums=%d identical", len(names))
}
