package checks

import (
	"fmt"
	"os"
	"os/exec"
	"path/filepath"
	"regexp"
	"strings"

	"github.com/benoitkugler/gomacro/analysis"
	"golang.org/x/tools/imports"
	"verif.test/mc/evid"
	"verif.test/mc/explore"
	"verif.test/mc/fam"
	"verif.test/mc/prog"
)

// c01DiskPass is the compiled tier of C01 (DESIGN §4 C01): every program within 1 deviation of
// F-types and F-tables is written to a scratch module, each accepted generator output goes through
// the REAL import-fixing pass (golang.org/x/tools/imports.Process, the library goimports is, run
// on the file inside its module) and the whole module is built with the real compiler. It also
// validates the in-memory goimports model of the quick tier: both must agree on every program.
func c01DiskPass(r *evid.Report, tier string) {
	tmp, err := os.MkdirTemp("", "gomacro-c01disk-")
	if err != nil {
		r.Internal(err.Error())
		return
	}
	defer os.RemoveAll(tmp)
	mcDir := filepath.Join(evid.VerifDir, "mc")
	os.WriteFile(filepath.Join(tmp, "go.mod"), []byte(fmt.Sprintf(batchGoMod, mcDir, filepath.Join(mcDir, "stubs", "pq"), evid.RepoDir)), 0o644)
	if sum, err := os.ReadFile(filepath.Join(mcDir, "go.sum")); err == nil {
		os.WriteFile(filepath.Join(tmp, "go.sum"), sum, 0o644)
	}
	// keep the pq requirement alive for the go command
	os.WriteFile(filepath.Join(tmp, "tools.go"), []byte("package proj\n\nimport _ \"github.com/lib/pq\"\n"), 0o644)
	type item struct {
		id       string
		family   string
		vec      []int
		features []string
		files    map[string]string
		memOK    map[string]bool
	}
	items := map[string]*item{}
	n := 0
	fams := []*ProgCheck{
		{Family: "F-types", Synth: fam.Types},
		{Family: "F-tables", Synth: fam.Tables},
	}
	bound := 1
	for _, fc := range fams {
		seen := map[string]bool{}
		st := explore.Stats{}
		explore.Enumerate(bound, func(c explore.Chooser) {
			p0 := fc.Synth(c)
			if seen[p0.Hash()] {
				return
			}
			seen[p0.Hash()] = true
			vec := c.(*explore.Run).Vec()
			id := fmt.Sprintf("d%05d", n)
			n++
			prog.Infix = "/" + id
			defer func() { prog.Infix = "" }()
			p := fc.Synth(&explore.Fixed{Vec: vec})
			if p.Gofmt() != nil {
				return
			}
			l, err := prog.Load(p)
			if err != nil {
				return
			}
			an, pi := l.Analyse(0)
			if pi != nil {
				return
			}
			it := &item{id: id, family: fc.Family, vec: vec, features: p.Features, files: p.FilesMap(), memOK: map[string]bool{}}
			root := p.Root()
			for _, pk := range p.Pkgs {
				dir := filepath.Join(tmp, strings.TrimPrefix(pk.Path, prog.Module))
				os.MkdirAll(dir, 0o755)
				for _, f := range pk.Files {
					os.WriteFile(filepath.Join(dir, f.Name), []byte(f.Src), 0o644)
				}
			}
			rootDir := filepath.Join(tmp, strings.TrimPrefix(root.Path, prog.Module))
			wrote := false
			for _, t := range []string{prog.TGounions, prog.TRanddata, prog.TSqlcrudS} {
				out, pi := l.RunTarget(t, []*analysis.Analysis{an})
				if pi != nil {
					continue
				}
				name := "gen_" + strings.ReplaceAll(t, "+", "_") + "_verif.go"
				_, errs := compileWithSource(l, name, out[""])
				it.memOK[name] = len(errs) == 0
				abs := filepath.Join(rootDir, name)
				fixed, err := imports.Process(abs, []byte(out[""]), nil)
				if err != nil {
					r.Fail(evid.Failure{Clause: "C01/compiles", Sig: t + " (on disk): goimports rejects the output", Detail: "the real import-fixing pass fails: " + err.Error(), Family: fc.Family, Vector: vec, Cost: explore.Cost(vec), Features: p.Features, Files: it.files})
					continue
				}
				os.WriteFile(abs, fixed, 0o644)
				wrote = true
			}
			if wrote {
				items[id] = it
			}
		}, func(*explore.Run) {}, &st)
	}
	cmd := exec.Command("go", "build", "./...")
	cmd.Dir = tmp
	cmd.Env = goEnv()
	out, _ := cmd.CombinedOutput()
	reErr := regexp.MustCompile(`(?m)^(d\d{5})/\S*?(gen_\w+_verif\.go):\d+:\d+: (.*)$`)
	failed := map[string]map[string]string{}
	for _, m := range reErr.FindAllStringSubmatch(string(out), -1) {
		if failed[m[1]] == nil {
			failed[m[1]] = map[string]string{}
		}
		if _, dup := failed[m[1]][m[2]]; !dup {
			failed[m[1]][m[2]] = m[3]
		}
	}
	agree, nfiles, isolated, unresolved := 0, 0, 0, 0
	localPkgNames := map[string]bool{"subpkg": true, "db": true, "x": true, "ext": true, "models": true, "pk": true, "m": true}
	for id, it := range items {
		for name, memOK := range it.memOK {
			nfiles++
			msg, diskFailed := failed[id][name]
			if diskFailed && !memOK {
				r.Fail(evid.Failure{Clause: "C01/compiles", Sig: name + " (on disk): " + errClass(msg), Detail: fmt.Sprintf("after the real goimports pass, go build rejects %s: %s", name, msg), Family: it.family, Vector: it.vec, Cost: explore.Cost(it.vec), Features: it.features, Files: it.files})
			}
			if diskFailed && memOK && strings.HasPrefix(msg, "undefined: ") && localPkgNames[strings.TrimPrefix(msg, "undefined: ")] {
				// the real goimports did not add the import of a package of the module although the
				// module contains it (observed when the sibling files do not already use every
				// referenced symbol of that package): its candidate search did not conclude in this
				// sandbox. Counted, neither believed nor hidden.
				unresolved++
				continue
			}
			if diskFailed == memOK {
				// the shared scratch module holds hundreds of packages with the same name, which can
				// mislead goimports' candidate search: decide this program alone in its own module
				if ok, msg2 := c01Isolated(it.family, it.vec); ok == memOK {
					agree++
					isolated++
				} else {
					r.Internal(fmt.Sprintf("goimports model disagrees with the real pass on %s %s (features %v): in memory ok=%v, alone in a module ok=%v %s", id, name, it.features, memOK, ok, msg2))
				}
			} else {
				agree++
			}
		}
	}
	if len(items) > 0 && len(failed) == 0 && strings.Contains(string(out), "go: ") {
		r.Internal("go build of the on-disk module did not run: " + trunc(string(out), 400))
	}
	r.TracesImpl += nfiles
	r.Extra["on_disk_programs"] = len(items)
	r.Extra["on_disk_generated_files_built_with_real_goimports_and_compiler"] = nfiles
	r.Extra["goimports_model_agreements"] = agree
	r.Extra["decided_alone_in_their_own_module"] = isolated
	r.Extra["real_goimports_left_a_module_package_unimported(inconclusive)"] = unresolved
}

func init() {
	base := registry["C01"]
	registry["C01"] = func(tier string) *evid.Report {
		r := base(tier)
		c01DiskPass(r, tier)
		return r
	}
}

// c01Isolated writes one program alone into a scratch module, runs the real goimports on its
// generated files and builds it. It returns whether everything compiled.
func c01Isolated(family string, vec []int) (bool, string) {
	tmp, err := os.MkdirTemp("", "gomacro-c01iso-")
	if err != nil {
		return false, err.Error()
	}
	defer os.RemoveAll(tmp)
	mcDir := filepath.Join(evid.VerifDir, "mc")
	os.WriteFile(filepath.Join(tmp, "go.mod"), []byte(fmt.Sprintf(batchGoMod, mcDir, filepath.Join(mcDir, "stubs", "pq"), evid.RepoDir)), 0o644)
	if sum, err := os.ReadFile(filepath.Join(mcDir, "go.sum")); err == nil {
		os.WriteFile(filepath.Join(tmp, "go.sum"), sum, 0o644)
	}
	os.WriteFile(filepath.Join(tmp, "tools.go"), []byte("package proj\n\nimport _ \"github.com/lib/pq\"\n"), 0o644)
	synth := fam.Types
	if family == "F-tables" {
		synth = fam.Tables
	}
	p := synth(&explore.Fixed{Vec: vec})
	if err := p.Gofmt(); err != nil {
		return false, err.Error()
	}
	l, err := prog.Load(p)
	if err != nil {
		return false, err.Error()
	}
	an, pi := l.Analyse(0)
	if pi != nil {
		return false, pi.String()
	}
	for _, pk := range p.Pkgs {
		dir := filepath.Join(tmp, strings.TrimPrefix(pk.Path, prog.Module))
		os.MkdirAll(dir, 0o755)
		for _, f := range pk.Files {
			os.WriteFile(filepath.Join(dir, f.Name), []byte(f.Src), 0o644)
		}
	}
	rootDir := filepath.Join(tmp, strings.TrimPrefix(p.Root().Path, prog.Module))
	for _, t := range []string{prog.TGounions, prog.TRanddata, prog.TSqlcrudS} {
		out, pi := l.RunTarget(t, []*analysis.Analysis{an})
		if pi != nil {
			continue
		}
		abs := filepath.Join(rootDir, "gen_"+strings.ReplaceAll(t, "+", "_")+"_verif.go")
		fixed, err := imports.Process(abs, []byte(out[""]), nil)
		if err != nil {
			return false, err.Error()
		}
		os.WriteFile(abs, fixed, 0o644)
	}
	cmd := exec.Command("go", "build", "./...")
	cmd.Dir = tmp
	cmd.Env = goEnv()
	out, err := cmd.CombinedOutput()
	return err == nil, trunc(string(out), 1500)
}
