package checks

import (
	"bytes"
	"encoding/json"
	"fmt"
	"go/types"
	"reflect"
	"regexp"
	"sort"
	"strings"
	"time"

	"github.com/benoitkugler/gomacro/analysis"
	"verif.test/mc/explore"
	"verif.test/mc/fam"
	"verif.test/mc/models/sqlddl"
	"verif.test/mc/models/tsparse"
	"verif.test/mc/prog"
)

// C09: field selection and JSON naming coincide with encoding/json.
// Ground truth ("jsonkeys"): encoding/json itself, asked through reflect.StructOf twins that
// carry the same field names, tags and embedding as the analysed struct.

var intType = reflect.TypeOf(0)

// twinOf builds a struct type with the same names / tags / embedding as st (field types are ints,
// embedded structs are twins). Unexported plain fields are left out (encoding/json ignores them);
// an unexported embedded struct is given an exported name (its fields are promoted either way).
func twinOf(st *types.Struct, depth int) reflect.Type {
	var fields []reflect.StructField
	names := map[string]bool{}
	for i := 0; i < st.NumFields(); i++ {
		f := st.Field(i)
		tag := reflect.StructTag(st.Tag(i))
		sf := reflect.StructField{Name: f.Name(), Tag: tag, Type: intType}
		if f.Embedded() {
			ft := types.Unalias(f.Type())
			if n, ok := ft.(*types.Named); ok && !isTimeLike(ft) {
				if inner, ok := n.Underlying().(*types.Struct); ok && depth < 4 {
					sf.Type = twinOf(inner, depth+1)
					sf.Anonymous = true
					if !f.Exported() {
						sf.Name = "X" + f.Name()
					}
				} else if !f.Exported() {
					continue // embedded unexported non-struct: ignored by encoding/json
				}
			}
		} else if !f.Exported() {
			continue
		}
		if names[sf.Name] {
			continue
		}
		names[sf.Name] = true
		fields = append(fields, sf)
	}
	return reflect.StructOf(fields)
}

func setOnes(v reflect.Value) {
	for i := 0; i < v.NumField(); i++ {
		switch v.Field(i).Kind() {
		case reflect.Int:
			v.Field(i).SetInt(1)
		case reflect.Struct:
			setOnes(v.Field(i))
		}
	}
}

// jsonKeys returns the top-level keys encoding/json emits for the struct, in order.
func jsonKeys(st *types.Struct) ([]string, error) {
	var twin reflect.Type
	var perr any
	func() {
		defer func() { perr = recover() }()
		twin = twinOf(st, 0)
	}()
	if perr != nil {
		return nil, fmt.Errorf("twin: %v", perr)
	}
	v := reflect.New(twin).Elem()
	setOnes(v)
	b, err := json.Marshal(v.Interface())
	if err != nil {
		return nil, err
	}
	dec := json.NewDecoder(bytes.NewReader(b))
	dec.Token() // {
	var keys []string
	depth := 0
	for dec.More() || depth > 0 {
		tok, err := dec.Token()
		if err != nil {
			break
		}
		switch t := tok.(type) {
		case json.Delim:
			if t == '{' || t == '[' {
				depth++
			} else {
				depth--
			}
		case string:
			if depth == 0 {
				keys = append(keys, t)
				// skip the value
				var raw json.RawMessage
				dec.Decode(&raw)
			}
		}
	}
	return keys, nil
}

// gomacroIgnored lists the keys of the fields tagged gomacro:"ignore" (flattening as encoding/json).
func gomacroIgnoredKeys(st *types.Struct, out map[string]bool) {
	for i := 0; i < st.NumFields(); i++ {
		f := st.Field(i)
		tag := reflect.StructTag(st.Tag(i))
		name, _, _ := strings.Cut(tag.Get("json"), ",")
		if f.Embedded() && name == "" {
			if n, ok := types.Unalias(f.Type()).(*types.Named); ok {
				if inner, ok := n.Underlying().(*types.Struct); ok && !isTimeLike(n) {
					gomacroIgnoredKeys(inner, out)
					continue
				}
			}
		}
		if tag.Get("gomacro") == "ignore" {
			if name == "" {
				name = f.Name()
			}
			out[name] = true
		}
	}
}

var (
	reDartFrom = regexp.MustCompile(`json\['([^']*)'\]`)
	reDartTo   = regexp.MustCompile(`"((?:[^"\\]|\\.)*)"\s*:`)
	reSQLKeys  = regexp.MustCompile(`key IN \(([^)]*)\)`)
)

func dartStructKeys(text, name string) (from, to []string, found bool) {
	// <Name> <id>FromJson(dynamic json_) { ... return Name( ... ); }
	marker := "FromJson(dynamic json_) {\n\t\tfinal json = (json_ as Map<String, dynamic>);\n\t\treturn " + name + "("
	i := strings.Index(text, marker)
	if i < 0 {
		return nil, nil, false
	}
	body := text[i+len(marker):]
	if j := strings.Index(body, "\n\t\t);"); j >= 0 {
		body = body[:j]
	}
	for _, m := range reDartFrom.FindAllStringSubmatch(body, -1) {
		from = append(from, m[1])
	}
	k := strings.Index(text[i:], "ToJson("+name+" item) {")
	if k >= 0 {
		tb := text[i+k:]
		if j := strings.Index(tb, "};"); j >= 0 {
			tb = tb[:j]
		}
		for _, m := range reDartTo.FindAllStringSubmatch(tb, -1) {
			to = append(to, m[1])
		}
	}
	return from, to, true
}

func evalC09(e *Eval) {
	an, pi := e.L.Analyse(0)
	if pi != nil {
		e.Res.Outcome = "analysis refused"
		return
	}
	e.Res.Nontrivial = true
	ans := []*analysis.Analysis{an}
	tsOut, tsPi := e.L.RunTarget(prog.TTS, ans)
	dartOut, dartPi := e.L.RunTarget(prog.TDart, ans)
	sqlOut, sqlPi := e.L.RunTarget(prog.TSQL, ans)
	var tsEnv *tsparse.Env
	if tsPi == nil {
		var tsErr error
		tsEnv, tsErr = tsparse.Parse(tsOut[""])
		if tsErr != nil {
			// a property written so that TypeScript cannot read it declares no key at all
			tsEnv = nil
			e.Fail("typescript-keys", "TypeScript output cannot be read", "the TypeScript output is not in the subset of TypeScript the generator writes, so its properties declare no key: "+tsErr.Error())
		}
	}
	var sqlSchema *sqlddl.Schema
	if sqlPi == nil {
		sqlSchema, _ = sqlddl.Parse(sqlOut[""])
	}
	dartAll := ""
	if dartPi == nil {
		var names []string
		for k := range dartOut {
			names = append(names, k)
		}
		sort.Strings(names)
		for _, k := range names {
			dartAll += dartOut[k] + "\n"
		}
	}
	localNames := map[string]int{}
	nodes := reachableNodes(an)
	for _, n := range nodes {
		if st, ok := n.(*analysis.Struct); ok {
			localNames[st.Name.Obj().Name()]++
		}
	}
	nStructs, nTS, nDart, nSQL := 0, 0, 0, 0
	for _, n := range nodes {
		st, ok := n.(*analysis.Struct)
		if !ok || st.Name.TypeArgs().Len() > 0 {
			continue
		}
		under := st.Name.Underlying().(*types.Struct)
		keys, err := jsonKeys(under)
		if err != nil {
			e.Count("twin-not-buildable")
			continue
		}
		ign := map[string]bool{}
		gomacroIgnoredKeys(under, ign)
		var want []string
		for _, k := range keys {
			if !ign[k] {
				want = append(want, k)
			}
		}
		nStructs++
		tn := st.Name.Obj().Pkg().Name() + "." + st.Name.Obj().Name()
		var got []string
		for _, f := range st.Fields {
			if f.Exported() {
				got = append(got, f.JSONName())
			}
		}
		if strings.Join(got, "|") != strings.Join(want, "|") {
			e.FailX("analysis-keys", "selected fields / names differ from encoding/json", fmt.Sprintf("%s: Exported()/JSONName() give [%s], encoding/json serialises (minus gomacro:\"ignore\") [%s]", tn, strings.Join(got, ", "), strings.Join(want, ", ")), strings.Join(want, ", "), strings.Join(got, ", "))
			continue
		}
		name := st.Name.Obj().Name()
		if localNames[name] > 1 {
			continue // two structs with one local name: outputs are ambiguous (C03's business)
		}
		wantSorted := sortedCopy(want)
		if tsEnv != nil {
			if obj, ok := tsEnv.Types[name].(tsparse.Object); ok {
				var props []string
				for _, p := range obj.Props {
					props = append(props, p.Name)
				}
				nTS++
				if strings.Join(props, "|") != strings.Join(want, "|") {
					e.FailX("typescript-keys", "TypeScript properties differ", fmt.Sprintf("%s: interface properties [%s], want [%s]", tn, strings.Join(props, ", "), strings.Join(want, ", ")), strings.Join(want, ", "), strings.Join(props, ", "))
				}
			} else if len(want) > 0 && tsEnv.Types[name] != nil {
				if _, isRec := tsEnv.Types[name].(tsparse.Record); !isRec {
					e.Count("ts-struct-not-an-object")
				}
			}
		}
		if dartPi == nil {
			dname := strings.Title(name)
			if from, to, ok := dartStructKeys(dartAll, dname); ok {
				nDart++
				if strings.Join(from, "|") != strings.Join(want, "|") || strings.Join(to, "|") != strings.Join(want, "|") {
					e.FailX("dart-keys", "Dart JSON keys differ", fmt.Sprintf("%s: fromJson reads [%s], toJson writes [%s], want [%s]", tn, strings.Join(from, ", "), strings.Join(to, ", "), strings.Join(want, ", ")), strings.Join(want, ", "), strings.Join(from, ", "))
				}
			}
		}
		if sqlSchema != nil {
			pk := st.Name.Obj().Pkg().Name()
			if len(pk) > 4 {
				pk = pk[:4]
			}
			if fn, ok := sqlSchema.Functions["gomacro_validate_json_"+pk+"_"+name]; ok {
				nSQL++
				var sk []string
				if m := reSQLKeys.FindStringSubmatch(fn); m != nil {
					for _, k := range strings.Split(m[1], ",") {
						sk = append(sk, strings.Trim(strings.TrimSpace(k), "'"))
					}
				}
				if strings.Join(sortedCopy(sk), "|") != strings.Join(wantSorted, "|") {
					e.FailX("validator-keys", "validator key list differs", fmt.Sprintf("%s: validator accepts keys [%s], want [%s]", tn, strings.Join(sk, ", "), strings.Join(want, ", ")), strings.Join(want, ", "), strings.Join(sk, ", "))
				}
			}
		}
	}
	e.Res.Outcome = fmt.Sprintf("structs=%d ts=%d dart=%d sql=%d", nStructs, nTS, nDart, nSQL)
	// metamorphic pair: program with an ignored slot field vs the same program without the field
	if isIgnoredSlot(e.Prog) {
		c09Metamorphic(e, tsOut, tsPi, dartOut, dartPi, sqlSchema)
	}
	if e.Cost == 1 && len(e.Prog.Features) > 0 {
		e.Res.Sample = map[string]any{"features": e.Prog.Features, "outcome": e.Res.Outcome}
	}
}

func isIgnoredSlot(p *prog.Program) bool {
	if p.Notes["slotName"] == "absent" {
		return false
	}
	if p.Notes["slotName"] == "slot" {
		return true
	}
	for _, f := range p.Features {
		if f == "slot.tag=`json:\"-\"`" || f == "slot.tag=`gomacro:\"ignore\"`" {
			return true
		}
	}
	return false
}

// overrideChooser replays a vector but forces the answer at one site.
type overrideChooser struct {
	inner explore.Chooser
	site  string
	pick  func(n int) int
}

func (o *overrideChooser) Choose(site string, n int) int {
	c := o.inner.Choose(site, n)
	if site == o.site {
		return o.pick(n)
	}
	return c
}

func c09Metamorphic(e *Eval, tsOut prog.Outputs, tsPi *prog.PanicInfo, dartOut prog.Outputs, dartPi *prog.PanicInfo, sqlSchema *sqlddl.Schema) {
	partner := e.Check.Synth(&overrideChooser{inner: &explore.Fixed{Vec: e.Vec}, site: "slot.name", pick: func(n int) int { return n - 1 }})
	if partner.Notes["slotName"] != "absent" {
		return
	}
	if err := partner.Gofmt(); err != nil {
		return
	}
	l2, err := prog.Load(partner)
	if err != nil {
		e.Res.Internal = "metamorphic partner is not well typed: " + err.Error()
		return
	}
	an2, pi := l2.Analyse(0)
	if pi != nil {
		e.Fail("ignored-field-invariance", "analysis outcome changes", "removing the ignored field changes the analysis outcome: "+pi.String())
		return
	}
	e.Count("metamorphic-pairs")
	ans2 := []*analysis.Analysis{an2}
	desc := fmt.Sprintf("(ignored field %s of type %s hosted in %s)", e.Prog.Notes["slotName"], e.Prog.Notes["slot"], e.Prog.Notes["host"])
	if ts2, pi2 := l2.RunTarget(prog.TTS, ans2); (pi2 == nil) != (tsPi == nil) {
		e.Fail("ignored-field-invariance", "typescript outcome changes", fmt.Sprintf("with the ignored field: %s, without: %s %s", tsPi, pi2, desc))
	} else if pi2 == nil && ts2[""] != tsOut[""] {
		e.Fail("ignored-field-invariance", "typescript output changes", "the TypeScript output differs with and without the ignored field "+desc+": "+firstDiff(ts2[""], tsOut[""]))
	}
	if d2, pi2 := l2.RunTarget(prog.TDart, ans2); (pi2 == nil) != (dartPi == nil) {
		e.Fail("ignored-field-invariance", "dart outcome changes", fmt.Sprintf("with the ignored field: %s, without: %s %s", dartPi, pi2, desc))
	} else if pi2 == nil {
		diff := ""
		for k, v := range dartOut {
			if w, ok := d2[k]; !ok {
				diff = "file " + k + " only exists with the ignored field"
			} else if w != v {
				diff = "file " + k + ": " + firstDiff(w, v)
			}
		}
		for k := range d2 {
			if _, ok := dartOut[k]; !ok {
				diff = "file " + k + " only exists without the ignored field"
			}
		}
		if diff != "" {
			sig := "dart output changes"
			if strings.Contains(diff, "only exists") {
				sig = "dart file set changes"
			}
			e.Fail("ignored-field-invariance", sig, "the Dart output differs with and without the ignored field "+desc+": "+diff)
		}
	}
	if sqlSchema != nil {
		if s2, pi2 := l2.RunTarget(prog.TSQL, ans2); pi2 == nil {
			if sc2, err := sqlddl.Parse(s2[""]); err == nil {
				// the ignored field of a table struct is still a column (C08): only compare the
				// validators both scripts define, and all of them when the host is not a table
				for name, text := range sc2.Functions {
					if other, ok := sqlSchema.Functions[name]; ok && other != text {
						e.Fail("ignored-field-invariance", "validator changes", fmt.Sprintf("validator %s differs with and without the ignored field %s", name, desc))
					}
				}
				// every struct declared in the analysed file is a table for the SQL target (Item, the
				// union member Circle, the nested Inner): only a host of another package is not
				if e.Prog.Notes["host"] == "sub-struct" && len(sc2.Functions) != len(sqlSchema.Functions) {
					e.Fail("ignored-field-invariance", "validator set changes", fmt.Sprintf("%d validators with the ignored field, %d without %s", len(sqlSchema.Functions), len(sc2.Functions), desc))
				}
			}
		}
	}
}

func firstDiff(a, b string) string {
	la, lb := strings.Split(a, "\n"), strings.Split(b, "\n")
	for i := 0; i < len(la) && i < len(lb); i++ {
		if la[i] != lb[i] {
			return fmt.Sprintf("line %d: %q vs %q", i+1, strings.TrimSpace(la[i]), strings.TrimSpace(lb[i]))
		}
	}
	return fmt.Sprintf("%d vs %d lines", len(la), len(lb))
}

func init() {
	registerProg(&ProgCheck{
		ID: "C09", Family: "F-types", Synth: fam.Types,
		Bound:    map[string]int{"quick": 2, "thorough": 3},
		Deadline: map[string]time.Duration{"quick": 6 * time.Minute, "thorough": 45 * time.Minute},
		Rule:     "programs of F-types (full tag alphabet on the slot field, embedded exported / unexported / tagged / foreign structs, nested hosts) within the deviation bound; for every struct node the selected fields and names are compared with the keys encoding/json emits for a reflect.StructOf twin (same names, tags, embedding), then with the keys read back from the TypeScript, Dart and validator outputs; programs whose slot field is ignored (unexported, json:\"-\", gomacro:\"ignore\") are also compared output by output with the same program without the field; non-trivial = analysis accepted the program",
		Assumptions: []string{
			"encoding/json on a reflect.StructOf twin is the ground truth for key selection and naming (an unexported embedded struct is given an exported name in the twin: its fields are promoted either way)",
			"the ignored field of a table struct is still an SQL column (C08), so only the validators defined in both scripts are compared in that case",
		},
		Eval: evalC09,
	})
}
