package checks

import (
	"fmt"
	"go/constant"
	"go/types"
	"sort"
	"strings"
	"time"
	"unicode"

	"github.com/benoitkugler/gomacro/analysis"
	"verif.test/mc/fam"
	"verif.test/mc/models/dartscan"
	"verif.test/mc/prog"
)

// C06: Dart JSON routines mirror the Go wire format and link across files.

func dartTitle(s string) string { return strings.Title(s) }

func dartLowerFirst(s string) string {
	if s == "" {
		return s
	}
	r := []rune(s)
	r[0] = unicode.ToLower(r[0])
	return string(r)
}

func evalC06(e *Eval) {
	var ans []*analysis.Analysis
	for i := range e.L.RootFiles {
		an, pi := e.L.Analyse(i)
		if pi != nil {
			e.Res.Outcome = "analysis refused"
			return
		}
		ans = append(ans, an)
	}
	// the command writes the Dart files last, after the other targets asked for the same source file
	// (they share its analysis): the Dart output examined is the one produced in that position
	for _, t := range []string{prog.TTS, prog.TSQL} {
		e.L.RunTarget(t, ans)
	}
	out, pi := e.L.RunTarget(prog.TDart, ans)
	if pi != nil {
		e.Res.Outcome = "dart refused: " + trunc(pi.Msg, 40)
		if pi.Runtime {
			e.Count("dart-runtime-error(C18)")
		}
		return
	}
	e.Res.Nontrivial = true
	files := map[string]*dartscan.File{}
	var names []string
	for name, text := range out {
		files[name] = dartscan.Scan(name, text)
		names = append(names, name)
	}
	sort.Strings(names)
	// ---- linking
	for _, name := range names {
		f := files[name]
		for _, imp := range f.Imports {
			if imp == name {
				e.Fail("no-self-import", "file imports itself", name+" imports itself")
			}
			if files[imp] == nil {
				e.Fail("links", "import of a file that is not generated", fmt.Sprintf("%s imports %s which is not among the generated files %v", name, imp, names))
			}
		}
		var uses []string
		for u := range f.Uses {
			uses = append(uses, u)
		}
		sort.Strings(uses)
		for _, u := range uses {
			count := func(g *dartscan.File) int { return g.Defs[u] + g.Funcs[u] + g.Exts[u] }
			here := count(f)
			if here == 1 {
				continue
			}
			if here > 1 {
				e.Fail("defined-exactly-once", "defined twice in one file: "+kindOfIdent(u), fmt.Sprintf("%s defines %s %d times", name, u, here))
				continue
			}
			n := 0
			var where []string
			for _, imp := range f.Imports {
				if g := files[imp]; g != nil && imp != name {
					if c := count(g); c > 0 {
						n += c
						where = append(where, imp)
					}
				}
			}
			if n == 0 {
				e.Fail("links", "identifier used but not defined: "+kindOfIdent(u), fmt.Sprintf("%s uses %s, which is defined neither in it nor in the files it imports %v", name, u, f.Imports))
			} else if n > 1 {
				e.Fail("defined-exactly-once", "defined in several imported files: "+kindOfIdent(u), fmt.Sprintf("%s uses %s, defined %d times in %v", name, u, n, where))
			}
		}
	}
	// ---- reference tables
	enums, unions := refEnums(e.L), refUnions(e.L)
	fileOf := func(dname string) (string, int) {
		n, where := 0, ""
		for _, name := range names {
			if c := files[name].Defs[dname]; c > 0 {
				n += c
				where = name
			}
		}
		return where, n
	}
	pkgFile := map[string]string{}
	fileNames := map[string]map[string]bool{}
	analysedUnions := map[*types.Named]bool{}
	seenNode := map[analysis.Type]bool{}
	var nodes []analysis.Type
	for _, an := range ans {
		for _, n := range dartReachable(an) {
			if !seenNode[n] {
				seenNode[n] = true
				nodes = append(nodes, n)
			}
		}
		for ty, node := range an.Types {
			if _, ok := node.(*analysis.Union); ok {
				if n, ok := ty.(*types.Named); ok {
					analysedUnions[n] = true
				}
			}
		}
	}
	// number of distinct Go types per Dart name (a type analysed by two source files has two nodes: one type)
	local := map[string]int{}
	countedType := map[*types.Named]bool{}
	for _, n := range nodes {
		if nn, ok := n.Type().(*types.Named); ok && nn.Obj().Pkg() != nil && !countedType[nn] {
			if _, isTime := n.(*analysis.Time); !isTime {
				countedType[nn] = true
				local[dartTitle(nn.Obj().Name())]++
			}
		}
	}
	nStruct, nUnion, nEnum := 0, 0, 0
	for _, n := range nodes {
		nn, ok := n.Type().(*types.Named)
		if !ok || nn.Obj().Pkg() == nil || nn.TypeArgs().Len() > 0 {
			continue
		}
		if _, isTime := n.(*analysis.Time); isTime {
			continue
		}
		if na, isNamed := n.(*analysis.Named); isNamed {
			if _, isT := na.Underlying.(*analysis.Time); isT && nn.Obj().Pkg().Path() == "time" {
				continue
			}
		}
		dname := dartTitle(nn.Obj().Name())
		if local[dname] > 1 {
			continue // same Dart name for two Go types: ambiguous (reported by the linking clause)
		}
		where, cnt := fileOf(dname)
		tn := nn.Obj().Pkg().Name() + "." + nn.Obj().Name()
		if cnt != 1 {
			e.Fail("defined-exactly-once", fmt.Sprintf("type declared %d times: %s", cnt, nodeClass(n)), fmt.Sprintf("%s is declared %d times in the Dart outputs", tn, cnt))
			continue
		}
		pkg := nn.Obj().Pkg().Path()
		if prev, ok := pkgFile[pkg]; ok && prev != where {
			e.Fail("file-per-package", "package spread over two files", fmt.Sprintf("types of package %s are declared in %s and in %s", pkg, prev, where))
		}
		pkgFile[pkg] = where
		if fileNames[where] == nil {
			fileNames[where] = map[string]bool{}
		}
		fileNames[where][pkg] = true
		f := files[where]
		switch node := n.(type) {
		case *analysis.Struct:
			nStruct++
			cl := f.Classes[dname]
			if cl == nil {
				e.Fail("struct-class", "struct is not a class", tn+" is not declared as a class")
				continue
			}
			keys, err := jsonKeys(nn.Underlying().(*types.Struct))
			if err != nil {
				continue
			}
			ign := map[string]bool{}
			gomacroIgnoredKeys(nn.Underlying().(*types.Struct), ign)
			var want []string
			for _, k := range keys {
				if !ign[k] {
					want = append(want, dartLowerFirst(k))
				}
			}
			if len(cl.CtorArgs) != len(want) || len(cl.Fields) != len(want) {
				e.FailX("struct-class", "constructor arity", fmt.Sprintf("%s: %d constructor arguments and %d fields for %d serialised fields %v", tn, len(cl.CtorArgs), len(cl.Fields), len(want), want), fmt.Sprint(len(want)), fmt.Sprint(len(cl.CtorArgs)))
			} else {
				for i, a := range cl.CtorArgs {
					if a != "this."+want[i] {
						e.Fail("struct-class", "constructor argument order", fmt.Sprintf("%s: constructor argument %d is %s, want this.%s", tn, i, a, want[i]))
						break
					}
				}
			}
			// the keys read by fromJson and written by toJson are the keys Go uses, in field order
			if local[dname] == 1 {
				var wantKeys []string
				for _, k := range keys {
					if !ign[k] {
						wantKeys = append(wantKeys, k)
					}
				}
				if from, to, ok := dartStructKeys(out[where], dname); ok {
					if strings.Join(from, "|") != strings.Join(wantKeys, "|") || strings.Join(to, "|") != strings.Join(wantKeys, "|") {
						e.FailX("json-keys", "Dart JSON keys differ", fmt.Sprintf("%s: fromJson reads [%s], toJson writes [%s], Go uses [%s]", tn, strings.Join(from, ", "), strings.Join(to, ", "), strings.Join(wantKeys, ", ")), strings.Join(wantKeys, ", "), strings.Join(from, ", "))
					}
				}
			}
			// implements
			var wantImpl []string
			for u := range analysedUnions {
				if !u.Obj().Exported() {
					continue
				}
				for _, m := range unions[u] {
					if m == nn {
						wantImpl = append(wantImpl, u.Obj().Name())
					}
				}
			}
			sort.Strings(wantImpl)
			if strings.Join(sortedCopy(cl.Implements), ",") != strings.Join(wantImpl, ",") {
				e.FailX("implements", "implements clause", fmt.Sprintf("%s: class implements %v, exported analysed unions listing it: %v", tn, cl.Implements, wantImpl), fmt.Sprint(wantImpl), fmt.Sprint(cl.Implements))
			}
			_ = node
		case *analysis.Union:
			nUnion++
			u := f.Unions[dname]
			if u == nil {
				e.Fail("union-dispatch", "union without JSON routines", tn+": no abstract class / JSON routines")
				continue
			}
			var want, wantIs []string
			for _, m := range unions[nn] {
				want = append(want, m.Obj().Name())
				wantIs = append(wantIs, dartTitle(m.Obj().Name()))
			}
			if strings.Join(u.Cases, ",") != strings.Join(want, ",") || strings.Join(u.Kinds, ",") != strings.Join(want, ",") || strings.Join(u.Is, ",") != strings.Join(wantIs, ",") {
				e.FailX("union-dispatch", "dispatch differs from the member names", fmt.Sprintf("%s: fromJson cases %v, toJson kinds %v on types %v; Go members %v", tn, u.Cases, u.Kinds, u.Is, want), fmt.Sprint(want), fmt.Sprint(u.Cases))
			}
		case *analysis.Enum:
			nEnum++
			en := f.Enums[dname]
			if en == nil {
				e.Fail("enum-table", "enum not declared", tn+": no Dart enum")
				continue
			}
			var wantVals []string
			for _, m := range node.Members { // reported order: what the target uses positionally
				if m.Const.Exported() {
					wantVals = append(wantVals, m.Const.Val().String())
				}
			}
			re := enums[nn]
			nExported := 0
			for _, m := range re.members {
				if m.obj.Exported() {
					nExported++
				}
			}
			if len(en.Names) != nExported {
				e.FailX("enum-table", "enum member count", fmt.Sprintf("%s: %d Dart members %v for %d exported constants", tn, len(en.Names), en.Names, nExported), fmt.Sprint(nExported), fmt.Sprint(len(en.Names)))
				continue
			}
			if en.Iota {
				for i, m := range exportedConsts(re) {
					if v, ok := safeInt64(m.Val()); !ok || v != int64(i) {
						_ = v
					}
				}
				// index == value: exported constants, in the order of the Dart members, must be 0,1,2,...
				k := int64(0)
				for _, m := range node.Members {
					if !m.Const.Exported() {
						continue
					}
					if v, ok := safeInt64(m.Const.Val()); !ok || v != k {
						e.Fail("enum-table", "index mapping on a non contiguous enum", fmt.Sprintf("%s: values are converted by position but member %s = %s is at position %d", tn, m.Const.Name(), m.Const.Val(), k))
						break
					}
					k++
				}
			} else if strings.Join(en.Values, ",") != strings.Join(wantVals, ",") {
				e.FailX("enum-table", "value table", fmt.Sprintf("%s: value table %v, exported constants %v", tn, en.Values, wantVals), fmt.Sprint(wantVals), fmt.Sprint(en.Values))
			}
		}
	}
	for f, pk := range fileNames {
		if len(pk) > 1 {
			var l []string
			for p := range pk {
				l = append(l, p)
			}
			sort.Strings(l)
			e.Fail("file-per-package", "two packages in one file", fmt.Sprintf("file %s holds the types of packages %v", f, l))
		}
	}
	e.Res.Outcome = fmt.Sprintf("files=%d structs=%d unions=%d enums=%d", len(files), nStruct, nUnion, nEnum)
	if e.Cost == 1 && len(e.Prog.Features) > 0 {
		e.Res.Sample = map[string]any{"features": e.Prog.Features, "files": names, "outcome": e.Res.Outcome}
	}
}

// dartReachable lists the nodes the Dart output has to describe: reachable from the declarations
// of the file through serialised, non opaque fields, elements, keys, underlying types and members.
func dartReachable(an *analysis.Analysis) []analysis.Type {
	seen := map[analysis.Type]bool{}
	var out []analysis.Type
	var walk func(t analysis.Type)
	walk = func(t analysis.Type) {
		if t == nil || seen[t] {
			return
		}
		seen[t] = true
		out = append(out, t)
		switch t := t.(type) {
		case *analysis.Struct:
			for _, f := range t.Fields {
				if f.Exported() && !f.IsOpaqueFor("dart") {
					walk(f.Type)
				}
			}
		case *analysis.Array:
			walk(t.Elem)
		case *analysis.Map:
			walk(t.Key)
			walk(t.Elem)
		case *analysis.Named:
			walk(t.Underlying)
		case *analysis.Union:
			for _, m := range t.Members {
				walk(m)
			}
		}
	}
	for _, s := range an.Source {
		walk(an.Types[s])
	}
	return out
}

func exportedConsts(re *refEnum) []*types.Const {
	var out []*types.Const
	for _, m := range re.members {
		if m.obj.Exported() {
			out = append(out, m.obj)
		}
	}
	return out
}

func kindOfIdent(u string) string {
	switch {
	case strings.HasSuffix(u, "FromJson"), strings.HasSuffix(u, "ToJson"):
		return "JSON helper"
	case strings.HasPrefix(u, "_"):
		return "enum extension"
	}
	return "type"
}

func init() {
	registerProg(&ProgCheck{
		ID: "C06", Family: "F-types", Synth: typesSupported,
		Bound:    map[string]int{"quick": 2, "thorough": 3},
		Deadline: map[string]time.Duration{"quick": 6 * time.Minute, "thorough": 45 * time.Minute},
		Rule:     "programs of F-types (supported forms, one or two analysed files, root under go/src or not, types in the root package, the sub package and the standard library) and F-union / F-enum within the deviation bound; the Dart files are scanned (dartscan) and compared with go/types: classes (constructor arity and order, implements), union dispatch (cases, is-branches, Kind strings), enum tables, and the linking of every identifier each file uses; non-trivial = dart.Generate accepted the program",
		Assumptions: []string{
			"dartscan reads the fixed templates of generator/dart; Dart is not executed (no SDK offline); a definition in the file itself shadows imported ones",
			"struct JSON keys are checked in C09; here their number and constructor order",
		},
		Eval: evalC06,
		More: []*ProgCheck{
			{Family: "F-union", Synth: fam.Union, Bound: map[string]int{"quick": 2, "thorough": 3}},
			{Family: "F-enum", Synth: fam.Enum, Bound: map[string]int{"quick": 2, "thorough": 3}},
		},
	})
}

// safeInt64 is constant.Int64Val for any kind of constant (Int64Val panics unless the kind is Int).
func safeInt64(v constant.Value) (int64, bool) {
	if v.Kind() != constant.Int {
		return 0, false
	}
	return constant.Int64Val(v)
}
