package checks

import (
	"encoding/json"
	"fmt"
	"go/types"
	"strings"
	"time"

	"github.com/benoitkugler/gomacro/analysis"
	"github.com/benoitkugler/gomacro/analysis/httpapi"
	"verif.test/mc/fam"
	"verif.test/mc/prog"
)

// C13: every registered HTTP route is extracted with its contract.
// Ground truth: the route table written by the synthesiser (fam.Routes).

func typeText(t analysis.Type, pkg *types.Package) string {
	if t == nil {
		return ""
	}
	s := ""
	if pi := prog.Guard(func() { s = types.TypeString(t.Type(), relTo(pkg)) }); pi != nil {
		return "<Type() panics: " + pi.Msg + ">"
	}
	return s
}

func parseEcho(e *Eval) ([]httpapi.Endpoint, *prog.PanicInfo) {
	var eps []httpapi.Endpoint
	pi := prog.Guard(func() { eps = httpapi.ParseEcho(e.L.Root, e.L.RootFiles[0], e.Prog.Notes["prefix"]) })
	return eps, pi
}

func evalC13(e *Eval) {
	var want []fam.Route
	if err := json.Unmarshal([]byte(e.Prog.Notes["routes"]), &want); err != nil {
		e.Res.Internal = "bad route table: " + err.Error()
		return
	}
	eps, pi := parseEcho(e)
	e.Res.Nontrivial = true
	if pi != nil {
		if pi.Runtime {
			e.Fail("extraction-completes", pi.Where, "ParseEcho died with a runtime error: "+pi.String())
			e.Res.Outcome = "crash"
		} else {
			e.Res.Outcome = "refused: " + trunc(pi.Msg, 30)
			// every registration of the family is in the statement's domain, except the handler
			// expressions ParseEcho says it does not read (parenthesised, address-of ...)
			if !strings.HasPrefix(pi.Msg, "unsupported handler function") {
				e.Fail("handlers-resolved", "refused: "+trunc(pi.Msg, 60), "ParseEcho refuses a routes file whose registrations are all of the supported forms: "+pi.String())
			}
		}
		return
	}
	e.Res.Outcome = fmt.Sprintf("endpoints=%d", len(eps))
	if len(eps) != len(want) {
		var got []string
		for _, ep := range eps {
			got = append(got, ep.Method+" "+ep.Url)
		}
		var w []string
		for _, r := range want {
			w = append(w, r.Verb+" "+r.URL)
		}
		e.FailX("one-entry-per-registration", fmt.Sprintf("%d endpoints want %d", len(eps), len(want)), fmt.Sprintf("extracted [%s], registered (prefix %q) [%s]", strings.Join(got, "; "), e.Prog.Notes["prefix"], strings.Join(w, "; ")), strings.Join(w, "; "), strings.Join(got, "; "))
		return
	}
	pkgs := map[string]*types.Package{"main": e.L.Root.Types}
	for _, p := range e.L.Pkgs {
		if p.Name == "inner" && p.Types != e.L.Root.Types {
			pkgs["inner"] = p.Types
		}
	}
	for i, r := range want {
		ep := eps[i]
		ct := ep.Contract
		pk := pkgs[r.Pkg]
		id := fmt.Sprintf("route %d (%s %s)", i, r.Verb, r.URL)
		if ep.Method != r.Verb {
			e.FailX("verb", "verb", fmt.Sprintf("%s: verb %s", id, ep.Method), r.Verb, ep.Method)
		}
		if ep.Url != r.URL {
			e.FailX("url", "url", fmt.Sprintf("%s: URL %q", id, ep.Url), r.URL, ep.Url)
		}
		if r.Handler != "" && ct.Name != r.Handler {
			e.FailX("handler-name", "handler name", fmt.Sprintf("%s: handler %q want %q", id, ct.Name, r.Handler), r.Handler, ct.Name)
		}
		if r.Handler == "" && !strings.HasPrefix(ct.Name, "Anonymous") {
			e.Fail("handler-name", "literal name", fmt.Sprintf("%s: function literal named %q", id, ct.Name))
		}
		if got := typeText(ct.InputBody, pk); got != r.Input {
			e.FailX("input-type", fmt.Sprintf("input %q want %q", got, r.Input), fmt.Sprintf("%s: bound input type %q, want %q", id, got, r.Input), r.Input, got)
		}
		if got := typeText(ct.Return, pk); got != r.Return {
			e.FailX("return-type", fmt.Sprintf("return %q want %q", got, r.Return), fmt.Sprintf("%s: return type %q, want %q", id, got, r.Return), r.Return, got)
		}
		if ct.IsReturnBlob != r.Blob {
			e.Fail("return-type", "blob flag", fmt.Sprintf("%s: IsReturnBlob=%v", id, ct.IsReturnBlob))
		}
		var gq, wq []string
		for _, p := range ct.InputQueryParams {
			gq = append(gq, p.Name+":"+typeText(p.Type, pk))
		}
		for _, p := range r.Query {
			wq = append(wq, p.Name+":"+p.Type)
		}
		if strings.Join(gq, ",") != strings.Join(wq, ",") {
			e.FailX("query-params", "query params", fmt.Sprintf("%s: query parameters [%s], want [%s]", id, strings.Join(gq, ","), strings.Join(wq, ",")), strings.Join(wq, ","), strings.Join(gq, ","))
		}
		if strings.Join(ct.InputForm.ValueNames, ",") != strings.Join(r.FormValues, ",") {
			e.FailX("form-values", "form values", fmt.Sprintf("%s: form values %v, want %v", id, ct.InputForm.ValueNames, r.FormValues), fmt.Sprint(r.FormValues), fmt.Sprint(ct.InputForm.ValueNames))
		}
		if ct.InputForm.File != r.FormFile {
			e.FailX("form-file", "form file", fmt.Sprintf("%s: form file %q, want %q", id, ct.InputForm.File, r.FormFile), r.FormFile, ct.InputForm.File)
		}
		wj, gj := "", ""
		if r.JSONField != nil {
			wj = r.JSONField.Name + ":" + r.JSONField.Type
		}
		if ct.InputForm.JSON.Name != "" {
			gj = ct.InputForm.JSON.Name + ":" + typeText(ct.InputForm.JSON.Type, pk)
		}
		if wj != gj {
			e.FailX("form-json-field", fmt.Sprintf("json field %q want %q", gj, wj), fmt.Sprintf("%s: JSON form field %q (name:type), want %q", id, gj, wj), wj, gj)
		}
	}
	if e.Cost == 1 {
		e.Res.Sample = map[string]any{"features": e.Prog.Features, "expected_routes": want}
	}
}

func init() {
	registerProg(&ProgCheck{
		ID: "C13", Family: "F-routes", Synth: fam.Routes,
		Bound:    map[string]int{"quick": 2, "thorough": 3},
		Deadline: map[string]time.Duration{"quick": 5 * time.Minute, "thorough": 45 * time.Minute},
		Rule:     "programs of F-routes within the deviation bound x prefix filters; ParseEcho's result compared field by field with the synthesiser's route table; every program is non-trivial (1..3 registrations)",
		Assumptions: []string{
			"types are compared by their go/types text relative to the package declaring the handler",
			"a handler given as a function literal may carry any name starting with Anonymous",
		},
		Eval: evalC13,
	})
}
