package checks

import (
	"fmt"
	"go/ast"
	"go/parser"
	"go/token"
	"strconv"
	"strings"
	"time"

	"github.com/benoitkugler/gomacro/analysis"
	"verif.test/mc/fam"
	"verif.test/mc/models/sqlddl"
	"verif.test/mc/prog"
)

// C16: SQL comment directives are expanded exactly. The reference expander
// (buildSQLRef in c08.go) works on the doc comment carried by each struct
// declaration in the syntax tree and on go/types constants.

func evalC16(e *Eval) {
	enums, unions := refEnums(e.L), refUnions(e.L)
	an, pi := e.L.Analyse(0)
	if pi != nil {
		e.Res.Outcome = "analysis " + trunc(pi.String(), 40)
		return
	}
	ref := buildSQLRef(e, enums, unions)
	nDirectives := len(ref.customStmts) + len(ref.queries)
	e.Res.Nontrivial = nDirectives > 0
	out, pi := e.L.RunTarget(prog.TSQL, []*analysis.Analysis{an})
	if pi != nil {
		e.Res.Outcome = "sql refused: " + trunc(pi.Msg, 40)
		if pi.Runtime {
			e.Count("sql-runtime-error(C18)")
		}
	} else if sc, err := sqlddl.Parse(out[""]); err != nil {
		e.Fail("schema-parses", "unparsable schema", "the SQL output cannot be read: "+err.Error())
	} else {
		// isolate the custom statements exactly as C08 does, ignoring its verdicts
		sub := &Eval{Check: e.Check, Tier: e.Tier, Prog: e.Prog, L: e.L, Res: &Result{}, Vec: e.Vec, Cost: e.Cost}
		checkC08(sub, ref, sc, enums)
		got := sub.customStatements
		want := ref.customStmts
		if strings.Join(got, "\n") != strings.Join(want, "\n") {
			sig := "custom statements differ"
			if len(got) < len(want) {
				sig = "directive missing from the output"
			} else if len(got) > len(want) {
				sig = "statement not owed to a directive of that struct"
			} else {
				for i := range got {
					if got[i] != want[i] {
						sig = "expansion differs: " + diffWords(want[i], got[i])
						break
					}
				}
			}
			e.FailX("constraints-expanded", sig, fmt.Sprintf("custom statements in the SQL output:\n%s\nexpected from the directives carried by the struct declarations:\n%s", strings.Join(got, "\n"), strings.Join(want, "\n")), strings.Join(want, "\n"), strings.Join(got, "\n"))
		}
		for _, st := range got {
			if strings.Contains(strings.ToUpper(st), "_SELECT KEY") {
				e.Fail("internal-directives-hidden", "select key in SQL", "internal directive reached the SQL output: "+st)
			}
		}
		e.Res.Outcome = fmt.Sprintf("custom=%d", len(got))
	}
	// custom queries in the CRUD output
	crud, pi := e.L.RunTarget(prog.TSqlcrud, []*analysis.Analysis{an})
	if pi != nil {
		e.Res.Outcome += " crud refused: " + trunc(pi.Msg, 30)
		return
	}
	if len(ref.queries) > 0 && ref.unsupported == "" {
		checkQueries(e, ref, crud[""])
	}
	e.Res.Outcome += fmt.Sprintf(" queries=%d", len(ref.queries))
	if e.Cost == 1 && nDirectives > 0 {
		e.Res.Sample = map[string]any{"features": e.Prog.Features, "expected_statements": ref.customStmts, "expected_queries": fmt.Sprint(ref.queries)}
	}
}

func diffWords(want, got string) string {
	w, g := strings.Fields(want), strings.Fields(got)
	for i := 0; i < len(w) && i < len(g); i++ {
		if w[i] != g[i] {
			return fmt.Sprintf("want %q got %q", w[i], g[i])
		}
	}
	return "length"
}

func checkQueries(e *Eval, ref *sqlRef, crud string) {
	fset := token.NewFileSet()
	f, err := parser.ParseFile(fset, "crud.go", crud, parser.SkipObjectResolution)
	if err != nil {
		// a syntax error in generated Go is C01's business, but it hides the queries from us
		e.Count("crud-output-does-not-parse(C01)")
		return
	}
	funcs := map[string]*ast.FuncDecl{}
	for _, d := range f.Decls {
		if fd, ok := d.(*ast.FuncDecl); ok && fd.Recv == nil {
			funcs[fd.Name.Name] = fd
		}
	}
	for _, q := range ref.queries {
		fd := funcs[q.funcName]
		if fd == nil {
			e.Fail("query-function", "missing function", "no generated function "+q.funcName)
			continue
		}
		var params []string
		for _, fl := range fd.Type.Params.List {
			ty := exprString(fl.Type)
			for _, n := range fl.Names {
				params = append(params, n.Name+" "+ty)
			}
		}
		want := []string{"db DB"}
		for i, a := range q.args {
			want = append(want, a+" "+q.argTypes[i])
		}
		if strings.Join(params, ", ") != strings.Join(want, ", ") {
			e.FailX("query-arguments", "signature", fmt.Sprintf("func %s(%s), want (%s): one argument per distinct placeholder, typed like the compared field", q.funcName, strings.Join(params, ", "), strings.Join(want, ", ")), strings.Join(want, ", "), strings.Join(params, ", "))
		}
		// the Exec call
		var call *ast.CallExpr
		ast.Inspect(fd.Body, func(n ast.Node) bool {
			if c, ok := n.(*ast.CallExpr); ok && call == nil {
				if sel, ok := c.Fun.(*ast.SelectorExpr); ok && sel.Sel.Name == "Exec" {
					call = c
				}
			}
			return true
		})
		if call == nil || len(call.Args) == 0 {
			e.Fail("query-function", "no Exec call", q.funcName+": no Exec call")
			continue
		}
		lit, ok := call.Args[0].(*ast.BasicLit)
		if !ok {
			e.Fail("query-function", "query not a literal", q.funcName+": query is not a string literal")
			continue
		}
		text, _ := strconv.Unquote(lit.Value)
		if got := sqlddl.StripComments(text); got != q.query {
			e.FailX("query-placeholders", "query text: "+diffWords(q.query, got), fmt.Sprintf("%s executes %q, want %q (placeholders numbered by first occurrence, table names and enum placeholders expanded)", q.funcName, got, q.query), q.query, got)
		}
		var args []string
		for _, a := range call.Args[1:] {
			args = append(args, exprString(a))
		}
		if strings.Join(args, ",") != strings.Join(q.args, ",") {
			e.FailX("query-arguments", "Exec arguments", fmt.Sprintf("%s passes (%s) to the query, want (%s)", q.funcName, strings.Join(args, ","), strings.Join(q.args, ",")), strings.Join(q.args, ","), strings.Join(args, ","))
		}
	}
}

func exprString(e ast.Expr) string {
	switch x := e.(type) {
	case *ast.Ident:
		return x.Name
	case *ast.SelectorExpr:
		return exprString(x.X) + "." + x.Sel.Name
	case *ast.ArrayType:
		if x.Len == nil {
			return "[]" + exprString(x.Elt)
		}
		return "[" + exprString(x.Len) + "]" + exprString(x.Elt)
	case *ast.BasicLit:
		return x.Value
	case *ast.StarExpr:
		return "*" + exprString(x.X)
	case *ast.MapType:
		return "map[" + exprString(x.Key) + "]" + exprString(x.Value)
	case *ast.IndexExpr:
		return exprString(x.X) + "[" + exprString(x.Index) + "]"
	}
	return fmt.Sprintf("%T", e)
}

func init() {
	registerProg(&ProgCheck{
		ID: "C16", Family: "F-tables", Synth: fam.Tables,
		Bound:    map[string]int{"quick": 2, "thorough": 3},
		Deadline: map[string]time.Duration{"quick": 5 * time.Minute, "thorough": 45 * time.Minute},
		Rule:     "programs of F-tables (directive and declaration-style site groups included) within the deviation bound; non-trivial = the analysed structs carry at least one gomacro:SQL / gomacro:QUERY directive",
		Assumptions: []string{
			"a comment is carried by a declaration when it is the doc comment go/parser attaches to its TypeSpec, or to its GenDecl when the declaration is not grouped",
			"the /* Type.Const */ annotation the tool appends after an expanded placeholder is ignored when comparing",
			"placeholders of custom queries are of the form `Field = $name$`",
		},
		Eval: evalC16,
	})
}
