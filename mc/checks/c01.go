package checks

import (
	"fmt"
	"go/ast"
	"go/parser"
	"go/token"
	"go/types"
	"os"
	"path/filepath"
	"strings"
	"time"

	"github.com/benoitkugler/gomacro/analysis"
	"golang.org/x/tools/imports"
	"verif.test/mc/evid"
	"verif.test/mc/explore"
	"verif.test/mc/fam"
	"verif.test/mc/prog"
)

// C01: generated Go boilerplate always compiles with its source package.
// Oracle: x/tools/imports.Process (the library goimports is) then go/types on
// {source files + generated file}.

var pqStub *types.Package

// useRealGoimports switches from the in-memory model of goimports to x/tools/imports.Process
// (only meaningful for programs whose packages exist on disk).
var useRealGoimports = false

// pqPackage type-checks the stub of github.com/lib/pq (same API as the real one).
func pqPackage() (*types.Package, error) {
	if pqStub != nil {
		return pqStub, nil
	}
	dir := filepath.Join(evid.VerifDir, "mc", "stubs", "pq")
	fset := token.NewFileSet()
	ents, err := os.ReadDir(dir)
	if err != nil {
		return nil, err
	}
	var files []*ast.File
	for _, en := range ents {
		if !strings.HasSuffix(en.Name(), ".go") || strings.HasSuffix(en.Name(), "_test.go") {
			continue
		}
		f, err := parser.ParseFile(fset, filepath.Join(dir, en.Name()), nil, 0)
		if err != nil {
			return nil, err
		}
		files = append(files, f)
	}
	conf := types.Config{Importer: prog.StdImporter()}
	pkg, err := conf.Check("github.com/lib/pq", fset, files, nil)
	if err != nil {
		return nil, err
	}
	pqStub = pkg
	return pkg, nil
}

type genImporter struct {
	l  *prog.Loaded
	pq *types.Package
}

func (g genImporter) Import(path string) (*types.Package, error) {
	if path == "github.com/lib/pq" {
		return g.pq, nil
	}
	if p, ok := g.l.Pkgs[path]; ok {
		return p.Types, nil
	}
	return prog.StdImporter().Import(path)
}

// compileWithSource formats/fixes the generated text as goimports would and type-checks it
// together with the files of the root package. It returns the list of errors.
func compileWithSource(l *prog.Loaded, genName, text string) (fixed string, errs []string) {
	abs := filepath.Join(l.Prog.Dir(l.Prog.Root()), genName)
	var out []byte
	if useRealGoimports {
		o, err := imports.Process(abs, []byte(text), &imports.Options{Comments: true, TabIndent: true, TabWidth: 8, FormatOnly: false})
		if err != nil {
			return text, []string{"goimports: " + err.Error()}
		}
		out = o
	} else {
		o, err := fixImports(l, abs, text)
		if err != nil {
			return text, []string{"goimports: " + err.Error()}
		}
		out = []byte(o)
	}
	fset := token.NewFileSet()
	var files []*ast.File
	for _, f := range l.Prog.Root().Files {
		af, err := parser.ParseFile(fset, l.Prog.AbsFile(l.Prog.Root(), f.Name), f.Src, parser.SkipObjectResolution)
		if err != nil {
			return string(out), []string{"source: " + err.Error()}
		}
		files = append(files, af)
	}
	gf, err := parser.ParseFile(fset, abs, out, parser.SkipObjectResolution)
	if err != nil {
		return string(out), []string{"syntax: " + err.Error()}
	}
	files = append(files, gf)
	pq, err := pqPackage()
	if err != nil {
		return string(out), []string{"INTERNAL pq stub: " + err.Error()}
	}
	conf := types.Config{
		Importer: genImporter{l, pq},
		Error: func(err error) {
			if len(errs) < 6 {
				errs = append(errs, err.Error())
			}
		},
	}
	conf.Check(l.Root.PkgPath, fset, files, nil)
	return string(out), errs
}

// errClass normalises a type-checker message into a short class.
func errClass(msg string) string {
	if i := strings.Index(msg, ".go:"); i >= 0 {
		rest := msg[i+4:]
		if j := strings.Index(rest, ": "); j >= 0 {
			msg = rest[j+2:]
		}
	}
	// drop identifiers details after the first colon-less phrase
	words := strings.Fields(msg)
	if len(words) > 6 {
		words = words[:6]
	}
	return strings.Join(words, " ")
}

var goTargets = []string{prog.TGounions, prog.TRanddata, prog.TSqlcrud, prog.TSqlcrudS}

func evalC01(e *Eval) {
	an, pi := e.L.Analyse(0)
	if pi != nil {
		e.Res.Outcome = "analysis refused"
		return
	}
	outcome := ""
	for _, t := range goTargets {
		out, pi := e.L.RunTarget(t, []*analysis.Analysis{an})
		if pi != nil {
			outcome += "r"
			e.Count("refused:" + t)
			continue
		}
		e.Res.Nontrivial = true
		e.Res.Traces++
		fixed, errs := compileWithSource(e.L, "gen_"+strings.ReplaceAll(t, "+", "_")+".go", out[""])
		if len(errs) == 0 {
			outcome += "."
			continue
		}
		if strings.HasPrefix(errs[0], "INTERNAL") {
			e.Res.Internal = errs[0]
			return
		}
		outcome += "X"
		f := e.Prog.FilesMap()
		_ = f
		e.FailX("compiles", t+": "+errClass(errs[0]), fmt.Sprintf("output of %s does not type-check with its source package:\n%s\n--- generated (after goimports) ---\n%s", t, strings.Join(errs, "\n"), trunc(fixed, 6000)), "", strings.Join(errs, "\n"))
	}
	e.Res.Outcome = outcome
	if e.Cost == 1 && len(e.Prog.Features) > 0 {
		e.Res.Sample = map[string]any{"features": e.Prog.Features, "outcome(gounions,randdata,sqlcrud,sqlcrud+sets: .=compiles r=refused X=error)": outcome}
	}
}

func init() {
	noUnsup := func(c explore.Chooser) *prog.Program { return fam.TypesWith(c, fam.TypesOpt{}) }
	registerProg(&ProgCheck{
		ID: "C01", Family: "F-types", Synth: noUnsup,
		Bound:    map[string]int{"quick": 2, "thorough": 3},
		Deadline: map[string]time.Duration{"quick": 6 * time.Minute, "thorough": 50 * time.Minute},
		Rule:     "programs of F-types, F-tables (deviation bound) and F-enum (bound-1) x {gounions, randdata, sqlcrud, sqlcrud with generate-sets}; each accepted output is passed through x/tools/imports.Process and type-checked with go/types next to the source files; non-trivial = at least one generator accepted the program",
		Assumptions: []string{
			"golang.org/x/tools/imports v0.31.0 is the import-fixing pass (goimports is its CLI); package names equal the last path element",
			"github.com/lib/pq is replaced by a stub with the signatures the generated code uses",
			"user obligations documented by the generators (NewDateFrom / Time() for local date types) are supplied by the synthesiser",
		},
		Eval: evalC01,
		More: []*ProgCheck{
			{Family: "F-tables", Synth: fam.Tables, Bound: map[string]int{"quick": 2, "thorough": 3}},
			{Family: "F-enum", Synth: fam.Enum, Bound: map[string]int{"quick": 1, "thorough": 2}},
		},
	})
}
