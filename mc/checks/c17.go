package checks

import (
	"encoding/json"
	"fmt"
	"os"
	"path/filepath"
	"strings"
	"time"

	"github.com/benoitkugler/gomacro/analysis"
	"golang.org/x/tools/go/packages"
	"verif.test/mc/explore"
	"verif.test/mc/fam"
	"verif.test/mc/prog"
)

// C17: source loading maps every file to its package and a real common root.
// F-layout: real files in a scratch module, loaded through the real analysis.LoadSources.

var layoutDirs = []string{".", "a", "ab", "abc", "ab1", "ab2", "a/x", "ab/x"}

type layoutCase struct {
	Files []string // relative to the module root
	Cwd   string   // working directory of the call, relative to the module root ("" = the root)
	Spell string   // how the paths are spelled: clean, dotdot (dir/../dir/f.go), double-slash, dot (./)
	Abs   []bool
	Error string // "", missing, txt, type-error, two-modules
}

func synthLayout(c explore.Chooser) *prog.Program {
	s := c
	var lc layoutCase
	n := 1 + s.Choose("nfiles", 3)
	form := s.Choose("paths", 3) // all relative, all absolute, mixed
	for i := 0; i < n; i++ {
		d := layoutDirs[s.Choose(fmt.Sprintf("file%d.dir", i), len(layoutDirs))]
		name := []string{"f.go", "g.go"}[s.Choose(fmt.Sprintf("file%d.name", i), 2)]
		lc.Files = append(lc.Files, filepath.Join(d, name))
		lc.Abs = append(lc.Abs, form == 1 || (form == 2 && i%2 == 1))
	}
	lc.Spell = []string{"clean", "dotdot", "double-slash", "dot"}[s.Choose("spelling", 4)]
	lc.Error = []string{"", "missing", "txt", "type-error", "two-modules", "directory", "type-error-in-import", "type-error-in-transitive-import", "path-through-a-file", "trailing-separator", "name-too-long", "soft-type-error", "soft-type-error-in-import"}[s.Choose("error-case", 13)]
	// the working directory of the call: the module root, or a directory below it (relative paths then climb with ..)
	lc.Cwd = []string{"", "a", "ab/x"}[s.Choose("cwd", 3)]
	js, _ := json.Marshal(lc)
	feats := []string{fmt.Sprintf("files=%v", lc.Files), fmt.Sprintf("abs=%v", lc.Abs)}
	if lc.Cwd != "" {
		feats = append(feats, "cwd="+lc.Cwd)
	}
	if lc.Spell != "clean" {
		feats = append(feats, "spelling="+lc.Spell)
	}
	if lc.Error != "" {
		feats = append(feats, "error="+lc.Error)
	}
	return &prog.Program{Family: "F-layout", Features: feats, Notes: map[string]string{"layout": string(js)}}
}

var layoutRoot string

// layoutModule creates (once per process) the scratch module with every directory of the alphabet.
func layoutModule() (string, error) {
	if layoutRoot != "" {
		return layoutRoot, nil
	}
	tmp, err := os.MkdirTemp("", "gomacro-layout-")
	if err != nil {
		return "", err
	}
	tmp, _ = filepath.EvalSymlinks(tmp)
	cleanups = append(cleanups, func() { os.RemoveAll(tmp) })
	root := filepath.Join(tmp, "lay")
	write := func(rel, content string) {
		p := filepath.Join(tmp, rel)
		os.MkdirAll(filepath.Dir(p), 0o755)
		os.WriteFile(p, []byte(content), 0o644)
	}
	write("lay/go.mod", "module verif.test/lay\n\ngo 1.23.0\n")
	for _, d := range layoutDirs {
		pkg := filepath.Base(d)
		if d == "." {
			pkg = "lay"
		}
		write(filepath.Join("lay", d, "f.go"), fmt.Sprintf("package %s\n\ntype F struct {\n\tA int\n}\n", pkg))
		write(filepath.Join("lay", d, "g.go"), fmt.Sprintf("package %s\n\ntype G struct {\n\tB string\n}\n", pkg))
	}
	write("lay/bad/f.go", "package bad\n\ntype F struct {\n\tA undefinedType\n}\n")
	// a package that only fails inside a function body: its exported API is sound, so the packages
	// importing it (directly: imp, through mid: imp2) type-check
	write("lay/bad2/f.go", "package bad2\n\ntype T struct {\n\tA int\n}\n\nfunc helper() int {\n\treturn undefinedName + 1\n}\n")
	write("lay/mid/f.go", "package mid\n\nimport \"verif.test/lay/bad2\"\n\ntype M struct {\n\tT bad2.T\n}\n")
	write("lay/imp/f.go", "package imp\n\nimport \"verif.test/lay/bad2\"\n\ntype F struct {\n\tT bad2.T\n}\n")
	write("lay/imp2/f.go", "package imp2\n\nimport \"verif.test/lay/mid\"\n\ntype F struct {\n\tM mid.M\n}\n")
	// packages whose only type errors are of the kind go/types calls soft (unused import, unused variable)
	write("lay/soft/f.go", "package soft\n\nimport \"fmt\"\n\ntype F struct {\n\tA int\n}\n")
	write("lay/soft2/f.go", "package soft2\n\ntype T struct {\n\tA int\n}\n\nfunc helper() {\n\tunused := 1\n}\n")
	write("lay/softimp/f.go", "package softimp\n\nimport \"verif.test/lay/soft2\"\n\ntype F struct {\n\tT soft2.T\n}\n")
	write("lay/notes.txt", "not a go file\n")
	write("other/go.mod", "module verif.test/other\n\ngo 1.23.0\n")
	write("other/o.go", "package other\n\ntype O int\n")
	layoutRoot = root
	return root, os.Chdir(root)
}

func evalC17(e *Eval) {
	var lc layoutCase
	json.Unmarshal([]byte(e.Prog.Notes["layout"]), &lc)
	root, err := layoutModule()
	if err != nil {
		e.Res.Internal = err.Error()
		return
	}
	// legal spellings of the same files that are not in filepath.Clean form
	spell := func(rel string) string {
		dir, base := filepath.Dir(rel), filepath.Base(rel)
		switch lc.Spell {
		case "dotdot":
			if dir == "." {
				return "a/../" + base
			}
			return dir + "/../" + filepath.Base(dir) + "/" + base
		case "double-slash":
			if dir == "." {
				return ".//" + base
			}
			return dir + "//" + base
		case "dot":
			return "./" + rel
		}
		return rel
	}
	var args []string
	for i, f := range lc.Files {
		if lc.Abs[i] {
			args = append(args, root+"/"+spell(f))
		} else if lc.Cwd != "" {
			rel, _ := filepath.Rel(filepath.Join(root, lc.Cwd), filepath.Join(root, f))
			args = append(args, rel)
		} else {
			args = append(args, spell(f))
		}
	}
	if lc.Cwd != "" {
		if lc.Error != "" {
			return // the error cases are spelled relative to the module root: explored from there only
		}
		if err := os.Chdir(filepath.Join(root, lc.Cwd)); err != nil {
			e.Res.Internal = err.Error()
			return
		}
		defer os.Chdir(root)
	}
	switch lc.Error {
	case "missing":
		args = append(args, "a/nothere.go")
	case "txt":
		args = append(args, "notes.txt")
	case "type-error":
		args = append(args, "bad/f.go")
	case "two-modules":
		args = append(args, filepath.Join(root, "..", "other", "o.go"))
	case "directory":
		args = append(args, "ab")
	case "path-through-a-file": // stat fails with ENOTDIR, not ENOENT
		args = append(args, "a/f.go/x.go")
	case "trailing-separator":
		args = append(args, "a/f.go/")
	case "name-too-long": // ENAMETOOLONG
		args = append(args, "a/"+strings.Repeat("n", 300)+".go")
	case "soft-type-error":
		args = append(args, "soft/f.go")
	case "soft-type-error-in-import":
		args = append(args, "softimp/f.go")
	case "type-error-in-import":
		args = append(args, "imp/f.go")
	case "type-error-in-transitive-import":
		args = append(args, "imp2/f.go")
	}
	var (
		pkgs []*packages.Package
		dir  string
		lerr error
	)
	// LoadSources prints package errors on stderr: keep the worker's stderr small
	pi := prog.Guard(func() { pkgs, dir, lerr = analysis.LoadSources(args) })
	e.Res.Nontrivial = len(args) >= 2
	e.Res.Traces = 1
	desc := fmt.Sprintf("LoadSources(%v)", args)
	if pi != nil {
		e.Fail("no-crash", "LoadSources panics: "+trunc(pi.Msg, 60), desc+" panics: "+pi.String())
		e.Res.Outcome = "panic"
		return
	}
	if lc.Error != "" {
		if lerr == nil {
			e.Fail("errors-reported", "no error for "+lc.Error, desc+" returned no error although the last argument is a "+lc.Error+" case")
		}
		e.Res.Outcome = "error-case:" + lc.Error
		return
	}
	if lerr != nil {
		e.Fail("loads-existing-files", "error on existing files: "+trunc(normLayoutErr(lerr.Error(), root), 80), fmt.Sprintf("%s fails on existing Go files of one module: %v", desc, lerr))
		e.Res.Outcome = "error"
		return
	}
	e.Res.Outcome = "ok"
	if len(pkgs) != len(args) {
		e.Fail("package-per-file", "result length", fmt.Sprintf("%s returned %d packages", desc, len(pkgs)))
		return
	}
	for i, f := range lc.Files {
		abs := filepath.Join(root, f)
		found := false
		if pkgs[i] != nil {
			for _, g := range pkgs[i].GoFiles {
				if g == abs {
					found = true
				}
			}
		}
		if !found {
			name := "<nil>"
			if pkgs[i] != nil {
				name = pkgs[i].PkgPath
			}
			e.Fail("package-per-file", "file not in its package", fmt.Sprintf("%s: package %d (%s) does not list %s", desc, i, name, abs))
		}
		wantPath := "verif.test/lay"
		if d := filepath.Dir(f); d != "." {
			wantPath += "/" + filepath.ToSlash(d)
		}
		if pkgs[i] != nil && pkgs[i].PkgPath != wantPath {
			e.Fail("package-per-file", "wrong package", fmt.Sprintf("%s: package %d is %s, want %s", desc, i, pkgs[i].PkgPath, wantPath))
		}
	}
	st, serr := os.Stat(dir)
	if serr != nil || !st.IsDir() {
		e.Fail("root-exists", "root is not an existing directory", fmt.Sprintf("%s: root %q is not an existing directory", desc, strings.TrimPrefix(dir, root)))
		return
	}
	for _, f := range lc.Files {
		abs := filepath.Join(root, f)
		rel, rerr := filepath.Rel(dir, abs)
		if rerr != nil || strings.HasPrefix(rel, "..") {
			e.Fail("root-is-ancestor", "root is not an ancestor", fmt.Sprintf("%s: root %q is not an ancestor of %s", desc, strings.TrimPrefix(dir, root), f))
		}
	}
	if e.Cost <= 2 && len(args) == 2 {
		e.Res.Sample = map[string]any{"args": args, "root (relative to the module)": strings.TrimPrefix(dir, root)}
	}
}

func normLayoutErr(msg, root string) string {
	return strings.ReplaceAll(msg, filepath.Dir(root), "<tmp>")
}

var cleanups []func()

func init() {
	registerProg(&ProgCheck{
		ID: "C17", Family: "F-layout", Synth: synthLayout, NoLoad: true,
		Bound:    map[string]int{"quick": 4, "thorough": 6},
		Deadline: map[string]time.Duration{"quick": 6 * time.Minute, "thorough": 40 * time.Minute},
		Rule:     "file sets over the directories {., a, ab, abc, ab1, ab2, a/x, ab/x} of a scratch module on disk: 1..3 files (ordered, duplicates allowed), file f.go or g.go, paths relative / absolute / mixed, the call made from the module root or from a directory below it (a, ab/x: relative paths then start with a different number of ..), spelled clean / with dir/../dir / with a doubled separator / with ./, plus the error cases (missing file, .txt file, package with a type error, file of another module, a directory, type error in a package that is only imported directly or transitively, packages whose only type errors are soft ones (unused import; unused variable in an imported package), path through a file, trailing separator, name too long); every set within the deviation bound of the default (one relative file) is loaded with the real analysis.LoadSources; non-trivial = at least two arguments",
		Assumptions: []string{
			"each call runs the real go list (offline, GOFLAGS=-mod=mod); the worker's current directory is the module root",
		},
		Eval: evalC17,
	})
}

// ---------------------------------------------------------------------------------------------
// Loader conformance (DESIGN §3.4): the in-memory *packages.Package used by the other checks must
// be indistinguishable, for gomacro, from the one the real analysis.LoadSources builds. Programs
// of the in-process families are written to a scratch module, loaded by both paths, and analysis
// + every target must give byte-identical outputs.

// conformanceQuickSites: the site groups that change what the loader sees (packages, files,
// declaration forms); the quick tier leaves the other deviations (slot / column types, tags) to
// the thorough tier.
var conformanceQuickSites = []string{"root.pkgname", "sub.pkgname", "enum.form", "union.", "embedded", "decl.style", "second-file", "dart.root", "name.", "user.directive", "link.directive", "fk.form", "T1.loc", "T2", "reach", "I2", "Shape.", "family"}

func conformanceSynth(base func(explore.Chooser) *prog.Program) func(explore.Chooser) *prog.Program {
	return func(c explore.Chooser) *prog.Program {
		p := base(c)
		if currentTier != "thorough" {
			for _, f := range p.Features {
				keep := false
				for _, s := range conformanceQuickSites {
					if strings.HasPrefix(f, s) {
						keep = true
					}
				}
				if !keep {
					p = base(&explore.Fixed{}) // collapse onto the scaffold (de-duplicated by the enumeration)
					break
				}
			}
		}
		p.Family = "F-conformance/" + p.Family
		return p
	}
}

var conformanceTmp string

// loadFromDisk writes the program of e to a scratch tree and loads it with the real analysis.LoadSources.
func loadFromDisk(e *Eval) (disk *prog.Loaded, files []string, err error) {
	if conformanceTmp == "" {
		tmp, err := os.MkdirTemp("", "gomacro-conf-")
		if err != nil {
			return nil, nil, err
		}
		tmp, _ = filepath.EvalSymlinks(tmp)
		conformanceTmp = tmp
		cleanups = append(cleanups, func() { os.RemoveAll(tmp) })
	}
	p := e.Prog
	srcRoot := strings.TrimPrefix(p.Dir(p.Root()), "/virt")
	srcRoot = srcRoot[:strings.Index(srcRoot, prog.Module)]
	modRoot := filepath.Join(conformanceTmp, srcRoot, prog.Module)
	os.RemoveAll(filepath.Join(conformanceTmp, "go"))
	os.RemoveAll(filepath.Join(conformanceTmp, "work"))
	os.MkdirAll(modRoot, 0o755)
	os.WriteFile(filepath.Join(modRoot, "go.mod"), []byte("module "+prog.Module+"\n\ngo 1.23.0\n"), 0o644)
	for _, pk := range p.Pkgs {
		dir := filepath.Join(modRoot, strings.TrimPrefix(pk.Path, prog.Module))
		os.MkdirAll(dir, 0o755)
		for _, f := range pk.Files {
			os.WriteFile(filepath.Join(dir, f.Name), []byte(f.Src), 0o644)
		}
	}
	rootDir := filepath.Join(modRoot, strings.TrimPrefix(p.Root().Path, prog.Module))
	for _, a := range p.Analysed {
		files = append(files, filepath.Join(rootDir, a))
	}
	pkgs, _, err := analysis.LoadSources(files)
	if err != nil {
		return nil, files, fmt.Errorf("real loader rejects a synthesised program (features %v): %v", p.Features, err)
	}
	return &prog.Loaded{Prog: p, Root: pkgs[0], RootFiles: files, DiskDir: rootDir}, files, nil
}

func evalConformance(e *Eval) {
	disk, files, err := loadFromDisk(e)
	if err != nil {
		e.Res.Internal = err.Error()
		return
	}
	e.Res.Nontrivial = true
	e.Res.Traces = 1
	same := 0
	stages := append([]string{prog.StAnalysis}, prog.AllTargets...)
	var memAns, diskAns []*analysis.Analysis
	for i := range files {
		am, pm := e.L.Analyse(i)
		ad, pd := disk.Analyse(i)
		if (pm == nil) != (pd == nil) || (pm != nil && pm.Msg != pd.Msg) {
			e.Fail("loader-conformance", "analysis differs", fmt.Sprintf("analysis outcome in memory: %s; from disk: %s", pm, pd))
			return
		}
		if pm != nil {
			e.Res.Outcome = "refused by both"
			return
		}
		memAns, diskAns = append(memAns, am), append(diskAns, ad)
	}
	for _, t := range stages[1:] {
		om, pm := e.L.RunTarget(t, memAns)
		od, pd := disk.RunTarget(t, diskAns)
		if (pm == nil) != (pd == nil) {
			e.Fail("loader-conformance", t+": outcome differs", fmt.Sprintf("target %s in memory: %s; from disk: %s", t, pm, pd))
			continue
		}
		if pm != nil {
			continue
		}
		ok := len(om) == len(od)
		for k, v := range om {
			if od[k] != v {
				ok = false
			}
		}
		if !ok {
			e.Fail("loader-conformance", t+": output differs", fmt.Sprintf("target %s gives different text through the in-memory loader and through LoadSources", t))
		} else {
			same++
		}
	}
	e.Res.Outcome = fmt.Sprintf("identical targets=%d", same)
}

func init() {
	pc := progChecks["C17"]
	b := map[string]int{"quick": 1, "thorough": 1}
	pc.More = append(pc.More,
		&ProgCheck{Family: "F-conformance/F-types", Synth: conformanceSynth(func(c explore.Chooser) *prog.Program { return fam.TypesWith(c, fam.TypesOpt{NoUnsupported: true}) }), Bound: b, Eval: evalConformance},
		&ProgCheck{Family: "F-conformance/F-tables", Synth: conformanceSynth(fam.Tables), Bound: b, Eval: evalConformance},
		&ProgCheck{Family: "F-conformance/F-enum", Synth: conformanceSynth(fam.Enum), Bound: b, Eval: evalConformance},
		&ProgCheck{Family: "F-conformance/F-union", Synth: conformanceSynth(fam.Union), Bound: b, Eval: evalConformance},
	)
	pc.Rule += "; plus the loader-conformance pass: every program of F-types / F-tables / F-enum / F-union within 1 deviation is written to disk, loaded by the real LoadSources and by the in-memory loader of the other checks, and analysis + 7 targets must give byte-identical outputs"
}
