package checks

import (
	"fmt"
	"go/ast"
	"go/format"
	"go/parser"
	"go/token"
	"sort"
	"strconv"
	"strings"

	"verif.test/mc/prog"
)

// fixImports is a model of what goimports (x/tools/imports.Process) does to a generated file
// inside its module: syntax errors are reported, unused imports are removed, missing ones are
// added by package name - first among the packages of the program (the module), then among the
// standard library packages below. (The real imports.Process cannot see the virtual packages of
// an in-memory program; the compiled tier runs the real one on disk.)
var stdByName = map[string]string{
	"json": "encoding/json", "errors": "errors", "fmt": "fmt", "strings": "strings", "strconv": "strconv",
	"time": "time", "sql": "database/sql", "driver": "database/sql/driver", "rand": "math/rand",
	"pq": "github.com/lib/pq", "sort": "sort", "bytes": "bytes", "math": "math", "os": "os",
}

func fixImports(l *prog.Loaded, filename, src string) (string, error) {
	fset := token.NewFileSet()
	f, err := parser.ParseFile(fset, filename, src, parser.ParseComments)
	if err != nil {
		return "", err
	}
	nameOf := func(path string) string {
		if p, ok := l.Pkgs[path]; ok {
			return p.Name
		}
		for n, p := range stdByName {
			if p == path {
				return n
			}
		}
		if sp, err := prog.StdImporter().Import(path); err == nil {
			return sp.Name()
		}
		return path[strings.LastIndex(path, "/")+1:]
	}
	// used qualifiers: unresolved identifiers X in X.Sel that are not objects of the package
	used := map[string]bool{}
	ast.Inspect(f, func(n ast.Node) bool {
		if sel, ok := n.(*ast.SelectorExpr); ok {
			if id, ok := sel.X.(*ast.Ident); ok && id.Obj == nil {
				if obj := l.Root.Types.Scope().Lookup(id.Name); obj == nil {
					used[id.Name] = true
				}
			}
		}
		return true
	})
	type imp struct{ alias, path string }
	var keep []imp
	have := map[string]bool{}
	for _, is := range f.Imports {
		path, _ := strconv.Unquote(is.Path.Value)
		name := nameOf(path)
		alias := ""
		if is.Name != nil {
			alias = is.Name.Name
			name = alias
		}
		if name == "_" || name == "." || used[name] {
			if !have[name+" "+path] {
				keep = append(keep, imp{alias, path})
				have[name+" "+path] = true
			}
			delete(used, name)
		}
	}
	var missing []string
	for q := range used {
		missing = append(missing, q)
	}
	sort.Strings(missing)
	for _, q := range missing {
		found := ""
		var cands []string
		for path, p := range l.Pkgs {
			if p.Name == q && path != l.Root.PkgPath {
				cands = append(cands, path)
			}
		}
		sort.Strings(cands)
		if len(cands) > 0 {
			found = cands[0]
		} else if p, ok := stdByName[q]; ok {
			found = p
		}
		if found != "" {
			keep = append(keep, imp{"", found})
		}
	}
	// drop the import declarations and print a single block
	var decls []ast.Decl
	for _, d := range f.Decls {
		if gd, ok := d.(*ast.GenDecl); ok && gd.Tok == token.IMPORT {
			continue
		}
		decls = append(decls, d)
	}
	f.Decls = decls
	f.Imports = nil
	var body strings.Builder
	if err := format.Node(&body, fset, f); err != nil {
		return "", err
	}
	text := body.String()
	sort.Slice(keep, func(i, j int) bool { return keep[i].path < keep[j].path })
	var ib strings.Builder
	if len(keep) > 0 {
		ib.WriteString("\nimport (\n")
		for _, k := range keep {
			if k.alias != "" {
				fmt.Fprintf(&ib, "\t%s %q\n", k.alias, k.path)
			} else {
				fmt.Fprintf(&ib, "\t%q\n", k.path)
			}
		}
		ib.WriteString(")\n")
	}
	// insert after the package clause line
	idx := strings.Index(text, "\npackage ")
	start := 0
	if strings.HasPrefix(text, "package ") {
		idx = -1
	}
	if idx >= 0 {
		start = idx + 1
	}
	eol := strings.Index(text[start:], "\n")
	if eol < 0 {
		return text + ib.String(), nil
	}
	pos := start + eol + 1
	return text[:pos] + ib.String() + text[pos:], nil
}
