package checks

import (
	"fmt"
	"go/ast"
	"go/token"
	"go/types"
	"reflect"
	"strings"
	"time"

	"github.com/benoitkugler/gomacro/analysis"
	"verif.test/mc/fam"
)

// C12: the analysed type graph is closed, faithful and finite.
// Reference: a paired walk over go/types and the analysis nodes, starting from
// the type declarations of the analysed file found in the syntax tree.

const timeStructString = "struct{wall uint64; ext int64; loc *time.Location}"

func isTimeLike(t types.Type) bool { return t.Underlying().String() == timeStructString }

// identicalModTime compares a reconstructed type with the original, time.Time
// being reported as the predefined placeholder named Time (Date for date types).
func identicalModTime(got, orig types.Type) bool {
	orig = types.Unalias(orig)
	if n, ok := orig.(*types.Named); ok && isTimeLike(orig) && n.Obj().Pkg() != nil && n.Obj().Pkg().Path() == "time" {
		g, ok := got.(*types.Named)
		return ok && g.Obj().Pkg() == nil && g.Obj().Name() == "Time"
	}
	switch o := orig.(type) {
	case *types.Slice:
		g, ok := got.(*types.Slice)
		return ok && identicalModTime(g.Elem(), o.Elem())
	case *types.Array:
		g, ok := got.(*types.Array)
		return ok && g.Len() == o.Len() && identicalModTime(g.Elem(), o.Elem())
	case *types.Map:
		g, ok := got.(*types.Map)
		return ok && identicalModTime(g.Key(), o.Key()) && identicalModTime(g.Elem(), o.Elem())
	case *types.Pointer:
		g, ok := got.(*types.Pointer)
		return ok && identicalModTime(g.Elem(), o.Elem())
	}
	return types.Identical(got, orig)
}

// flatFields lists the fields the analysis is expected to report for a struct:
// embedded named structs without a JSON name are flattened, recursively (encoding/json's rule).
func flatFields(st *types.Struct, enums map[*types.Named]*refEnum, unions map[*types.Named][]*types.Named) []*types.Var {
	var out []*types.Var
	for i := 0; i < st.NumFields(); i++ {
		f := st.Field(i)
		jsonName, _, _ := strings.Cut(reflect.StructTag(st.Tag(i)).Get("json"), ",")
		if f.Embedded() && jsonName == "" { // as encoding/json: a JSON name prevents flattening
			ft := types.Unalias(f.Type())
			if n, ok := ft.(*types.Named); ok && !isTimeLike(ft) {
				if inner, ok := n.Underlying().(*types.Struct); ok {
					out = append(out, flatFields(inner, enums, unions)...)
					continue
				}
			}
		}
		out = append(out, f)
	}
	return out
}

type c12walker struct {
	e      *Eval
	an     *analysis.Analysis
	enums  map[*types.Named]*refEnum
	unions map[*types.Named][]*types.Named
	seen   map[string]bool
	nodes  int
}

func (w *c12walker) fail(clause, sig, detail string) { w.e.Fail(clause, sig, detail) }

func nodeClass(n analysis.Type) string {
	if n == nil {
		return "<nil>"
	}
	return strings.TrimPrefix(fmt.Sprintf("%T", n), "*analysis.")
}

// check verifies that node describes t, and recurses along every link.
func (w *c12walker) check(t types.Type, node analysis.Type, path string) {
	key := fmt.Sprintf("%p|%p", t, node)
	if w.seen[key] {
		return
	}
	w.seen[key] = true
	w.nodes++
	if node == nil {
		w.fail("closed", "nil link", fmt.Sprintf("%s: link to a nil node for type %s", path, t))
		return
	}
	// closure + memo consistency
	// closure. (The node registered in Types may be another node than the one reached through a
	// link - a union that contains itself is built twice; both are walked and must describe t.)
	if _, ok := w.an.Types[t]; !ok {
		w.fail("closed", "reachable type missing from Types: "+nodeClass(node), fmt.Sprintf("%s: reachable type %s is not a key of Analysis.Types", path, t))
	}
	ut := types.Unalias(t)
	// round trip through Type()
	var back types.Type
	func() {
		defer func() {
			if v := recover(); v != nil {
				w.fail("type-roundtrip", "Type() panics", fmt.Sprintf("%s: Type() of the node for %s panics: %v", path, t, v))
			}
		}()
		back = node.Type()
	}()
	if back != nil && !identicalModTime(back, ut) {
		w.fail("type-roundtrip", "Type() not identical: "+nodeClass(node), fmt.Sprintf("%s: node for %s converts back to %s", path, ut, back))
	}
	wantClass := ""
	named, isNamed := ut.(*types.Named)
	switch {
	case isTimeLike(ut) && isNamed && named.Obj().Pkg().Path() == "time":
		wantClass = "Time"
	case isTimeLike(ut) && isNamed:
		wantClass = "Named"
	case isNamed && w.enums[named] != nil:
		wantClass = "Enum"
	case isNamed && w.unions[named] != nil:
		wantClass = "Union"
	case isNamed:
		if _, isSt := named.Underlying().(*types.Struct); isSt {
			wantClass = "Struct"
		} else {
			wantClass = "Named"
		}
	default:
		switch ut.Underlying().(type) {
		case *types.Pointer:
			wantClass = "Pointer"
		case *types.Basic:
			wantClass = "Basic"
		case *types.Array, *types.Slice:
			wantClass = "Array"
		case *types.Map:
			wantClass = "Map"
		default:
			wantClass = "unsupported"
		}
	}
	if got := nodeClass(node); got != wantClass {
		w.fail("classified", fmt.Sprintf("class %s want %s", got, wantClass), fmt.Sprintf("%s: type %s is classified %s, go/types says %s", path, ut, got, wantClass))
		return
	}
	switch n := node.(type) {
	case *analysis.Time:
		if n.IsDate {
			w.fail("classified", "time.Time flagged date", path+": time.Time is flagged as a date")
		}
	case *analysis.Named:
		if isTimeLike(ut) {
			ti, ok := n.Underlying.(*analysis.Time)
			wantDate := strings.Contains(strings.ToLower(named.Obj().Name()), "date")
			if !ok || ti.IsDate != wantDate {
				w.fail("classified", "custom time type", fmt.Sprintf("%s: %s should be a named time (date=%v)", path, ut, wantDate))
			}
			return
		}
		w.check(named.Underlying(), n.Underlying, path+".underlying")
	case *analysis.Basic:
		b := ut.Underlying().(*types.Basic)
		if n.B != b {
			w.fail("classified", "basic kind", fmt.Sprintf("%s: basic %s reported as %s", path, b, n.B))
		}
		// the kind the node answers is the one go/types reports for the basic type
		var want analysis.BasicKind
		known := true
		switch info := b.Info(); {
		case info&types.IsBoolean != 0:
			want = analysis.BKBool
		case info&types.IsInteger != 0:
			want = analysis.BKInt
		case info&types.IsFloat != 0:
			want = analysis.BKFloat
		case info&types.IsString != 0:
			want = analysis.BKString
		default:
			known = false // complex, unsafe.Pointer: no kind is defined (Kind refuses them)
		}
		if known {
			func() {
				defer func() {
					if v := recover(); v != nil {
						w.fail("classified", "basic kind refused", fmt.Sprintf("%s: Kind() of the node for %s panics: %v", path, b, v))
					}
				}()
				if got := n.Kind(); got != want {
					w.fail("classified", "basic kind value", fmt.Sprintf("%s: basic %s answers kind %d, go/types reports %d (bool, int, float, string = %d, %d, %d, %d)", path, b, got, want, analysis.BKBool, analysis.BKInt, analysis.BKFloat, analysis.BKString))
				}
			}()
		}
	case *analysis.Pointer:
		w.check(ut.Underlying().(*types.Pointer).Elem(), n.Elem, path+".elem")
	case *analysis.Array:
		switch u := ut.Underlying().(type) {
		case *types.Array:
			if int64(n.Len) != u.Len() {
				w.fail("classified", "array length", fmt.Sprintf("%s: array %s reported with length %d", path, ut, n.Len))
			}
			w.check(u.Elem(), n.Elem, path+".elem")
		case *types.Slice:
			if n.Len != -1 {
				w.fail("classified", "slice length", fmt.Sprintf("%s: slice %s reported with length %d", path, ut, n.Len))
			}
			w.check(u.Elem(), n.Elem, path+".elem")
		}
	case *analysis.Map:
		u := ut.Underlying().(*types.Map)
		w.check(u.Key(), n.Key, path+".key")
		w.check(u.Elem(), n.Elem, path+".elem")
	case *analysis.Struct:
		want := flatFields(named.Underlying().(*types.Struct), w.enums, w.unions)
		if len(want) != len(n.Fields) {
			w.fail("links-consistent", "struct field count", fmt.Sprintf("%s: struct %s has %d fields (embedded structs flattened), node lists %d", path, ut, len(want), len(n.Fields)))
			return
		}
		// the type of a flattened embedded field is reachable through that field: it has its own node
		st := named.Underlying().(*types.Struct)
		for i := 0; i < st.NumFields(); i++ {
			f := st.Field(i)
			jsonName, _, _ := strings.Cut(reflect.StructTag(st.Tag(i)).Get("json"), ",")
			ft := types.Unalias(f.Type())
			if _, isStruct := ft.Underlying().(*types.Struct); !f.Embedded() || jsonName != "" || !isStruct || isTimeLike(ft) {
				continue
			}
			if _, isNamed := ft.(*types.Named); !isNamed {
				continue
			}
			sub, ok := w.an.Types[ft]
			if !ok {
				w.fail("closed", "embedded struct type missing from Types", fmt.Sprintf("%s.%s: the embedded (flattened) struct type %s is not a key of Analysis.Types", path, f.Name(), ft))
				continue
			}
			w.check(ft, sub, path+"."+f.Name()+"<embedded>")
		}
		for i, f := range want {
			if n.Fields[i].Field != f {
				w.fail("links-consistent", "struct field identity", fmt.Sprintf("%s: field %d of %s is %s, node lists %s", path, i, ut, f.Name(), n.Fields[i].Field.Name()))
				continue
			}
			w.check(f.Type(), n.Fields[i].Type, path+"."+f.Name())
		}
	case *analysis.Union:
		want := w.unions[named]
		if len(want) != len(n.Members) {
			w.fail("links-consistent", "union member count", fmt.Sprintf("%s: union %s has %d members, node lists %d", path, ut, len(want), len(n.Members)))
			return
		}
		for i, m := range want {
			w.check(m, n.Members[i], fmt.Sprintf("%s.member[%s]", path, m.Obj().Name()))
		}
	case *analysis.Enum:
		if n.Type() != ut {
			w.fail("links-consistent", "enum identity", path+": enum node of another type")
		}
	}
}

// sourceDecls lists the types declared at top level in the file, in source order.
func sourceDecls(e *Eval, fileIdx int) []types.Type {
	abs := e.L.RootFiles[fileIdx]
	var out []types.Type
	for _, f := range e.L.Root.Syntax {
		if e.L.Fset.File(f.Pos()).Name() != abs {
			continue
		}
		for _, d := range f.Decls {
			gd, ok := d.(*ast.GenDecl)
			if !ok || gd.Tok != token.TYPE {
				continue
			}
			for _, sp := range gd.Specs {
				ts := sp.(*ast.TypeSpec)
				if obj := e.L.Root.TypesInfo.Defs[ts.Name]; obj != nil {
					out = append(out, obj.Type())
				}
			}
		}
	}
	return out
}

func evalC12(e *Eval) {
	enums, unions := refEnums(e.L), refUnions(e.L)
	total := 0
	for i := range e.L.RootFiles {
		an, pi := e.L.Analyse(i)
		if pi != nil {
			if pi.Runtime {
				e.Fail("analysis-completes", pi.Where, "analysis died with a runtime error: "+pi.String())
				e.Res.Outcome = "crash"
			} else {
				e.Res.Outcome = "refused: " + trunc(pi.Msg, 30)
			}
			return
		}
		want := sourceDecls(e, i)
		if len(want) != len(an.Source) {
			e.Fail("source-order", "source count", fmt.Sprintf("file declares %d types, Source lists %d", len(want), len(an.Source)))
		} else {
			for k := range want {
				if want[k] != an.Source[k] {
					e.Fail("source-order", "source order", fmt.Sprintf("Source[%d] is %s, the %d-th declaration of the file is %s", k, an.Source[k], k, want[k]))
					break
				}
			}
		}
		w := &c12walker{e: e, an: an, enums: enums, unions: unions, seen: map[string]bool{}}
		for _, t := range want {
			w.check(t, an.Types[t], "Source["+t.String()+"]")
		}
		// every node reachable from the result table describes its key
		for t, node := range an.Types {
			w.check(t, node, "Types["+t.String()+"]")
		}
		total += w.nodes
	}
	e.Res.Nontrivial = true
	e.Res.Outcome = fmt.Sprintf("ok nodes~%d", total/10*10)
	if e.Cost == 1 && len(e.Prog.Features) > 0 {
		e.Res.Sample = map[string]any{"features": e.Prog.Features, "paired (type,node) checks": total}
	}
}

func init() {
	registerProg(&ProgCheck{
		ID: "C12", Family: "F-types", Synth: fam.Types,
		Bound:       map[string]int{"quick": 2, "thorough": 3},
		Deadline:    map[string]time.Duration{"quick": 5 * time.Minute, "thorough": 45 * time.Minute},
		FatalClause: "terminates",
		Rule:        "programs of F-types (incl. recursive, alias, generic, named-over-named forms), F-union and F-enum within the deviation bound; for each, a paired walk (go/types type, analysis node) from the file's declarations and from every entry of Analysis.Types; non-trivial = analysis accepted the program",
		Assumptions: []string{"time.Time is recognised by the text of its underlying struct, as the implementation does"},
		Eval:        evalC12,
		More: []*ProgCheck{
			{Family: "F-union", Synth: fam.Union, Bound: map[string]int{"quick": 2, "thorough": 3}},
			{Family: "F-enum", Synth: fam.Enum, Bound: map[string]int{"quick": 2, "thorough": 3}},
		},
	})
}
