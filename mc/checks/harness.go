package checks

import (
	"bufio"
	"bytes"
	"encoding/json"
	"fmt"
	"io"
	"os"
	"os/exec"
	"runtime"
	"runtime/debug"
	"sort"
	"strconv"
	"strings"
	"sync"
	"time"

	"verif.test/mc/evid"
	"verif.test/mc/explore"
	"verif.test/mc/prog"
)

// ProgCheck is a check that enumerates programs of a family up to a deviation
// bound and evaluates an oracle on each of them inside worker processes.
type ProgCheck struct {
	ID          string
	Family      string
	Synth       func(c explore.Chooser) *prog.Program
	Bound       map[string]int           // tier -> deviation bound
	Deadline    map[string]time.Duration // tier -> global deadline (exit 0, exhaustive=false when hit)
	Rule        string
	Assumptions []string
	Eval        func(e *Eval) // runs in a worker
	// FatalClause, when set, turns a worker death on a program into a failure of this clause.
	FatalClause string
	// NoLoad: the program is not Go sources to load in memory (C17 works on disk)
	NoLoad bool
	// Extra families explored with the same oracle
	More []*ProgCheck
}

type Result struct {
	Idx        int
	Failures   []evid.Failure
	Outcome    string
	Nontrivial bool
	Fatal      string
	Internal   string
	Counts     map[string]int
	Sample     any
	Traces     int
}

type Eval struct {
	Check *ProgCheck
	Tier  string
	Prog  *prog.Program
	L     *prog.Loaded
	Res   *Result
	Vec   []int
	Cost  int

	customStatements []string // left by the C08 oracle for C16
}

func (e *Eval) Fail(clause, sig, detail string) {
	e.FailX(clause, sig, detail, "", "")
}

func (e *Eval) FailX(clause, sig, detail, expected, observed string) {
	e.Res.Failures = append(e.Res.Failures, evid.Failure{
		Clause: e.Check.ID + "/" + clause, Sig: sig, Detail: detail, Family: e.Check.Family,
		Vector: e.Vec, Cost: e.Cost, Features: e.Prog.Features, Files: e.Prog.FilesMap(),
		Expected: expected, Observed: observed,
	})
}

func (e *Eval) Count(k string) {
	if e.Res.Counts == nil {
		e.Res.Counts = map[string]int{}
	}
	e.Res.Counts[k]++
}

var progChecks = map[string]*ProgCheck{}

func registerProg(pc *ProgCheck) {
	progChecks[pc.ID] = pc
	registry[pc.ID] = func(tier string) *evid.Report { return runProgCheck(pc, tier) }
}

func parseVec(s string) []int {
	if s == "" || s == "-" {
		return nil
	}
	parts := strings.Split(s, ".")
	out := make([]int, len(parts))
	for i, p := range parts {
		out[i], _ = strconv.Atoi(p)
	}
	return out
}

func (pc *ProgCheck) family(name string) *ProgCheck {
	if pc.Family == name {
		return pc
	}
	for _, m := range pc.More {
		if m.Family == name {
			if m.Eval == nil {
				m.Eval = pc.Eval
			}
			m.ID = pc.ID
			return m
		}
	}
	return nil
}

// evalOne synthesises, loads and evaluates one vector (worker side, also used by replay).
func evalOne(pc *ProgCheck, tier string, idx int, vec []int) (res Result) {
	res.Idx = idx
	defer func() {
		if v := recover(); v != nil {
			res.Internal = fmt.Sprintf("panic in harness on vector %v: %v\n%s", vec, v, debug.Stack())
		}
	}()
	p := pc.Synth(&explore.Fixed{Vec: vec})
	var l *prog.Loaded
	if !pc.NoLoad {
		if err := p.Gofmt(); err != nil {
			res.Internal = err.Error()
			return
		}
		var err error
		l, err = prog.Load(p)
		if err != nil {
			res.Internal = fmt.Sprintf("synthesised program (vector %v, features %v) is not well typed: %v", vec, p.Features, err)
			return
		}
	}
	e := &Eval{Check: pc, Tier: tier, Prog: p, L: l, Res: &res, Vec: vec, Cost: explore.Cost(vec)}
	pc.Eval(e)
	return
}

// WorkerMain: mc worker <ID> <tier>; reads "<idx> <family> <vec>" lines, writes one JSON result per line.
func WorkerMain(args []string) {
	debug.SetMaxStack(128 << 20)
	debug.SetMemoryLimit(3 << 30)
	runtime.GOMAXPROCS(2)
	prog.StageMarks = true
	root := progChecks[args[0]]
	tier := args[1]
	currentTier = tier
	in := bufio.NewScanner(os.Stdin)
	in.Buffer(make([]byte, 1<<20), 1<<20)
	out := bufio.NewWriter(os.Stdout)
	enc := json.NewEncoder(out)
	for in.Scan() {
		f := strings.Fields(in.Text())
		idx, _ := strconv.Atoi(f[0])
		pc := root.family(f[1])
		res := evalOne(pc, tier, idx, parseVec(f[2]))
		enc.Encode(res)
		out.Flush()
	}
	for _, f := range cleanups {
		f()
	}
	os.Exit(0)
}

type job struct {
	idx    int
	family string
	vec    []int
	cost   int
	hash   string
}

type worker struct {
	cmd    *exec.Cmd
	stdin  io.WriteCloser
	stdout *bufio.Reader
	stderr *bytes.Buffer
}

func startWorker(id, tier string) (*worker, error) {
	cmd := exec.Command(os.Args[0], "worker", id, tier)
	w := &worker{cmd: cmd, stderr: &bytes.Buffer{}}
	var err error
	if w.stdin, err = cmd.StdinPipe(); err != nil {
		return nil, err
	}
	so, err := cmd.StdoutPipe()
	if err != nil {
		return nil, err
	}
	w.stdout = bufio.NewReaderSize(so, 1<<20)
	cmd.Stderr = w.stderr
	if err := cmd.Start(); err != nil {
		return nil, err
	}
	return w, nil
}

func (w *worker) kill() {
	w.stdin.Close() // the worker exits (and cleans up) at end of input
	done := make(chan struct{})
	go func() { w.cmd.Wait(); close(done) }()
	select {
	case <-done:
	case <-time.After(3 * time.Second):
		w.cmd.Process.Kill()
		<-done
	}
}

const jobTimeout = 180 * time.Second

// run one job; on worker death returns a Fatal result and ok=false (worker must be restarted).
func (w *worker) run(j job) (Result, bool) {
	w.stderr.Reset()
	fmt.Fprintf(w.stdin, "%d %s %s\n", j.idx, j.family, vecArg(j.vec))
	type rd struct {
		line []byte
		err  error
	}
	ch := make(chan rd, 1)
	go func() {
		line, err := w.stdout.ReadBytes('\n')
		ch <- rd{line, err}
	}()
	select {
	case r := <-ch:
		if r.err != nil {
			w.cmd.Wait()
			return Result{Idx: j.idx, Fatal: fatalLine(w.stderr.String())}, false
		}
		var res Result
		if err := json.Unmarshal(r.line, &res); err != nil {
			return Result{Idx: j.idx, Internal: "bad worker reply: " + err.Error()}, true
		}
		return res, true
	case <-time.After(jobTimeout):
		w.cmd.Process.Kill()
		w.cmd.Wait()
		return Result{Idx: j.idx, Fatal: fmt.Sprintf("no result after %s (non-termination)", jobTimeout)}, false
	}
}

func vecArg(v []int) string {
	if len(v) == 0 {
		return "-"
	}
	return explore.VecString(v)
}

func fatalLine(stderr string) string {
	stage := ""
	for _, l := range strings.Split(stderr, "\n") {
		if strings.HasPrefix(l, "STAGE ") {
			stage = "stage " + strings.TrimPrefix(l, "STAGE ") + ": "
		}
	}
	return stage + fatalLine0(stderr)
}

func fatalLine0(stderr string) string {
	for _, l := range strings.Split(stderr, "\n") {
		if strings.HasPrefix(l, "fatal error:") || strings.HasPrefix(l, "runtime:") || strings.HasPrefix(l, "panic:") {
			if strings.Contains(l, "goroutine stack exceeds") {
				return "fatal error: stack overflow"
			}
			return strings.TrimSpace(l)
		}
	}
	if len(stderr) > 300 {
		stderr = stderr[:300]
	}
	return "worker died: " + stderr
}

func nWorkers() int {
	n := runtime.NumCPU()
	if n > 16 {
		n = 16
	}
	if v, err := strconv.Atoi(os.Getenv("VERIF_WORKERS")); err == nil && v > 0 {
		n = v
	}
	return n
}

func runProgCheck(pc *ProgCheck, tier string) *evid.Report {
	r := evid.NewReport(pc.ID, tier)
	r.Rule = pc.Rule
	r.Assumptions = pc.Assumptions
	deadline := 25 * time.Minute
	if d, ok := pc.Deadline[tier]; ok {
		deadline = d
	}
	stopAt := r.Start.Add(deadline)

	// 1. enumerate distinct programs (synthesis only)
	fams := append([]*ProgCheck{pc}, pc.More...)
	var jobs []job
	seen := map[string]int{}
	st := explore.Stats{}
	for _, fc := range fams {
		bound := fc.Bound[tier]
		r.Bounds["deviation_bound_"+fc.Family] = bound
		var sites map[string]int = map[string]int{}
		explore.Enumerate(bound, func(c explore.Chooser) {
			p := fc.Synth(c)
			run := c.(*explore.Run)
			h := fc.Family + ":" + p.Hash()
			cost := explore.Cost(run.Choices)
			if i, ok := seen[h]; ok {
				if jobs[i].cost > cost {
					jobs[i].cost = cost
					jobs[i].vec = run.Vec()
				}
				return
			}
			seen[h] = len(jobs)
			jobs = append(jobs, job{family: fc.Family, vec: run.Vec(), cost: cost, hash: h})
			for _, pt := range run.Points {
				if pt.N > sites[pt.Site] {
					sites[pt.Site] = pt.N
				}
			}
		}, func(run *explore.Run) {}, &st)
		nalt := 0
		for _, n := range sites {
			nalt += n - 1
		}
		r.Bounds["sites_"+fc.Family] = len(sites)
		r.Bounds["alternatives_"+fc.Family] = nalt
	}
	r.Transitions = st.Transitions
	r.Bounds["vectors_enumerated"] = st.Runs
	sort.SliceStable(jobs, func(i, j int) bool { return jobs[i].cost < jobs[j].cost })
	for i := range jobs {
		jobs[i].idx = i
	}
	perCost := map[int]int{}
	for _, j := range jobs {
		perCost[j.cost]++
	}
	r.Bounds["programs_per_deviation_count"] = perCost

	// 2. evaluate in worker processes
	results := make([]*Result, len(jobs))
	// which worker process evaluated a job, and after which others (for history-dependent failures)
	type slot struct{ epoch, pos int }
	slotOf := make([]slot, len(jobs))
	var epochs [][]int
	var mu sync.Mutex
	next := 0
	timedOut := false
	var wg sync.WaitGroup
	for wi := 0; wi < nWorkers(); wi++ {
		wg.Add(1)
		go func() {
			defer wg.Done()
			var w *worker
			epoch := -1
			defer func() {
				if w != nil {
					w.kill()
				}
			}()
			for {
				mu.Lock()
				if next >= len(jobs) || time.Now().After(stopAt) {
					if next < len(jobs) {
						timedOut = true
					}
					mu.Unlock()
					return
				}
				j := jobs[next]
				next++
				mu.Unlock()
				if w == nil {
					var err error
					if w, err = startWorker(pc.ID, tier); err != nil {
						r.Internal("cannot start worker: " + err.Error())
						return
					}
					mu.Lock()
					epoch = len(epochs)
					epochs = append(epochs, nil)
					mu.Unlock()
				}
				res, alive := w.run(j)
				if !alive {
					w = nil
				}
				mu.Lock()
				results[j.idx] = &res
				slotOf[j.idx] = slot{epoch, len(epochs[epoch])}
				epochs[epoch] = append(epochs[epoch], j.idx)
				mu.Unlock()
			}
		}()
	}
	wg.Wait()

	// 3. fold
	completedCost := -1
	doneAll := true
	counts := map[string]int{}
	for i, res := range results {
		j := jobs[i]
		if res == nil {
			doneAll = false
			continue
		}
		if doneAll {
			completedCost = j.cost
		}
		r.Evaluations++
		r.TracesImpl += 1 + res.Traces
		r.State(j.hash, res.Nontrivial)
		if res.Internal != "" {
			r.Internal(res.Internal)
			continue
		}
		if res.Fatal != "" {
			r.Outcome("fatal")
			counts["worker_deaths"]++
			if pc.FatalClause != "" {
				fc := pc.family(j.family)
				p := fc.Synth(&explore.Fixed{Vec: j.vec})
				p.Gofmt()
				r.Fail(evid.Failure{Clause: pc.ID + "/" + pc.FatalClause, Sig: sigOf(res.Fatal), Detail: res.Fatal, Family: j.family,
					Vector: j.vec, Cost: j.cost, Features: p.Features, Files: p.FilesMap()})
			}
			continue
		}
		r.Outcome(res.Outcome)
		for k, v := range res.Counts {
			counts[k] += v
		}
		if res.Sample != nil {
			r.Sample(res.Sample)
		}
		for _, f := range res.Failures {
			r.Fail(f)
		}
	}
	if timedOut || !doneAll {
		r.Exhaustive = false
		// completedCost is the cost of the last job of the fully evaluated prefix; the bound
		// fully covered is one less unless that cost level was finished too.
		full := completedCost
		if next < len(jobs) && jobs[next].cost == completedCost {
			full = completedCost - 1
		}
		r.Bounds["deadline_hit"] = deadline.String()
		r.Bounds["deviation_bound_fully_covered"] = full
	}
	r.Extra["counters"] = counts
	r.Extra["programs"] = len(jobs)

	// 4. confirm each failure representative twice more (determinism): in a fresh process first; a
	// failure that needs the programs evaluated before it by the same process (state kept between
	// analyses) is confirmed, twice, with the shortest suffix of that history which shows it
	if fails := r.Failures(); len(fails) > 0 && len(fails) <= 200 {
		jobIdx := map[string]int{}
		for _, j := range jobs {
			jobIdx[j.family+":"+vecArg(j.vec)] = j.idx
		}
		shows := func(w *worker, f *evid.Failure) (bool, bool) {
			res, alive := w.run(job{idx: 0, family: f.Family, vec: f.Vector})
			for _, g := range res.Failures {
				if g.Clause == f.Clause && g.Sig == f.Sig {
					return true, alive
				}
			}
			return false, alive
		}
		withHistory := func(f *evid.Failure, hist []int) bool {
			for k := 0; k < 2; k++ {
				w, err := startWorker(pc.ID, tier)
				if err != nil {
					return false
				}
				ok := true
				for _, ji := range hist {
					if _, alive := w.run(jobs[ji]); !alive {
						ok = false
						break
					}
				}
				found := false
				if ok {
					found, _ = shows(w, f)
				}
				w.kill()
				if !found {
					return false
				}
			}
			return true
		}
		for _, f := range fails {
			if strings.HasSuffix(f.Clause, "/"+pc.FatalClause) && pc.FatalClause != "" {
				continue
			}
			fresh := true
			for k := 0; k < 2 && fresh; k++ {
				w, err := startWorker(pc.ID, tier)
				if err != nil {
					break
				}
				fresh, _ = shows(w, f)
				w.kill()
			}
			if fresh {
				continue
			}
			ji, ok := jobIdx[f.Family+":"+vecArg(f.Vector)]
			var hist []int
			if ok {
				sl := slotOf[ji]
				hist = epochs[sl.epoch][:sl.pos]
			}
			confirmed := false
			for _, n := range []int{1, 4, 16, 64, 256, len(hist)} {
				if n > len(hist) {
					n = len(hist)
				}
				if n == 0 {
					break
				}
				suffix := hist[len(hist)-n:]
				if withHistory(f, suffix) {
					for _, hi := range suffix {
						f.History = append(f.History, evid.Step{Family: jobs[hi].family, Vector: jobs[hi].vec})
					}
					f.Detail += fmt.Sprintf("\n(history-dependent: shown only after the %d program(s) evaluated before it by the same process; a fresh process does not show it)", n)
					confirmed = true
					break
				}
				if n == len(hist) {
					break
				}
			}
			if !confirmed {
				// the oracle is a function of the implementation's result: a failure that shows in some fresh
				// processes and not in others means that this result itself varies from run to run (map
				// order, scheduling). It was observed, so it is reported, with that remark.
				shown := 0
				const attempts = 8
				for k := 0; k < attempts; k++ {
					w, err := startWorker(pc.ID, tier)
					if err != nil {
						break
					}
					if ok, _ := shows(w, f); ok {
						shown++
					}
					w.kill()
				}
				if shown > 0 {
					f.Detail += fmt.Sprintf("\n(not deterministic: shown by %d of %d further fresh processes on the same program; the result of the implementation varies from run to run)", shown, attempts)
					confirmed = true
				}
			}
			if !confirmed {
				r.Internal(fmt.Sprintf("failure %s/%s on vector %v did not reproduce, neither in a fresh process nor after the history of its worker (uncaptured nondeterminism)", f.Clause, f.Sig, f.Vector))
			}
		}
	}
	return r
}

func sigOf(s string) string {
	if len(s) > 80 {
		s = s[:80]
	}
	return s
}

// Replay re-evaluates a stored failure from its vector, without the explorer.
func Replay(file string) int {
	b, err := os.ReadFile(file)
	if err != nil {
		fmt.Fprintln(os.Stderr, err)
		return 2
	}
	var f evid.Failure
	if err := json.Unmarshal(b, &f); err != nil {
		fmt.Fprintln(os.Stderr, err)
		return 2
	}
	if rf, ok := replayers[f.Property]; ok {
		return rf(&f)
	}
	if bc, ok := batchChecks[f.Property]; ok {
		return replayBatch(bc, &f)
	}
	root, ok := progChecks[f.Property]
	if !ok {
		fmt.Fprintln(os.Stderr, "no replayer for", f.Property)
		return 2
	}
	for _, st := range f.History {
		evalOne(root.family(st.Family), "quick", 0, st.Vector)
	}
	pc := root.family(f.Family)
	res := evalOne(pc, "quick", 0, f.Vector)
	if res.Internal != "" {
		fmt.Println("internal:", res.Internal)
		return 2
	}
	for _, g := range res.Failures {
		if g.Clause == f.Clause && g.Sig == f.Sig {
			fmt.Printf("REPRODUCED %s: %s\n", g.Clause, g.Detail)
			return 1
		}
	}
	fmt.Println("not reproduced:", f.Clause, f.Sig)
	return 0
}

var replayers = map[string]func(f *evid.Failure) int{}
