package checks

import (
	"fmt"
	"os"

	"verif.test/mc/evid"
)

var registry = map[string]func(tier string) *evid.Report{
	"C19": C19,
}

func Run(id, tier string) int {
	if cr, ok := customRunners[id]; ok {
		return cr(tier)
	}
	f, ok := registry[id]
	if !ok {
		fmt.Fprintln(os.Stderr, "unknown property", id)
		return 2
	}
	rep := f(tier)
	return rep.Finish()
}
