package checks

import (
	"fmt"
	"os"

	"verif.test/mc/evid"
)

var registry = map[string]func(tier string) *evid.Report{
	"C19": C19,
}

// currentTier is the tier of the running check (also set in worker processes).
var currentTier = "quick"

func Run(id, tier string) int {
	currentTier = tier
	if cr, ok := customRunners[id]; ok {
		return cr(tier)
	}
	f, ok := registry[id]
	if !ok {
		fmt.Fprintln(os.Stderr, "unknown property", id)
		return 2
	}
	rep := f(tier)
	return rep.Finish()
}
