package checks

import (
	"fmt"
	"sort"
	"strings"

	"github.com/benoitkugler/gomacro/generator"
	"verif.test/mc/evid"
)

// C19: declaration assembly is a set-like, order-independent merge.
// Complete enumeration of F-decls (DESIGN §3.3): every sequence up to a length
// over 3 IDs x 2 priorities x 2 contents, and every distinct arrangement of long
// (13..16) multisets over <= 3 kinds, which crosses sort.Slice's 12-element
// insertion-sort threshold.

type declKind struct {
	id, content string
	prio        bool
}

func (k declKind) String() string {
	p := "F"
	if k.prio {
		p = "T"
	}
	return k.id + k.content + p
}

func c19Kinds(ids ...string) []declKind {
	var out []declKind
	if len(ids) == 0 {
		ids = []string{"a", "b", "c"}
	}
	for _, id := range ids {
		for _, ct := range []string{"x", "y"} {
			for _, p := range []bool{false, true} {
				out = append(out, declKind{id, ct, p})
			}
		}
	}
	return out
}

func c19Call(seq []declKind) string {
	decls := make([]generator.Declaration, len(seq))
	for i, k := range seq {
		decls[i] = generator.Declaration{ID: k.id, Content: k.content, Priority: k.prio}
	}
	return generator.WriteDeclarations(decls)
}

// seqList is the replayable form of a sequence: [id, content, priority] triples.
func seqList(seq []declKind) []any {
	out := make([]any, len(seq))
	for i, k := range seq {
		out[i] = []any{k.id, k.content, k.prio}
	}
	return out
}

func seqString(seq []declKind) string {
	s := make([]string, len(seq))
	for i, k := range seq {
		s[i] = k.String()
	}
	return strings.Join(s, " ")
}

// c19Clauses12 checks clauses 1 and 2 on one output; returns clause, detail. The admissible
// outputs are generated, not parsed: for every split of the distinct IDs into a priority group and
// an ordinary group that the supplied flags allow (an ID supplied with both flags may be in
// either), and every choice of one supplied content per ID, the text is <priority IDs ascending>
// then <other IDs ascending>, each content followed by a newline.
func c19Clauses12(seq []declKind, out string) (string, string) {
	contents := map[string][]string{}
	canPrio := map[string]bool{}
	canNon := map[string]bool{}
	for _, k := range seq {
		dup := false
		for _, c := range contents[k.id] {
			dup = dup || c == k.content
		}
		if !dup {
			contents[k.id] = append(contents[k.id], k.content)
		}
		if k.prio {
			canPrio[k.id] = true
		} else {
			canNon[k.id] = true
		}
	}
	ids := make([]string, 0, len(contents))
	for id := range contents {
		ids = append(ids, id)
	}
	sort.Strings(ids)
	lengthOK := false
	for mask := 0; mask < 1<<len(ids); mask++ {
		var pg, ng []string
		ok := true
		for i, id := range ids {
			if mask&(1<<i) != 0 {
				if !canPrio[id] {
					ok = false
				}
				pg = append(pg, id)
			} else {
				if !canNon[id] {
					ok = false
				}
				ng = append(ng, id)
			}
		}
		if !ok {
			continue
		}
		order := append(pg, ng...)
		// every choice of content per ID
		var rec func(i int, acc string) bool
		rec = func(i int, acc string) bool {
			if i == len(order) {
				if len(acc) == len(out) {
					lengthOK = true
				}
				return acc == out
			}
			for _, c := range contents[order[i]] {
				if rec(i+1, acc+c+"\n") {
					return true
				}
			}
			return false
		}
		if rec(0, "") {
			return "", ""
		}
	}
	if !lengthOK {
		return "exactly-once", fmt.Sprintf("output %q is not one content + newline per distinct ID (%d distinct IDs)", out, len(ids))
	}
	return "order", fmt.Sprintf("output %q is not <priority IDs ascending><other IDs ascending> with one content per distinct ID", out)
}

func contentIsFunctionOfID(seq []declKind) bool {
	m := map[string]string{}
	for _, k := range seq {
		if c, ok := m[k.id]; ok && c != k.content {
			return false
		}
		m[k.id] = k.content
	}
	return true
}

func canonicalArrangement(seq []declKind) []declKind {
	c := append([]declKind{}, seq...)
	sort.Slice(c, func(i, j int) bool { return c[i].String() < c[j].String() })
	return c
}

func C19(tier string) *evid.Report {
	r := evid.NewReport("C19", tier)
	r.Rule = "every sequence of declarations up to length L over {a,b,c}x{x,y}x{prio,not}, every sequence up to length L-1 over {empty,a,b}x{x,y}x{prio,not} and over {a,b}x{empty content, x, y+newline}x{prio,not}, and every distinct arrangement of multisets of size 13..16 over <=3 kinds (content a function of the ID); a case is the sequence itself; non-trivial = at least two declarations with >=2 distinct IDs or a repeated ID"
	r.Assumptions = []string{"the in-place sort of the argument slice is not part of the property"}
	maxLen, capArr := 5, 4000
	if tier == "thorough" {
		maxLen, capArr = 6, 30000
	}
	r.Bounds["max_length_all_sequences"] = maxLen
	r.Bounds["long_multiset_sizes"] = "13..16"
	r.Bounds["long_multiset_max_arrangements"] = capArr
	kinds := c19Kinds()
	canonOut := map[string]string{} // multiset -> output of canonical arrangement
	nontrivial := 0

	check := func(seq []declKind) {
		out := c19Call(append([]declKind{}, seq...))
		r.Evaluations++
		r.Transitions++
		ss := seqString(seq)
		distinctIDs := map[string]bool{}
		for _, k := range seq {
			distinctIDs[k.id] = true
		}
		// every enumerated sequence is distinct by construction: count instead of storing 10^6..10^7 strings
		r.StatesN++
		if len(seq) >= 2 && (len(distinctIDs) >= 2 || len(distinctIDs) < len(seq)) {
			nontrivial++
		}
		r.Outcome(out)
		if len(r.Samples) < 3 && len(seq) >= 3 {
			r.Sample(map[string]any{"input": ss, "output": out})
		}
		if cl, det := c19Clauses12(seq, out); cl != "" {
			r.Fail(evid.Failure{Clause: "C19/" + cl, Sig: cl, Detail: "input [" + ss + "]: " + det, Cost: len(seq), Family: "F-decls",
				Extra: map[string]any{"decls": ss, "decl_list": seqList(seq)}, Observed: out})
		}
		if contentIsFunctionOfID(seq) {
			canon := canonicalArrangement(seq)
			ck := seqString(canon)
			co, ok := canonOut[ck]
			if !ok {
				co = c19Call(append([]declKind{}, canon...))
				canonOut[ck] = co
			}
			if co != out {
				r.Fail(evid.Failure{Clause: "C19/permutation-invariance", Sig: "perm", Detail: fmt.Sprintf("input [%s] gives %q but arrangement [%s] gives %q", ss, out, ck, co),
					Cost: len(seq), Family: "F-decls", Extra: map[string]any{"decls": ss, "decl_list": seqList(seq)}, Expected: co, Observed: out})
			}
		}
	}

	// all sequences up to maxLen
	var rec func(seq []declKind)
	rec = func(seq []declKind) {
		check(seq)
		if len(seq) == maxLen {
			return
		}
		for _, k := range kinds {
			rec(append(seq, k))
		}
	}
	rec(nil)
	// the same with the empty string among the IDs (it is an ID like any other), one level shorter
	kinds = c19Kinds("", "a", "b")
	maxLen--
	rec(nil)
	// contents that are empty or already end with a newline
	kinds = nil
	for _, id := range []string{"a", "b"} {
		for _, ct := range []string{"", "x", "y\n"} {
			for _, p := range []bool{false, true} {
				kinds = append(kinds, declKind{id, ct, p})
			}
		}
	}
	rec(nil)
	maxLen++
	kinds = c19Kinds()
	short := r.Evaluations

	// long multisets: content is a function of ID => 6 kinds
	var fk []declKind
	for _, k := range kinds {
		if (k.id == "a" && k.content == "x") || (k.id == "b" && k.content == "y") || (k.id == "c" && k.content == "x") {
			fk = append(fk, k)
		}
	}
	longMultisets := 0
	skippedMultisets := 0
	for n := 13; n <= 16; n++ {
		// choose counts for the 6 kinds with <= 3 non-zero summing to n
		var cnt [6]int
		var gen func(i, left, nz int)
		gen = func(i, left, nz int) {
			if i == 6 {
				if left != 0 {
					return
				}
				if arrangements(cnt[:], capArr) > capArr {
					skippedMultisets++
					return
				}
				longMultisets++
				var seq []declKind
				for j, c := range cnt {
					for x := 0; x < c; x++ {
						seq = append(seq, fk[j])
					}
				}
				// iterate distinct permutations (lexicographic next-permutation on kind index)
				idx := make([]int, 0, n)
				for j, c := range cnt {
					for x := 0; x < c; x++ {
						idx = append(idx, j)
					}
				}
				for {
					for p, j := range idx {
						seq[p] = fk[j]
					}
					check(seq)
					if !nextPerm(idx) {
						break
					}
				}
				return
			}
			for c := 0; c <= left; c++ {
				if c > 0 && nz == 3 {
					break
				}
				cnt[i] = c
				nn := nz
				if c > 0 {
					nn++
				}
				gen(i+1, left-c, nn)
			}
			cnt[i] = 0
		}
		gen(0, n, 0)
	}
	r.Bounds["short_sequences"] = short
	r.Bounds["long_multisets_fully_permuted"] = longMultisets
	r.Bounds["long_multisets_above_arrangement_cap_skipped"] = skippedMultisets
	r.TracesImpl = r.Evaluations
	r.NontrivialN = nontrivial
	return r
}

func arrangements(cnt []int, cap int) int {
	// multinomial, saturating above cap
	total := 0
	res := 1
	for _, c := range cnt {
		for k := 1; k <= c; k++ {
			total++
			res = res * total / k
			if res > cap*64 {
				return cap + 1
			}
		}
	}
	return res
}

func nextPerm(a []int) bool {
	i := len(a) - 2
	for i >= 0 && a[i] >= a[i+1] {
		i--
	}
	if i < 0 {
		return false
	}
	j := len(a) - 1
	for a[j] <= a[i] {
		j--
	}
	a[i], a[j] = a[j], a[i]
	for l, r := i+1, len(a)-1; l < r; l, r = l+1, r-1 {
		a[l], a[r] = a[r], a[l]
	}
	return true
}

func init() {
	replayers["C19"] = func(f *evid.Failure) int {
		txt, _ := f.Extra["decls"].(string)
		var seq []declKind
		if l, ok := f.Extra["decl_list"].([]any); ok {
			txt = ""
			for _, e := range l {
				t, _ := e.([]any)
				if len(t) == 3 {
					id, _ := t[0].(string)
					ct, _ := t[1].(string)
					pr, _ := t[2].(bool)
					seq = append(seq, declKind{id, ct, pr})
				}
			}
			txt = seqString(seq)
		}
		for _, w := range strings.Fields(txt) {
			if f.Extra["decl_list"] != nil {
				break
			}
			switch len(w) {
			case 3:
				seq = append(seq, declKind{id: w[0:1], content: w[1:2], prio: w[2] == 'T'})
			case 2: // empty ID
				seq = append(seq, declKind{id: "", content: w[0:1], prio: w[1] == 'T'})
			}
		}
		out := c19Call(append([]declKind{}, seq...))
		if cl, det := c19Clauses12(seq, out); cl != "" {
			fmt.Printf("REPRODUCED C19/%s: input [%s]: %s\n", cl, txt, det)
			return 1
		}
		if contentIsFunctionOfID(seq) {
			canon := canonicalArrangement(seq)
			if co := c19Call(append([]declKind{}, canon...)); co != out {
				fmt.Printf("REPRODUCED C19/permutation-invariance: [%s] gives %q, sorted arrangement gives %q\n", txt, out, co)
				return 1
			}
		}
		fmt.Println("not reproduced")
		return 0
	}
	// checks that build their own binary: replay = the deterministic quick check, filtered on the stored signature
	for _, id := range []string{"C07", "C14", "C20"} {
		id := id
		replayers[id] = func(f *evid.Failure) int {
			fmt.Printf("replaying %s by re-running the (deterministic) quick exploration; looking for clause %s / %s\n", id, f.Clause, f.Sig)
			code := customRunners[id]("quick")
			if code == 1 {
				fmt.Println("REPRODUCED (see the VIOLATION lines above)")
			}
			return code
		}
	}
}
