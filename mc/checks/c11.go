package checks

import (
	"fmt"
	"go/types"
	"sort"
	"strings"
	"time"

	"github.com/benoitkugler/gomacro/analysis"
	"verif.test/mc/fam"
	"verif.test/mc/prog"
)

// C11: union detection and membership are exact. Reference: method sets
// computed with types.NewMethodSet (the implementation uses types.Implements).

func refUnions(l *prog.Loaded) map[*types.Named][]*types.Named {
	out := map[*types.Named][]*types.Named{}
	for _, p := range userPackages(l) {
		scope := p.Types.Scope()
		var nameds []*types.Named
		for _, name := range scope.Names() { // sorted
			tn, ok := scope.Lookup(name).(*types.TypeName)
			if !ok || tn.IsAlias() {
				continue
			}
			if n, ok := tn.Type().(*types.Named); ok {
				nameds = append(nameds, n)
			}
		}
		for _, it := range nameds {
			itf, ok := it.Underlying().(*types.Interface)
			if !ok {
				continue
			}
			var members []*types.Named
			for _, m := range nameds {
				if _, isItf := m.Underlying().(*types.Interface); isItf {
					continue
				}
				// (a generic declaration is a named type with a method set like any other: the
				// statement does not leave it out, and neither does the analysis)
				mset := types.NewMethodSet(m)
				all := true
				for i := 0; i < itf.NumMethods(); i++ {
					want := itf.Method(i)
					sel := mset.Lookup(want.Pkg(), want.Name())
					if sel == nil || !types.Identical(sel.Type(), want.Type()) {
						all = false
						break
					}
				}
				if all {
					members = append(members, m)
				}
			}
			if len(members) > 0 {
				out[it] = members
			}
		}
	}
	return out
}

// reachableNodes walks the analysis result following every link.
func reachableNodes(an *analysis.Analysis) []analysis.Type {
	seen := map[analysis.Type]bool{}
	var out []analysis.Type
	var walk func(t analysis.Type)
	walk = func(t analysis.Type) {
		if t == nil || seen[t] {
			return
		}
		seen[t] = true
		out = append(out, t)
		switch t := t.(type) {
		case *analysis.Struct:
			for _, f := range t.Fields {
				walk(f.Type)
			}
			for _, u := range t.Implements {
				walk(u)
			}
		case *analysis.Array:
			walk(t.Elem)
		case *analysis.Map:
			walk(t.Key)
			walk(t.Elem)
		case *analysis.Named:
			walk(t.Underlying)
		case *analysis.Pointer:
			walk(t.Elem)
		case *analysis.Union:
			for _, m := range t.Members {
				walk(m)
			}
		}
	}
	// deterministic order: source first, then map values sorted by type string
	for _, s := range an.Source {
		walk(an.Types[s])
	}
	var keys []types.Type
	for k := range an.Types {
		keys = append(keys, k)
	}
	sort.Slice(keys, func(i, j int) bool { return keys[i].String() < keys[j].String() })
	for _, k := range keys {
		walk(an.Types[k])
	}
	return out
}

func namedNames(l []*types.Named) string {
	s := make([]string, len(l))
	for i, n := range l {
		s[i] = n.Obj().Name()
	}
	return strings.Join(s, ",")
}

func evalC11(e *Eval) {
	ref := refUnions(e.L)
	an, pi := e.L.Analyse(0)
	if pi != nil {
		if pi.Runtime {
			e.Res.Outcome = "analysis-crash"
			e.Fail("analysis-completes", pi.Where, "analysis died with a runtime error: "+pi.String())
		} else {
			e.Res.Outcome = "refused: " + trunc(pi.Msg, 40)
			// an interface of the tree with implementers in its own package is a union: refusing it
			// as an unsupported interface means it was not detected
			for it, members := range ref {
				if strings.Contains(pi.Msg, "unsupported type "+it.Underlying().String()) {
					e.Fail("union-iff-implementers", "union refused as an unsupported interface", fmt.Sprintf("%s has implementers in its own package (%s) but the analysis stops with %q", it, namedNames(members), trunc(pi.Msg, 120)))
					break
				}
			}
		}
		return
	}
	nodes := reachableNodes(an)
	analysedUnions := map[*types.Named]*analysis.Union{}
	for ty, node := range an.Types {
		if u, ok := node.(*analysis.Union); ok {
			if n, ok := ty.(*types.Named); ok {
				analysedUnions[n] = u
			}
		}
	}
	// a union is analysed as soon as a node of it is reachable from the result, whatever the key it
	// is registered under (a union first met through an alias is stored under the alias)
	for _, node := range nodes {
		if u, ok := node.(*analysis.Union); ok {
			if n, ok := types.Unalias(u.Type()).(*types.Named); ok && analysedUnions[n] == nil {
				analysedUnions[n] = u
			}
		}
	}
	nUnion, nStruct, nImpl := 0, 0, 0
	// classification of every named interface key
	for ty, node := range an.Types {
		n, ok := ty.(*types.Named)
		if !ok {
			continue
		}
		if _, isItf := n.Underlying().(*types.Interface); !isItf {
			if _, isU := node.(*analysis.Union); isU {
				e.Fail("union-iff", "non-interface union", n.String()+" is reported as a union but is not an interface")
			}
			continue
		}
		_, isU := node.(*analysis.Union)
		if isU != (ref[n] != nil) {
			e.Fail("union-iff", fmt.Sprintf("want union=%v", ref[n] != nil), fmt.Sprintf("%s: union=%v, reference members [%s]", n, isU, namedNames(ref[n])))
		}
	}
	for _, node := range nodes {
		switch t := node.(type) {
		case *analysis.Union:
			nUnion++
			n := t.Type().(*types.Named)
			want := ref[n]
			var got []*types.Named
			for _, m := range t.Members {
				mn, ok := m.Type().(*types.Named)
				if !ok {
					e.Fail("members-exact", "unnamed member", n.String()+": member without a name")
					continue
				}
				got = append(got, mn)
			}
			if namedNames(got) != namedNames(want) {
				e.FailX("members-exact", "members differ", fmt.Sprintf("%s: members [%s], reference (value method sets, same package, name order) [%s]", n, namedNames(got), namedNames(want)), namedNames(want), namedNames(got))
			} else {
				for i := range got {
					if got[i] != want[i] {
						e.Fail("members-exact", "member identity", fmt.Sprintf("%s: member %s is not the declared type", n, got[i]))
					}
				}
			}
			if au := analysedUnions[n]; au != nil && au != t {
				// reached through another path: must list the same members
				var other []*types.Named
				for _, m := range au.Members {
					if mn, ok := m.Type().(*types.Named); ok {
						other = append(other, mn)
					}
				}
				if namedNames(other) != namedNames(got) {
					e.Fail("members-same-through-every-reach", "reach", fmt.Sprintf("%s: [%s] through one path, [%s] in the result table", n, namedNames(got), namedNames(other)))
				}
			}
		case *analysis.Struct:
			nStruct++
			var want []*types.Named
			for un := range analysedUnions {
				for _, m := range ref[un] {
					if m == t.Name {
						want = append(want, un)
					}
				}
			}
			sort.Slice(want, func(i, j int) bool { return want[i].Obj().Name() < want[j].Obj().Name() })
			var got []*types.Named
			for _, u := range t.Implements {
				got = append(got, u.Type().(*types.Named))
			}
			nImpl += len(got)
			if namedNames(got) != namedNames(want) {
				e.FailX("implements-exact", "implements differ", fmt.Sprintf("struct %s: Implements [%s], analysed unions listing it [%s]", t.Name, namedNames(got), namedNames(want)), namedNames(want), namedNames(got))
			}
		}
	}
	nMembers := 0
	for n := range analysedUnions {
		nMembers += len(ref[n])
	}
	e.Res.Nontrivial = nUnion > 0
	e.Res.Outcome = fmt.Sprintf("unions=%d members=%d structs=%d impl=%d", nUnion, nMembers, nStruct, nImpl)
	if e.Cost <= 1 {
		e.Res.Sample = map[string]any{"features": e.Prog.Features, "a.go": e.Prog.Root().Files[0].Src, "outcome": e.Res.Outcome}
	}
}

func init() {
	registerProg(&ProgCheck{
		ID: "C11", Family: "F-union", Synth: fam.Union,
		Bound:    map[string]int{"quick": 3, "thorough": 4},
		Deadline: map[string]time.Duration{"quick": 4 * time.Minute, "thorough": 40 * time.Minute},
		Rule:     "programs of family F-union within the deviation bound; distinct = distinct source text; non-trivial = at least one union node reached by the analysis",
		Assumptions: []string{
			"reference membership = value method set (types.NewMethodSet) of same-package non-interface named types contains every interface method with identical signature",
			"generic candidate types are outside the alphabet",
		},
		Eval: evalC11,
	})
}
