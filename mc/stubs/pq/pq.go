// Package pq is a minimal offline stand-in for github.com/lib/pq: only the
// helpers used by gomacro generated code (array types, NullTime, CopyIn),
// with the same signatures and the same text formats as the real driver.
package pq

import (
	"bytes"
	"database/sql/driver"
	"fmt"
	"strconv"
	"strings"
	"time"
)

// QuoteIdentifier quotes an identifier (table, column name) for use in a statement.
func QuoteIdentifier(name string) string {
	if end := strings.IndexRune(name, 0); end > -1 {
		name = name[:end]
	}
	return `"` + strings.ReplaceAll(name, `"`, `""`) + `"`
}

// CopyIn creates a COPY FROM STDIN statement, to be passed to Prepare.
func CopyIn(table string, columns ...string) string {
	quoted := make([]string, len(columns))
	for i, c := range columns {
		quoted[i] = QuoteIdentifier(c)
	}
	return "COPY " + QuoteIdentifier(table) + " (" + strings.Join(quoted, ", ") + ") FROM STDIN"
}

// NullTime represents a time.Time that may be null.
type NullTime struct {
	Time  time.Time
	Valid bool
}

func (nt *NullTime) Scan(value interface{}) error {
	nt.Time, nt.Valid = value.(time.Time)
	return nil
}

func (nt NullTime) Value() (driver.Value, error) {
	if !nt.Valid {
		return nil, nil
	}
	return nt.Time, nil
}

type (
	Int64Array   []int64
	Int32Array   []int32
	Float64Array []float64
	BoolArray    []bool
	StringArray  []string
)

func arrayValue[T any](a []T, elem func(b []byte, v T) []byte) (driver.Value, error) {
	if a == nil {
		return nil, nil
	}
	b := []byte{'{'}
	for i, v := range a {
		if i > 0 {
			b = append(b, ',')
		}
		b = elem(b, v)
	}
	return string(append(b, '}')), nil
}

func (a Int64Array) Value() (driver.Value, error) {
	return arrayValue(a, func(b []byte, v int64) []byte { return strconv.AppendInt(b, v, 10) })
}

func (a Int32Array) Value() (driver.Value, error) {
	return arrayValue(a, func(b []byte, v int32) []byte { return strconv.AppendInt(b, int64(v), 10) })
}

func (a Float64Array) Value() (driver.Value, error) {
	return arrayValue(a, func(b []byte, v float64) []byte { return strconv.AppendFloat(b, v, 'f', -1, 64) })
}

func (a BoolArray) Value() (driver.Value, error) {
	return arrayValue(a, func(b []byte, v bool) []byte {
		if v {
			return append(b, 't')
		}
		return append(b, 'f')
	})
}

func (a StringArray) Value() (driver.Value, error) {
	return arrayValue(a, func(b []byte, v string) []byte {
		b = append(b, '"')
		for i := 0; i < len(v); i++ {
			if v[i] == '"' || v[i] == '\\' {
				b = append(b, '\\')
			}
			b = append(b, v[i])
		}
		return append(b, '"')
	})
}

func arrayScan[T any](dst *[]T, src interface{}, typ string, elem func(i int, v []byte) (T, error)) error {
	var bs []byte
	switch src := src.(type) {
	case []byte:
		bs = src
	case string:
		bs = []byte(src)
	case nil:
		*dst = nil
		return nil
	default:
		return fmt.Errorf("pq: cannot convert %T to %s", src, typ)
	}
	dims, elems, err := parseArray(bs, []byte{','})
	if err != nil {
		return err
	}
	if len(dims) > 1 {
		return fmt.Errorf("pq: cannot convert ARRAY%s to %s", strings.Replace(fmt.Sprint(dims), " ", "][", -1), typ)
	}
	if *dst != nil && len(elems) == 0 {
		*dst = (*dst)[:0]
		return nil
	}
	out := make([]T, len(elems))
	for i, v := range elems {
		if out[i], err = elem(i, v); err != nil {
			return err
		}
	}
	*dst = out
	return nil
}

func (a *Int64Array) Scan(src interface{}) error {
	return arrayScan((*[]int64)(a), src, "Int64Array", func(i int, v []byte) (int64, error) {
		n, err := strconv.ParseInt(string(v), 10, 64)
		if err != nil {
			return 0, fmt.Errorf("pq: parsing array element index %d: %v", i, err)
		}
		return n, nil
	})
}

func (a *Int32Array) Scan(src interface{}) error {
	return arrayScan((*[]int32)(a), src, "Int32Array", func(i int, v []byte) (int32, error) {
		n, err := strconv.ParseInt(string(v), 10, 32)
		if err != nil {
			return 0, fmt.Errorf("pq: parsing array element index %d: %v", i, err)
		}
		return int32(n), nil
	})
}

func (a *Float64Array) Scan(src interface{}) error {
	return arrayScan((*[]float64)(a), src, "Float64Array", func(i int, v []byte) (float64, error) {
		f, err := strconv.ParseFloat(string(v), 64)
		if err != nil {
			return 0, fmt.Errorf("pq: parsing array element index %d: %v", i, err)
		}
		return f, nil
	})
}

func (a *BoolArray) Scan(src interface{}) error {
	return arrayScan((*[]bool)(a), src, "BoolArray", func(i int, v []byte) (bool, error) {
		if len(v) == 1 && v[0] == 't' {
			return true, nil
		}
		if len(v) == 1 && v[0] == 'f' {
			return false, nil
		}
		return false, fmt.Errorf("pq: could not parse boolean array index %d: invalid boolean %q", i, v)
	})
}

func (a *StringArray) Scan(src interface{}) error {
	return arrayScan((*[]string)(a), src, "StringArray", func(i int, v []byte) (string, error) {
		if v == nil {
			return "", fmt.Errorf("pq: parsing array element index %d: cannot convert nil to string", i)
		}
		return string(v), nil
	})
}

// parseArray extracts the dimensions and elements of an array represented in
// text format. Only representations emitted by the backend are supported.
// A NULL element is returned as a nil []byte.
func parseArray(src, del []byte) (dims []int, elems [][]byte, err error) {
	unexpected := func(i int) error {
		return fmt.Errorf("pq: unable to parse array; unexpected %q at offset %d", src[i], i)
	}
	var depth, i int
	if len(src) < 1 || src[0] != '{' {
		return nil, nil, fmt.Errorf("pq: unable to parse array; expected %q at offset %d", '{', 0)
	}
Open:
	for i < len(src) {
		switch src[i] {
		case '{':
			depth++
			i++
		case '}':
			elems = make([][]byte, 0)
			goto Close
		default:
			break Open
		}
	}
	dims = make([]int, i)
Element:
	for i < len(src) {
		switch src[i] {
		case '{':
			if depth == len(dims) {
				break Element
			}
			depth++
			dims[depth-1] = 0
			i++
		case '"':
			elem, escape := []byte{}, false
			for i++; i < len(src); i++ {
				if escape {
					elem, escape = append(elem, src[i]), false
				} else if src[i] == '\\' {
					escape = true
				} else if src[i] == '"' {
					elems = append(elems, elem)
					i++
					break Element
				} else {
					elem = append(elem, src[i])
				}
			}
		default:
			for start := i; i < len(src); i++ {
				if bytes.HasPrefix(src[i:], del) || src[i] == '}' {
					elem := src[start:i]
					if len(elem) == 0 {
						return nil, nil, unexpected(i)
					}
					if bytes.Equal(elem, []byte("NULL")) {
						elem = nil
					}
					elems = append(elems, elem)
					break Element
				}
			}
		}
	}
	for i < len(src) {
		if bytes.HasPrefix(src[i:], del) && depth > 0 {
			dims[depth-1]++
			i += len(del)
			goto Element
		} else if src[i] == '}' && depth > 0 {
			dims[depth-1]++
			depth--
			i++
		} else {
			return nil, nil, unexpected(i)
		}
	}
Close:
	for i < len(src) {
		if src[i] == '}' && depth > 0 {
			depth--
			i++
		} else {
			return nil, nil, unexpected(i)
		}
	}
	if depth > 0 {
		return nil, nil, fmt.Errorf("pq: unable to parse array; expected %q at offset %d", '}', i)
	}
	for _, d := range dims {
		if d == 0 || len(elems)%d != 0 {
			return nil, nil, fmt.Errorf("pq: multidimensional arrays must have elements with matching dimensions")
		}
	}
	return dims, elems, nil
}
