package pq

import (
	"reflect"
	"testing"
	"time"
)

func TestValue(t *testing.T) {
	check := func(got any, err error, want any) {
		t.Helper()
		if err != nil || !reflect.DeepEqual(got, want) {
			t.Fatalf("got %#v (%v), want %#v", got, err, want)
		}
	}
	v, err := Int64Array{1, 2, 3}.Value()
	check(v, err, "{1,2,3}")
	v, err = Int32Array{-1}.Value()
	check(v, err, "{-1}")
	v, err = Int64Array(nil).Value()
	check(v, err, nil)
	v, err = Int64Array{}.Value()
	check(v, err, "{}")
	v, err = BoolArray{true, false}.Value()
	check(v, err, "{t,f}")
	v, err = Float64Array{1.5, 2}.Value()
	check(v, err, "{1.5,2}")
	v, err = StringArray{"a", "b c", `with "quote"`, `back\slash`}.Value()
	check(v, err, `{"a","b c","with \"quote\"","back\\slash"}`)
	v, err = NullTime{}.Value()
	check(v, err, nil)
	now := time.Now()
	v, err = NullTime{Time: now, Valid: true}.Value()
	check(v, err, now)
}

func TestScan(t *testing.T) {
	var s StringArray
	if err := s.Scan([]byte(`{"a","b c","with \"quote\"",plain,"NULL",""}`)); err != nil {
		t.Fatal(err)
	}
	if want := (StringArray{"a", "b c", `with "quote"`, "plain", "NULL", ""}); !reflect.DeepEqual(s, want) {
		t.Fatalf("%#v", s)
	}
	if err := s.Scan(`{a,NULL}`); err == nil {
		t.Fatal("NULL element must be rejected")
	}
	var i Int64Array
	if err := i.Scan("{1,-2,3}"); err != nil || !reflect.DeepEqual(i, Int64Array{1, -2, 3}) {
		t.Fatal(err, i)
	}
	if err := i.Scan("{}"); err != nil || i == nil || len(i) != 0 {
		t.Fatal(err, i)
	}
	if err := i.Scan(nil); err != nil || i != nil {
		t.Fatal(err, i)
	}
	for _, bad := range []any{"{1,NULL}", "{1,}", "{{1},{2}}", "1,2", "{1,2", "{a}", 12, "{1}x"} {
		if err := i.Scan(bad); err == nil {
			t.Fatalf("%v should be rejected", bad)
		}
	}
	var i32 Int32Array
	if err := i32.Scan("{3000000000}"); err == nil {
		t.Fatal("overflow")
	}
	var b BoolArray
	if err := b.Scan([]byte("{t,f,t}")); err != nil || !reflect.DeepEqual(b, BoolArray{true, false, true}) {
		t.Fatal(err, b)
	}
	if err := b.Scan("{true}"); err == nil {
		t.Fatal("invalid bool")
	}
	var f Float64Array
	if err := f.Scan("{1.5,-2,NaN}"); err != nil || f[0] != 1.5 || f[1] != -2 || f[2] == f[2] {
		t.Fatal(err, f)
	}
	var nt NullTime
	now := time.Now()
	if err := nt.Scan(now); err != nil || !nt.Valid || !nt.Time.Equal(now) {
		t.Fatal(nt)
	}
	if err := nt.Scan(nil); err != nil || nt.Valid {
		t.Fatal(nt)
	}
}

func TestCopyIn(t *testing.T) {
	if got := CopyIn("links", "repas", "idtable1"); got != `COPY "links" ("repas", "idtable1") FROM STDIN` {
		t.Fatal(got)
	}
	if got := QuoteIdentifier(`a"b`); got != `"a""b"` {
		t.Fatal(got)
	}
}
