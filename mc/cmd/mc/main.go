package main

import (
	"fmt"
	"os"

	"verif.test/mc/checks"
)

func usage() {
	fmt.Fprintln(os.Stderr, "usage: mc check <ID> [quick|thorough] | mc worker ... | mc replay <file>")
	os.Exit(2)
}

func main() {
	if len(os.Args) < 2 {
		usage()
	}
	switch os.Args[1] {
	case "check":
		if len(os.Args) < 3 {
			usage()
		}
		tier := os.Getenv("VERIF_TIER")
		if len(os.Args) > 3 {
			tier = os.Args[3]
		}
		if tier == "" {
			tier = "quick"
		}
		os.Exit(checks.Run(os.Args[2], tier))
	case "worker":
		checks.WorkerMain(os.Args[2:])
	case "replay":
		if len(os.Args) < 3 {
			usage()
		}
		os.Exit(checks.Replay(os.Args[2]))
	default:
		usage()
	}
}
