//go:build verifoverlay

// Command c07h decides C07 (generation is deterministic): it is built with an overlay in which
// every map range of gomacro's analysis and generator packages goes through verifhook.Keys, and
// explores, for each program, every alternative order at every executed map range (one or two
// order deviations from the canonical order), comparing all outputs byte for byte.
package main

import (
	"encoding/json"
	"fmt"
	"io"
	"log"
	"os"
	"os/exec"
	"sort"
	"strconv"
	"strings"
	"sync"

	"github.com/benoitkugler/gomacro/analysis"
	"github.com/benoitkugler/gomacro/analysis/httpapi"
	"github.com/benoitkugler/gomacro/generator/typescript"
	"github.com/benoitkugler/gomacro/verifhook"
	"verif.test/mc/evid"
	"verif.test/mc/explore"
	"verif.test/mc/fam"
	"verif.test/mc/prog"
)

// permutations offered for n keys: all n! when n <= 4, else reversal, rotations, adjacent
// transpositions and move-to-fronts.
func perms(n int) [][]int {
	id := make([]int, n)
	for i := range id {
		id[i] = i
	}
	if n <= 1 {
		return [][]int{id}
	}
	var out [][]int
	seen := map[string]bool{}
	add := func(p []int) {
		k := fmt.Sprint(p)
		if !seen[k] {
			seen[k] = true
			out = append(out, append([]int{}, p...))
		}
	}
	add(id)
	if n <= 4 {
		var rec func(p []int, k int)
		rec = func(p []int, k int) {
			if k == n {
				add(p)
				return
			}
			for i := k; i < n; i++ {
				p[k], p[i] = p[i], p[k]
				rec(p, k+1)
				p[k], p[i] = p[i], p[k]
			}
		}
		rec(append([]int{}, id...), 0)
		return out
	}
	rev := make([]int, n)
	for i := range rev {
		rev[i] = n - 1 - i
	}
	add(rev)
	for r := 1; r < n; r++ {
		p := make([]int, n)
		for i := range p {
			p[i] = (i + r) % n
		}
		add(p)
	}
	for i := 0; i+1 < n; i++ {
		p := append([]int{}, id...)
		p[i], p[i+1] = p[i+1], p[i]
		add(p)
	}
	for i := 1; i < n; i++ {
		p := []int{i}
		for j := 0; j < n; j++ {
			if j != i {
				p = append(p, j)
			}
		}
		add(p)
	}
	return out
}

type result struct {
	outputs map[string]string // "target/file" -> text ; "target!" -> panic message
}

func (r result) diff(o result) string {
	var keys []string
	for k := range r.outputs {
		keys = append(keys, k)
	}
	for k := range o.outputs {
		if _, ok := r.outputs[k]; !ok {
			keys = append(keys, k)
		}
	}
	sort.Strings(keys)
	for _, k := range keys {
		a, inA := r.outputs[k]
		b, inB := o.outputs[k]
		if !inA || !inB {
			return "output file set differs: " + k
		}
		if strings.HasSuffix(k, "!") {
			continue // a refusal on both sides: the text of a diagnostic (positions, pointers) is not an output
		}
		if a != b {
			la, lb := strings.Split(a, "\n"), strings.Split(b, "\n")
			for i := 0; i < len(la) && i < len(lb); i++ {
				if la[i] != lb[i] {
					return fmt.Sprintf("%s line %d: %q vs %q", k, i+1, strings.TrimSpace(la[i]), strings.TrimSpace(lb[i]))
				}
			}
			return k + ": length differs"
		}
	}
	return ""
}

// generateAll runs analysis + every target on a loaded program.
func generateAll(l *prog.Loaded) result {
	res := result{outputs: map[string]string{}}
	var ans []*analysis.Analysis
	for i := range l.RootFiles {
		an, pi := l.Analyse(i)
		if pi != nil {
			res.outputs["analysis!"] = pi.Msg
			return res
		}
		ans = append(ans, an)
	}
	for _, t := range prog.AllTargets {
		out, pi := l.RunTarget(t, ans)
		if pi != nil {
			res.outputs[t+"!"] = pi.Msg
			continue
		}
		for f, text := range out {
			res.outputs[t+"/"+f] = text
		}
	}
	if l.Prog.Family == "F-routes" {
		pi := prog.Guard(func() {
			eps := httpapi.ParseEcho(l.Root, l.RootFiles[0], l.Prog.Notes["prefix"])
			res.outputs["typescript-api/"] = typescript.GenerateAxios(eps)
		})
		if pi != nil {
			res.outputs["typescript-api!"] = pi.Msg
		}
	}
	return res
}

// generateTwice generates every target twice from one shared analysis (returning both passes) and
// once from an analysis of its own (isolated): generating again, or after another target, must
// not change any text.
func generateTwice(l *prog.Loaded) (first, second, isolated result) {
	first, second, isolated = result{outputs: map[string]string{}}, result{outputs: map[string]string{}}, result{outputs: map[string]string{}}
	analyse := func() []*analysis.Analysis {
		var ans []*analysis.Analysis
		for i := range l.RootFiles {
			an, pi := l.Analyse(i)
			if pi != nil {
				return nil
			}
			ans = append(ans, an)
		}
		return ans
	}
	shared := analyse()
	if shared == nil {
		return
	}
	run := func(res result, ans []*analysis.Analysis, t string) {
		out, pi := l.RunTarget(t, ans)
		if pi != nil {
			res.outputs[t+"!"] = pi.Msg
			return
		}
		for f, text := range out {
			res.outputs[t+"/"+f] = text
		}
	}
	for _, t := range prog.AllTargets {
		run(first, shared, t)
	}
	for _, t := range prog.AllTargets {
		run(second, shared, t)
	}
	for _, t := range prog.AllTargets {
		if ans := analyse(); ans != nil {
			run(isolated, ans, t)
		}
	}
	return
}

type item struct {
	family string
	synth  func(explore.Chooser) *prog.Program
	vec    []int
}

func programs(tier string) []item {
	var out []item
	fams := []struct {
		name  string
		synth func(explore.Chooser) *prog.Program
		bound int
	}{
		{"F-types", func(c explore.Chooser) *prog.Program { return fam.TypesWith(c, fam.TypesOpt{NoUnsupported: true}) }, 1},
		{"F-tables", fam.Tables, 1},
		{"F-routes", fam.Routes, 1},
		{"F-union", fam.Union, 1},
		{"F-enum", fam.Enum, 1},
	}
	for _, f := range fams {
		f := f
		seen := map[string]bool{}
		st := explore.Stats{}
		explore.Enumerate(f.bound, func(c explore.Chooser) {
			p := f.synth(c)
			for _, ft := range p.Features {
				if strings.HasPrefix(ft, "slot.type=rec-self-") {
					return // sql.Generate overflows the stack on these (known finding of C18): would kill the shard
				}
			}
			h := p.Hash()
			if !seen[h] {
				seen[h] = true
				out = append(out, item{f.name, f.synth, c.(*explore.Run).Vec()})
			}
		}, func(*explore.Run) {}, &st)
	}
	return out
}

type shardResult struct {
	Programs    int
	Runs        int
	Transitions int
	Points      int
	Sites       map[string]int
	MaxKeys     int
	Failures    []evid.Failure
	Internal    []string
	Samples     []any
	Distinct    int
}

func runShard(tier string, shard, n int) shardResult {
	bound := 1
	if tier == "thorough" {
		bound = 2
	}
	sr := shardResult{Sites: map[string]int{}}
	for idx, it := range programs(tier) {
		if idx%n != shard {
			continue
		}
		p := it.synth(&explore.Fixed{Vec: it.vec})
		if err := p.Gofmt(); err != nil {
			sr.Internal = append(sr.Internal, err.Error())
			continue
		}
		l, err := prog.Load(p)
		if err != nil {
			sr.Internal = append(sr.Internal, err.Error())
			continue
		}
		verifhook.ResetRegistry()
		sr.Programs++
		var base result
		var ch explore.Chooser
		occ := map[string]int{}
		var chosen []string
		orderHook := func(site string, keys []string) []int {
			occ[site]++
			sr.Sites[site]++
			if len(keys) > sr.MaxKeys {
				sr.MaxKeys = len(keys)
			}
			ps := perms(len(keys))
			c := ch.Choose(fmt.Sprintf("%s#%d", site, occ[site]), len(ps))
			if c != 0 {
				var names []string
				for _, i := range ps[c] {
					names = append(names, strings.SplitN(keys[i], "#", 2)[0])
				}
				chosen = append(chosen, fmt.Sprintf("%s#%d -> [%s]", site, occ[site], strings.Join(names, ", ")))
			}
			return ps[c]
		}
		// repetition: same texts from a second generation on the same analysis, and from analyses of their own
		verifhook.Order = nil
		g1, g2, iso := generateTwice(l)
		sr.Runs += 3
		for _, cmp := range []struct {
			a, b result
			what string
		}{{g1, g2, "a second generation from the same analysis"}, {iso, g1, "generation after the other targets on a shared analysis (vs an analysis of its own)"}} {
			if d := cmp.a.diff(cmp.b); d != "" {
				target := d
				if i := strings.IndexAny(d, "/! "); i > 0 {
					target = d[:i]
				}
				sr.Failures = append(sr.Failures, evid.Failure{Clause: "C07/repetition-independent", Sig: "output of " + target + " changes with " + cmp.what,
					Detail: cmp.what + ": first difference: " + d, Family: it.family, Vector: it.vec, Cost: explore.Cost(it.vec), Features: p.Features, Files: p.FilesMap()})
				break
			}
		}
		// the files of a package may enter the FileSet in any order (go/packages parses them
		// concurrently): positions of different files must not decide anything
		prog.ParseReversed = true
		l2, err2 := prog.Load(p)
		prog.ParseReversed = false
		if err2 == nil {
			sr.Runs++
			if d := generateAll(l).diff(generateAll(l2)); d != "" {
				target := d
				if i := strings.IndexAny(d, "/! "); i > 0 {
					target = d[:i]
				}
				sr.Failures = append(sr.Failures, evid.Failure{Clause: "C07/load-order-independent", Sig: "output of " + target + " depends on the order in which the files were parsed",
					Detail: "files of each package parsed in reverse order (same file list, same sources): first difference: " + d, Family: it.family, Vector: it.vec, Cost: explore.Cost(it.vec), Features: p.Features, Files: p.FilesMap()})
			}
		}
		verifhook.Order = orderHook
		st := explore.Stats{}
		first := true
		nontrivial := false
		explore.Enumerate(bound, func(c explore.Chooser) {
			ch = c
			occ = map[string]int{}
			chosen = nil
			res := generateAll(l)
			run := c.(*explore.Run)
			sr.Runs++
			if first {
				first = false
				base = res
				sr.Points += len(run.Points)
				for _, pt := range run.Points {
					if pt.N > 1 {
						nontrivial = true
					}
				}
				if len(sr.Samples) < 1 && len(run.Points) > 3 {
					var pts []string
					for _, pt := range run.Points {
						pts = append(pts, fmt.Sprintf("%s(%d orders)", pt.Site, pt.N))
					}
					sr.Samples = append(sr.Samples, map[string]any{"family": it.family, "features": p.Features, "map ranges executed (site#occurrence, alternatives)": pts})
				}
				return
			}
			if d := base.diff(res); d != "" {
				target := d
				if i := strings.IndexAny(d, "/! "); i > 0 {
					target = d[:i]
				}
				site := ""
				if len(chosen) > 0 {
					site = strings.SplitN(chosen[0], "#", 2)[0]
				}
				sr.Failures = append(sr.Failures, evid.Failure{Clause: "C07/order-independent", Sig: "output of " + target + " depends on the order at " + site,
					Detail: fmt.Sprintf("orders chosen: %s\nfirst difference with the canonical order: %s", strings.Join(chosen, " ; "), d),
					Family: it.family, Vector: it.vec, Cost: explore.Cost(it.vec) + explore.Cost(run.Choices), Features: p.Features, Files: p.FilesMap(),
					Extra: map[string]any{"orders": chosen}})
			}
		}, func(*explore.Run) {}, &st)
		sr.Transitions += st.Transitions
		if nontrivial {
			sr.Distinct++
		}
	}
	verifhook.Order = nil
	return sr
}

func main() {
	log.SetOutput(io.Discard)
	tier := os.Args[1]
	if len(os.Args) > 3 {
		shard, _ := strconv.Atoi(os.Args[2])
		n, _ := strconv.Atoi(os.Args[3])
		json.NewEncoder(os.Stdout).Encode(runShard(tier, shard, n))
		return
	}
	r := evid.NewReport("C07", tier)
	r.Rule = "programs of every family within 1 deviation of their scaffold x analysis + all targets (7, plus typescript/api for route files); every executed map range is a choice point whose alternatives are all n! orders (n <= 4) or reversal / rotations / adjacent transpositions / move-to-fronts (n > 4); every run with at most B non-canonical orders is compared byte for byte with the canonical-order run; per program, the sources are also loaded with the files of each package parsed in reverse order (token positions of different files swap) and every output compared; per program, every target is also generated twice from one shared analysis and once from an analysis of its own, and the three texts must be equal; a case is one (program, order vector); non-trivial = the program executes at least one map range with >= 2 keys"
	r.Assumptions = []string{
		"library pass: map iteration is the only source of nondeterminism before saveOutputs (no clock or randomness); goroutines are covered by the configuration-mode pass (Config.run of the CLI on a two-file module, dart + typescript/types, under the cooperative scheduler: every schedule within the deviation bound must write the files of the canonical schedule); the instrumenter rewrites every map range of the non-test files of analysis/... and generator/... (sites listed in the evidence)",
	}
	bound := 1
	if tier == "thorough" {
		bound = 2
	}
	r.Bounds["order deviations"] = bound
	n := 16
	var mu sync.Mutex
	var wg sync.WaitGroup
	sites := map[string]int{}
	for s := 0; s < n; s++ {
		wg.Add(1)
		go func(s int) {
			defer wg.Done()
			out, err := exec.Command(os.Args[0], tier, strconv.Itoa(s), strconv.Itoa(n)).Output()
			mu.Lock()
			defer mu.Unlock()
			if err != nil {
				r.Internal(fmt.Sprintf("shard %d: %v", s, err))
				return
			}
			var sr shardResult
			if err := json.Unmarshal(out, &sr); err != nil {
				r.Internal(fmt.Sprintf("shard %d: %v", s, err))
				return
			}
			r.Evaluations += sr.Runs
			r.TracesImpl += sr.Runs
			r.Transitions += sr.Transitions
			for k, v := range sr.Sites {
				sites[k] += v
				r.Outcome("orders of the range at " + k + " explored")
			}
			for _, f := range sr.Failures {
				r.Fail(f)
			}
			for _, e := range sr.Internal {
				r.Internal(e)
			}
			for _, smp := range sr.Samples {
				r.Sample(smp)
			}
			r.Extra["programs"] = intOf(r.Extra["programs"]) + sr.Programs
			r.Extra["map_range_executions_in_canonical_runs"] = intOf(r.Extra["map_range_executions_in_canonical_runs"]) + sr.Points
			r.Extra["programs_with_a_multi_key_range"] = intOf(r.Extra["programs_with_a_multi_key_range"]) + sr.Distinct
			if sr.MaxKeys > intOf(r.Extra["max_keys_in_a_range"]) {
				r.Extra["max_keys_in_a_range"] = sr.MaxKeys
			}
		}(s)
	}
	wg.Wait()
	// harness C (configuration mode of the CLI under the scheduler), run by the parent
	if hc := os.Getenv("VERIF_C07C"); strings.HasPrefix(hc, "unavailable") || hc == "" {
		r.Internal("harness C (Config.run under the scheduler): " + hc)
	} else {
		var res struct {
			Runs, Transitions, Bound, Files, Points int
			Failures                                []struct{ Clause, Scenario, Schedule, Detail, Trace string }
			Internal                                string
		}
		if err := json.Unmarshal([]byte(hc), &res); err != nil {
			r.Internal("harness C: bad result: " + err.Error())
		} else {
			if res.Internal != "" {
				r.Internal("harness C: " + res.Internal)
			}
			r.Evaluations += res.Runs
			r.TracesImpl += res.Runs
			r.Transitions += res.Transitions
			r.Bounds["config_mode_schedule_deviations"] = res.Bound
			r.Extra["config_mode_schedules_explored"] = res.Runs
			r.Extra["config_mode_files_compared"] = res.Files
			r.Extra["config_mode_scheduling_points_canonical"] = res.Points
			r.Outcome(fmt.Sprintf("config mode: %d files identical under the explored schedules", res.Files))
			for _, f := range res.Failures {
				r.Fail(evid.Failure{Clause: "C07/" + f.Clause, Sig: "output of the configuration mode depends on the goroutine schedule", Detail: f.Scenario + ", schedule " + f.Schedule + ": " + f.Detail + "\ntrace: " + f.Trace, Family: "cli-config",
					Extra: map[string]any{"schedule": f.Schedule}})
			}
		}
	}
	r.Extra["instrumented_sites_executed"] = sites
	r.Extra["instrumented_sites"] = strings.Split(os.Getenv("VERIF_C07_SITES"), ",")
	// states = distinct (program, order vector) runs: every run is distinct by construction
	for i := 0; i < r.Evaluations; i++ {
		r.State(strconv.Itoa(i), i < r.Evaluations-intOf(r.Extra["programs"]))
	}
	os.Exit(r.Finish())
}

func intOf(x any) int {
	if v, ok := x.(int); ok {
		return v
	}
	return 0
}
