package main

import (
	"fmt"
	"time"

	"github.com/benoitkugler/gomacro/analysis"
	"verif.test/mc/explore"
	"verif.test/mc/fam"
	"verif.test/mc/prog"
)

func main() {
	p := fam.Types(&explore.Fixed{})
	p.Gofmt()
	t0 := time.Now()
	l, err := prog.Load(p)
	fmt.Println("first load", time.Since(t0), err)
	t0 = time.Now()
	for i := 0; i < 100; i++ {
		l, _ = prog.Load(p)
	}
	fmt.Println("load", time.Since(t0)/100)
	t0 = time.Now()
	var an *analysis.Analysis
	for i := 0; i < 100; i++ {
		an, _ = l.Analyse(0)
	}
	fmt.Println("analyse", time.Since(t0)/100)
	for _, t := range prog.AllTargets {
		t0 = time.Now()
		for i := 0; i < 100; i++ {
			l.RunTarget(t, []*analysis.Analysis{an})
		}
		fmt.Println(t, time.Since(t0)/100)
	}
}
