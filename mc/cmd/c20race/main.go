// Command c20race is the free-running pass of C20: the same harness body as c20h (N goroutines
// calling FormatFile on one shared Formatters) with the real sync and os/exec, built with -race.
// Stand-in scripts for which / goimports / dart / npx / pg_format must be first on PATH; they
// append their arguments to $C20_LOG. The cooperative scheduler's hand-offs would hide races
// from the detector, hence this separate pass (it samples schedules; it is not exhaustive).
package main

import (
	"fmt"
	"io"
	"log"
	"os"
	"path/filepath"
	"sync"

	"github.com/benoitkugler/gomacro/generator"
)

func main() {
	log.SetOutput(io.Discard)
	dir := os.Args[1]
	rounds := 30
	formats := []generator.Format{generator.Go, generator.Dart, generator.TypeScript, generator.Psql, generator.Go, generator.Dart, generator.TypeScript, generator.Psql}
	bad := 0
	for r := 0; r < rounds; r++ {
		var fmts generator.Formatters
		var wg sync.WaitGroup
		errs := make([]error, len(formats))
		for i, f := range formats {
			file := filepath.Join(dir, fmt.Sprintf("f%d_%d.txt", r, i))
			os.WriteFile(file, []byte("content"), 0o644)
			wg.Add(1)
			go func(i int, f generator.Format, file string) {
				defer wg.Done()
				errs[i] = fmts.FormatFile(f, file)
			}(i, f, file)
		}
		wg.Wait()
		for _, e := range errs {
			if e != nil {
				bad++
			}
		}
	}
	fmt.Printf("rounds=%d requests=%d errors=%d\n", rounds, rounds*len(formats), bad)
}
