//go:build verifoverlay

// Command c20h explores every schedule (up to a preemption bound) of N concurrent FormatFile
// requests on one generator.Formatters, under a cooperative scheduler installed through the
// verifhook overlay (DESIGN §8.3). It is built with -overlay, against an instrumented copy of
// /repo/generator/formatters.go.
package main

import (
	"encoding/json"
	"errors"
	"fmt"
	"io"
	"log"
	"os"
	"os/exec"
	"sort"
	"strings"
	"time"

	"github.com/benoitkugler/gomacro/generator"
	"github.com/benoitkugler/gomacro/verifhook"
	"verif.test/mc/evid"
	"verif.test/mc/explore"
)

// ---------------------------------------------------------------------------- scheduler

type task struct {
	id      int
	resume  chan struct{}
	kind    string // pending point: start lock exec wait
	mu      *verifhook.Mutex
	wg      *verifhook.WaitGroup
	cmd     *verifhook.Cmd
	done    bool
	panicV  any
	cmdErr  error
	started bool
	ready   func() bool // pending condition (channel operations)
}

type event struct {
	Task int
	Kind string
	What string
}

type sched struct {
	ch      explore.Chooser
	tasks   []*task
	cur     *task
	back    chan struct{}
	trace   []event
	env     map[string]string // tool -> ok | missing | failing
	points  int
	preempt int
	dead    bool
}

var errAbort = errors.New("abort")

func (s *sched) log(kind, what string) {
	s.trace = append(s.trace, event{s.cur.id, kind, what})
}

// yield parks the running task at a scheduling point and gives the token back to the scheduler.
func (s *sched) yield(t *task) {
	s.back <- struct{}{}
	<-t.resume
}

func (s *sched) Lock(m *verifhook.Mutex) {
	t := s.cur
	t.kind, t.mu = "lock", m
	s.yield(t)
	// resumed: the scheduler only resumes a lock point when the mutex is free
	m.Held = true
	s.log("lock", "")
}

func (s *sched) Unlock(m *verifhook.Mutex) {
	if !m.Held {
		panic("unlock of unlocked mutex")
	}
	m.Held = false
	s.log("unlock", "")
}

func toolOf(args []string) (tool string, probe bool) {
	switch args[0] {
	case "which":
		return args[1], true
	case "goimports":
		return "goimports", false
	case "dart":
		return "dart", len(args) >= 3 && args[2] == "--help"
	case "npx":
		return "prettier", len(args) >= 3 && args[2] == "-v"
	case "pg_format":
		return "pg_format", len(args) >= 2 && args[1] == "-v"
	}
	return args[0], false
}

func (s *sched) Run(c *verifhook.Cmd) error {
	t := s.cur
	t.kind, t.cmd = "exec", c
	s.yield(t)
	tool, probe := toolOf(c.Args)
	state := s.env[tool]
	var err error
	if probe {
		s.log("probe", tool)
		// broken: the binary is on the PATH (`which` finds it) but every invocation of it fails
		if state == "missing" || (state == "broken" && c.Args[0] != "which") {
			err = &exec.ExitError{}
		}
	} else {
		s.log("run", tool+" "+c.Args[len(c.Args)-1])
		switch state {
		case "missing":
			err = &exec.Error{Name: tool, Err: exec.ErrNotFound}
		case "failing", "broken":
			err = &exec.ExitError{}
		}
	}
	return err
}

func (s *sched) Go(f func()) {
	t := &task{id: len(s.tasks), resume: make(chan struct{}), kind: "start"}
	s.tasks = append(s.tasks, t)
	go func() {
		<-t.resume
		defer func() {
			if v := recover(); v != nil {
				t.panicV = v
			}
			t.done = true
			s.back <- struct{}{}
		}()
		f()
	}()
}

func (s *sched) Add(wg *verifhook.WaitGroup, n int) { wg.N += n }
func (s *sched) Done(wg *verifhook.WaitGroup)       { wg.N-- }
func (s *sched) Wait(wg *verifhook.WaitGroup) {
	t := s.cur
	t.kind, t.wg = "wait", wg
	s.yield(t)
}

func (s *sched) Block(kind string, ready func() bool) {
	t := s.cur
	t.kind, t.ready = "cond", ready
	s.yield(t)
}

func (s *sched) enabled(t *task) bool {
	if t.done {
		return false
	}
	switch t.kind {
	case "cond":
		return t.ready()
	case "lock":
		return !t.mu.Held
	case "wait":
		return t.wg.N <= 0
	}
	return true
}

// run drives the tasks until all are done; returns false on deadlock.
func (s *sched) run() bool {
	for {
		var en []*task
		if s.cur != nil && s.enabled(s.cur) {
			en = append(en, s.cur)
		}
		for _, t := range s.tasks {
			if t != s.cur && s.enabled(t) {
				en = append(en, t)
			}
		}
		if len(en) == 0 {
			for _, t := range s.tasks {
				if !t.done {
					s.dead = true
					return false
				}
			}
			return true
		}
		s.points++
		if s.points > 10000 {
			panic("schedule longer than 10000 points")
		}
		site := fmt.Sprintf("p%d", s.points)
		c := s.ch.Choose(site, len(en))
		if c != 0 && s.cur != nil && s.enabled(s.cur) {
			s.preempt++
		}
		t := en[c]
		s.cur = t
		t.resume <- struct{}{}
		select {
		case <-s.back:
		case <-time.After(60 * time.Second):
			// not an oracle: a guard against hanging for ever. A step between two scheduling points is
			// microseconds of straight-line code; a minute without reaching one means the goroutine
			// blocks on something the stand-ins do not hook (a channel, a real lock, I/O).
			fmt.Println("INTERNAL ERROR: a goroutine blocked on an operation the scheduler does not see (channel, real lock, I/O): the exploration cannot continue")
			os.Exit(2)
		}
	}
}

// preemptions of a choice vector cannot be read from the vector alone (a forced switch is free):
// the explorer bound counts non-default choices, and choice 0 is "keep running / lowest id", so a
// non-default choice is a preemption whenever the running task is enabled, and a free but
// non-canonical choice otherwise. Both are counted as deviations (a superset of the preemption bound).

// ---------------------------------------------------------------------------- scenario

var formats = []generator.Format{generator.Go, generator.Dart, generator.TypeScript, generator.Psql, generator.NoFormat}
var formatTool = map[generator.Format]string{generator.Go: "goimports", generator.Dart: "dart", generator.TypeScript: "prettier", generator.Psql: "pg_format"}
var formatName = map[generator.Format]string{generator.Go: "Go", generator.Dart: "Dart", generator.TypeScript: "TypeScript", generator.Psql: "Psql", generator.NoFormat: "NoFormat"}

type scenario struct {
	reqs []generator.Format
	env  map[string]string
}

func (sc scenario) String() string {
	var r []string
	for _, f := range sc.reqs {
		r = append(r, formatName[f])
	}
	var e []string
	for k, v := range sc.env {
		e = append(e, k+"="+v)
	}
	sort.Strings(e)
	return strings.Join(r, ",") + " | " + strings.Join(e, " ")
}

type outcome struct {
	errs   []string // per request: "" nil, else message
	panics []string
	trace  []event
	dead   bool
}

func runOnce(sc scenario, ch explore.Chooser) outcome {
	s := &sched{ch: ch, back: make(chan struct{}), env: sc.env}
	verifhook.S = s
	verifhook.ResetChans()
	defer func() { verifhook.S = nil }()
	var fmts generator.Formatters
	errs := make([]string, len(sc.reqs))
	for i, f := range sc.reqs {
		i, f := i, f
		s.Go(func() {
			if err := fmts.FormatFile(f, fmt.Sprintf("file%d", i)); err != nil {
				errs[i] = err.Error()
			}
		})
	}
	ok := s.run()
	out := outcome{errs: errs, trace: s.trace, dead: !ok}
	for _, t := range s.tasks {
		if t.panicV != nil {
			out.panics = append(out.panics, fmt.Sprintf("task %d: %v", t.id, t.panicV))
		}
	}
	if !ok {
		// release parked goroutines (they leak otherwise): nothing to do safely; they stay parked
	}
	return out
}

// check evaluates the trace invariants of C20 on one execution.
func check(sc scenario, o outcome) (clause, detail string) {
	if o.dead {
		return "no-deadlock", "no enabled goroutine while some request has not returned"
	}
	if len(o.panics) > 0 {
		return "no-panic", strings.Join(o.panics, "; ")
	}
	probes := map[string]int{}
	runs := map[string]int{} // "tool file"
	for _, e := range o.trace {
		switch e.Kind {
		case "probe":
			probes[e.What]++
		case "run":
			runs[e.What]++
		}
	}
	for tool, n := range probes {
		if n > 1 {
			return "probe-at-most-once", fmt.Sprintf("tool %s probed %d times on one cache", tool, n)
		}
	}
	for i, f := range sc.reqs {
		tool := formatTool[f]
		key := tool + " " + fmt.Sprintf("file%d", i)
		state := sc.env[tool]
		if state == "broken" {
			// the tool is absent exactly when its probe command fails: `which goimports` succeeds on a
			// broken goimports (its runs then fail), the other tools are probed by running them
			if tool == "goimports" {
				state = "failing"
			} else {
				state = "missing"
			}
		}
		switch {
		case f == generator.NoFormat:
			if o.errs[i] != "" {
				return "no-format-is-noop", "NoFormat request returned " + o.errs[i]
			}
		case state == "missing":
			if runs[key] != 0 {
				return "missing-tool-leaves-file", fmt.Sprintf("request %d: %s is missing but the formatter was run on the file", i, tool)
			}
			if o.errs[i] != "" {
				return "missing-tool-succeeds", fmt.Sprintf("request %d: %s is missing and the request failed with %q", i, tool, o.errs[i])
			}
		case state == "ok":
			if runs[key] != 1 {
				return "runs-once-per-request", fmt.Sprintf("request %d: formatter %s ran %d times on its file", i, tool, runs[key])
			}
			if o.errs[i] != "" {
				return "runs-once-per-request", fmt.Sprintf("request %d: %s succeeded but the request returned %q", i, tool, o.errs[i])
			}
		case state == "failing":
			if runs[key] != 1 {
				return "runs-once-per-request", fmt.Sprintf("request %d: formatter %s ran %d times on its file", i, tool, runs[key])
			}
			if o.errs[i] == "" {
				return "failing-run-reported", fmt.Sprintf("request %d: the run of %s failed but the request returned nil", i, tool)
			}
		}
		// state shared between requests without synchronisation shows as one request reporting
		// what belongs to another (the shim makes a failing tool print the file it was given)
		for j := range sc.reqs {
			if j != i && strings.Contains(o.errs[i], fmt.Sprintf("file%d", j)) {
				return "no-data-race", fmt.Sprintf("request %d returned an error mentioning the file of request %d: %q", i, j, o.errs[i])
			}
		}
		if f != generator.NoFormat && probes[tool] != 1 {
			return "probe-at-most-once", fmt.Sprintf("tool %s probed %d times although a request needed it", tool, probes[tool])
		}
	}
	return "", ""
}

func traceString(tr []event) string {
	var s []string
	for _, e := range tr {
		s = append(s, fmt.Sprintf("T%d:%s %s", e.Task, e.Kind, e.What))
	}
	return strings.Join(s, " ; ")
}

func scenarios(n int) []scenario {
	var out []scenario
	var rec func(reqs []generator.Format)
	rec = func(reqs []generator.Format) {
		if len(reqs) == n {
			// canonical: formats non-decreasing (requests are symmetric)
			for i := 1; i < len(reqs); i++ {
				if reqs[i] < reqs[i-1] {
					return
				}
			}
			tools := map[string]bool{}
			for _, f := range reqs {
				if t := formatTool[f]; t != "" {
					tools[t] = true
				}
			}
			var tl []string
			for t := range tools {
				tl = append(tl, t)
			}
			sort.Strings(tl)
			states := []string{"ok", "missing", "failing", "broken"}
			var envRec func(i int, env map[string]string)
			envRec = func(i int, env map[string]string) {
				if i == len(tl) {
					cp := map[string]string{}
					for k, v := range env {
						cp[k] = v
					}
					out = append(out, scenario{reqs: append([]generator.Format{}, reqs...), env: cp})
					return
				}
				for _, st := range states {
					env[tl[i]] = st
					envRec(i+1, env)
				}
			}
			envRec(0, map[string]string{})
			return
		}
		for _, f := range formats {
			rec(append(reqs, f))
		}
	}
	rec(nil)
	return out
}

func main() {
	log.SetOutput(io.Discard)
	tier := "quick"
	if len(os.Args) > 1 {
		tier = os.Args[1]
	}
	r := evid.NewReport("C20", tier)
	r.Rule = "N concurrent FormatFile requests on one Formatters x every assignment of {installed, missing, failing} to the tools involved x every schedule of the lock / exec / spawn points with at most B deviations from the default (run-to-completion) schedule; a case is one complete schedule; non-trivial = at least one context switch between two unfinished requests"
	r.Assumptions = []string{
		"scheduling points at Mutex.Lock and at the start of every external command; code between two points runs atomically (unsynchronised accesses are the business of the separate free-running -race pass)",
		"a deviation is any non-default choice of the next goroutine (preemptions and non-canonical choices after a blocking point): a superset of the preemption-bounded schedules",
	}
	type cfg struct{ n, bound int }
	cfgs := []cfg{{2, 1000}, {3, 2}}
	if tier == "thorough" {
		cfgs = []cfg{{2, 1000}, {3, 4}, {4, 2}}
	}
	for _, c := range cfgs {
		r.Bounds[fmt.Sprintf("N=%d deviation bound", c.n)] = c.bound
		for _, sc := range scenarios(c.n) {
			st := explore.Stats{}
			explore.Enumerate(c.bound, func(ch explore.Chooser) {
				run := ch.(*explore.Run)
				o := runOnce(sc, ch)
				// replay determinism: the same vector must give the same trace
				key := sc.String() + " || " + traceString(o.trace)
				switches := 0
				for i := 1; i < len(o.trace); i++ {
					if o.trace[i].Task != o.trace[i-1].Task {
						switches++
					}
				}
				r.Evaluations++
				r.TracesImpl++
				r.State(key, switches > len(sc.reqs)-1)
				r.Outcome(fmt.Sprintf("N=%d probes/runs pattern %s", len(sc.reqs), pattern(o)))
				if len(r.Samples) < 3 && explore.Cost(run.Choices) == 2 {
					r.Sample(map[string]any{"scenario": sc.String(), "schedule": explore.VecString(run.Vec()), "trace": traceString(o.trace), "errors": o.errs})
				}
				if cl, det := check(sc, o); cl != "" {
					o2 := runOnce(sc, &explore.Fixed{Vec: run.Vec()})
					if traceString(o2.trace) != traceString(o.trace) {
						r.Internal("schedule " + explore.VecString(run.Vec()) + " does not replay identically")
					}
					r.Fail(evid.Failure{Clause: "C20/" + cl, Sig: cl + " [" + reqNames(sc) + "]", Detail: fmt.Sprintf("scenario %s, schedule %s: %s\ntrace: %s", sc, explore.VecString(run.Vec()), det, traceString(o.trace)),
						Family: "F-sched", Vector: run.Vec(), Cost: explore.Cost(run.Choices), Features: []string{sc.String()},
						Extra: map[string]any{"scenario": sc.String(), "trace": traceString(o.trace)}})
				}
			}, func(*explore.Run) {}, &st)
			r.Transitions += st.Transitions
		}
	}
	// harness B: cmd.saveOutputs under the same scheduler (explored by a test inside package main)
	if hb := os.Getenv("VERIF_C20B"); strings.HasPrefix(hb, "{") {
		var b struct {
			Runs, Transitions, Scenarios, Bound int
			Failures                            []struct{ Clause, Scenario, Schedule, Detail, Trace string }
			Sample                              []string
		}
		if err := json.Unmarshal([]byte(hb), &b); err != nil {
			r.Internal("harness B result: " + err.Error())
		} else {
			r.Extra["harness_B_saveOutputs"] = map[string]any{"schedules": b.Runs, "transitions": b.Transitions, "scenarios": b.Scenarios, "deviation_bound": b.Bound, "sample": b.Sample}
			r.Evaluations += b.Runs
			r.TracesImpl += b.Runs
			r.Transitions += b.Transitions
			for _, f := range b.Failures {
				r.Fail(evid.Failure{Clause: "C20/" + f.Clause, Sig: "saveOutputs: " + f.Clause, Detail: fmt.Sprintf("harness B (cmd.saveOutputs), scenario %s, schedule %s: %s\ntrace: %s", f.Scenario, f.Schedule, f.Detail, f.Trace), Family: "F-sched"})
			}
		}
	} else {
		r.Extra["harness_B_saveOutputs"] = os.Getenv("VERIF_C20B")
		if os.Getenv("VERIF_C20B") != "" {
			r.Internal("harness B did not run: " + os.Getenv("VERIF_C20B"))
		}
	}
	race := os.Getenv("VERIF_C20_RACE")
	r.Extra["free_running_race_pass"] = race
	if strings.HasPrefix(race, "race: ") {
		r.Fail(evid.Failure{Clause: "C20/no-data-race", Sig: "data race reported by the race detector", Detail: race, Family: "F-sched"})
	}
	os.Exit(r.Finish())
}

func reqNames(sc scenario) string {
	var r []string
	for _, f := range sc.reqs {
		r = append(r, formatName[f])
	}
	return strings.Join(r, ",")
}

func pattern(o outcome) string {
	p, rn := 0, 0
	for _, e := range o.trace {
		if e.Kind == "probe" {
			p++
		} else if e.Kind == "run" {
			rn++
		}
	}
	return fmt.Sprintf("probes=%d runs=%d", p, rn)
}
