package prog

import (
	"fmt"
	"os"
	"runtime"
	"runtime/debug"
	"strings"

	"github.com/benoitkugler/gomacro/analysis"
	"github.com/benoitkugler/gomacro/generator"
	"github.com/benoitkugler/gomacro/generator/dart"
	"github.com/benoitkugler/gomacro/generator/go/gounions"
	"github.com/benoitkugler/gomacro/generator/go/randdata"
	"github.com/benoitkugler/gomacro/generator/go/sqlcrud"
	gensql "github.com/benoitkugler/gomacro/generator/sql"
	"github.com/benoitkugler/gomacro/generator/typescript"
)

// PanicInfo classifies a recovered panic.
type PanicInfo struct {
	Runtime bool // the value is a runtime.Error
	Msg     string
	Where   string // first frame inside gomacro
}

func (p *PanicInfo) String() string {
	if p == nil {
		return "ok"
	}
	k := "diagnostic"
	if p.Runtime {
		k = "runtime-error"
	}
	return k + ": " + p.Msg + " @ " + p.Where
}

// Guard runs f and classifies a panic.
func Guard(f func()) (pi *PanicInfo) {
	defer func() {
		if v := recover(); v != nil {
			pi = &PanicInfo{Msg: fmt.Sprint(v)}
			if _, ok := v.(runtime.Error); ok {
				pi.Runtime = true
			}
			pi.Where = gomacroFrame(string(debug.Stack()))
		}
	}()
	f()
	return nil
}

func gomacroFrame(stack string) string {
	lines := strings.Split(stack, "\n")
	for i, l := range lines {
		if strings.HasPrefix(l, "github.com/benoitkugler/gomacro/") && i+1 < len(lines) {
			fn := l
			if k := strings.LastIndex(fn, "("); k > 0 {
				fn = fn[:k]
			}
			fn = strings.TrimPrefix(fn, "github.com/benoitkugler/gomacro/")
			loc := strings.TrimSpace(lines[i+1])
			if k := strings.Index(loc, " +0x"); k > 0 {
				loc = loc[:k]
			}
			if k := strings.LastIndex(loc, "/"); k > 0 {
				loc = loc[k+1:]
			}
			return fn + " " + loc
		}
	}
	return "?"
}

// Target names
const (
	TGounions  = "gounions"
	TRanddata  = "randdata"
	TSqlcrud   = "sqlcrud"
	TSqlcrudS  = "sqlcrud+sets"
	TSQL       = "sql"
	TTS        = "typescript"
	TDart      = "dart"
	StAnalysis = "analysis"
)

var AllTargets = []string{TGounions, TRanddata, TSqlcrud, TSqlcrudS, TSQL, TTS, TDart}

// Outputs of one target: file name -> text. Single-file targets use "".
type Outputs map[string]string

// StageMarks, when set (worker processes), announces every stage on stderr so
// that the orchestrator can name the stage in which a process died.
var StageMarks = false

func mark(stage string) {
	if StageMarks {
		os.Stderr.WriteString("STAGE " + stage + "\n")
	}
}

// Analyse runs NewAnalysisFromFile on the i-th analysed file.
func (l *Loaded) Analyse(i int) (an *analysis.Analysis, pi *PanicInfo) {
	mark("analysis")
	pi = Guard(func() { an = analysis.NewAnalysisFromFile(l.Root, l.RootFiles[i]) })
	return an, pi
}

// DartRoot is the directory handed to dart.Generate (the common root of the sources).
func (l *Loaded) DartRoot() string {
	if l.DiskDir != "" {
		return l.DiskDir
	}
	return l.Prog.Dir(l.Prog.Root())
}

// RunTarget runs one generator on the analyses (only dart uses more than the first).
func (l *Loaded) RunTarget(target string, ans []*analysis.Analysis) (out Outputs, pi *PanicInfo) {
	an := ans[0]
	mark(target)
	pi = Guard(func() {
		switch target {
		case TGounions:
			out = Outputs{"": generator.WriteDeclarations(gounions.Generate(an))}
		case TRanddata:
			out = Outputs{"": generator.WriteDeclarations(randdata.Generate(an))}
		case TSqlcrud:
			out = Outputs{"": generator.WriteDeclarations(sqlcrud.Generate(an, false))}
		case TSqlcrudS:
			out = Outputs{"": generator.WriteDeclarations(sqlcrud.Generate(an, true))}
		case TSQL:
			out = Outputs{"": generator.WriteDeclarations(gensql.Generate(an))}
		case TTS:
			out = Outputs{"": generator.WriteDeclarations(typescript.Generate(an))}
		case TDart:
			out = Outputs{}
			for _, f := range dart.Generate(l.DartRoot(), ans) {
				out[f.Filename] = generator.WriteDeclarations(f.Content)
			}
		default:
			panic("unknown target " + target)
		}
	})
	return out, pi
}
