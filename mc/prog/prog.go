// Package prog holds synthesised programs, loads them into in-memory
// *packages.Package values (DESIGN §3.4) and runs the gomacro pipeline on them.
package prog

import (
	"fmt"
	"go/ast"
	"go/format"
	"go/importer"
	"go/parser"
	"go/token"
	"go/types"
	"io"
	"log"
	"path"
	"sort"
	"strings"

	"golang.org/x/tools/go/packages"
	"verif.test/mc/evid"
)

func init() { log.SetOutput(io.Discard) }

const Module = "verif.test/proj"

// Infix is inserted after the module path in every synthesised import path ("/c12"), so that
// many programs can live in one scratch module (DESIGN §8.1). Empty for in-process runs.
var Infix = ""

func Base() string { return Module + Infix }

type File struct {
	Name string
	Src  string
	// RawTail is appended to Src after formatting: declarations that gofmt would lay out
	// differently (several declarations on one line).
	RawTail string
}

type Pkg struct {
	Path  string // import path
	Name  string
	Files []File
}

// Program is a synthesised set of packages. Pkgs are in dependency order
// (dependencies first); the last one is the root (analysed) package.
type Program struct {
	Family   string
	Pkgs     []*Pkg
	Analysed []string          // file names of the root package handed to the analysis; [0] is the main one
	SrcRoot  string            // virtual directory under which import paths are laid out
	Features []string          // names of the non-default choices
	Notes    map[string]string // family specific ground truth for oracles
}

func (p *Program) Root() *Pkg { return p.Pkgs[len(p.Pkgs)-1] }

func (p *Program) Dir(pk *Pkg) string { return path.Join(p.srcRoot(), pk.Path) }

func (p *Program) srcRoot() string {
	if p.SrcRoot == "" {
		return "/virt/go/src"
	}
	return p.SrcRoot
}

func (p *Program) AbsFile(pk *Pkg, name string) string { return path.Join(p.Dir(pk), name) }

// FilesMap returns absolute virtual path -> source.
func (p *Program) FilesMap() map[string]string {
	out := map[string]string{}
	for _, pk := range p.Pkgs {
		for _, f := range pk.Files {
			out[p.AbsFile(pk, f.Name)] = f.Src
			if f.RawTail != "" {
				out[p.AbsFile(pk, f.Name)] += "\n" + f.RawTail
			}
		}
	}
	return out
}

// Hash identifies the program text (and which files are analysed).
func (p *Program) Hash() string {
	var parts []string
	m := p.FilesMap()
	keys := make([]string, 0, len(m))
	for k := range m {
		keys = append(keys, k)
	}
	sort.Strings(keys)
	for _, k := range keys {
		parts = append(parts, k, m[k])
	}
	parts = append(parts, p.Analysed...)
	parts = append(parts, p.SrcRoot)
	nk := make([]string, 0, len(p.Notes))
	for k := range p.Notes {
		nk = append(nk, k)
	}
	sort.Strings(nk)
	for _, k := range nk {
		parts = append(parts, k, p.Notes[k])
	}
	return evid.Hash(parts...)
}

// Gofmt formats every file; a syntax error is an internal error of the synthesiser.
func (p *Program) Gofmt() error {
	for _, pk := range p.Pkgs {
		for i, f := range pk.Files {
			b, err := format.Source([]byte(f.Src))
			if err != nil {
				return fmt.Errorf("synthesised file %s/%s does not parse: %v\n%s", pk.Path, f.Name, err, f.Src)
			}
			pk.Files[i].Src = string(b)
			if f.RawTail != "" {
				pk.Files[i].Src += "\n" + f.RawTail
				pk.Files[i].RawTail = ""
				if _, err := format.Source([]byte(pk.Files[i].Src)); err != nil {
					return fmt.Errorf("synthesised file %s/%s does not parse: %v\n%s", pk.Path, f.Name, err, pk.Files[i].Src)
				}
			}
		}
	}
	return nil
}

// Loaded is a type-checked program.
type Loaded struct {
	Prog *Program
	Fset *token.FileSet
	Pkgs map[string]*packages.Package
	Root *packages.Package
	// RootFiles are the absolute names of the analysed files.
	RootFiles []string
	// DiskDir, when set, is the real directory of the root package (programs loaded from disk).
	DiskDir string
}

var (
	stdFset     = token.NewFileSet()
	stdImporter = importer.ForCompiler(stdFset, "source", nil)
	stdCache    = map[string]*packages.Package{}
)

func stdPackage(ipath string) (*packages.Package, error) {
	if p, ok := stdCache[ipath]; ok {
		return p, nil
	}
	tp, err := stdImporter.Import(ipath)
	if err != nil {
		return nil, err
	}
	p := &packages.Package{ID: ipath, PkgPath: ipath, Name: tp.Name(), Types: tp, Fset: stdFset, Imports: map[string]*packages.Package{}}
	stdCache[ipath] = p
	return p, nil
}

// StdImporter is the shared source importer for the standard library.
func StdImporter() types.Importer { return stdImporter }

type progImporter struct {
	user map[string]*packages.Package
}

func (pi progImporter) Import(ipath string) (*types.Package, error) {
	if p, ok := pi.user[ipath]; ok {
		return p.Types, nil
	}
	p, err := stdPackage(ipath)
	if err != nil {
		return nil, err
	}
	return p.Types, nil
}

// Load parses and type-checks the program. Any error is an internal error of the
// synthesiser (programs must be well typed) unless allowErrors is set.
// ParseReversed: see Load.
var ParseReversed bool

func Load(p *Program) (*Loaded, error) {
	fset := token.NewFileSet()
	l := &Loaded{Prog: p, Fset: fset, Pkgs: map[string]*packages.Package{}}
	for _, pk := range p.Pkgs {
		// go/packages parses the files of a package concurrently: the order in which they enter the
		// FileSet (hence the relative order of token.Pos across files) is not fixed. ParseReversed
		// makes them enter in reverse order; Syntax and GoFiles keep the order of the file list.
		syntax := make([]*ast.File, len(pk.Files))
		names := make([]string, len(pk.Files))
		for k := range pk.Files {
			i := k
			if ParseReversed {
				i = len(pk.Files) - 1 - k
			}
			f := pk.Files[i]
			abs := p.AbsFile(pk, f.Name)
			af, err := parser.ParseFile(fset, abs, f.Src, parser.ParseComments|parser.SkipObjectResolution)
			if err != nil {
				return nil, fmt.Errorf("parse %s: %v", abs, err)
			}
			syntax[i] = af
			names[i] = abs
		}
		info := &types.Info{
			Types:        map[ast.Expr]types.TypeAndValue{},
			Defs:         map[*ast.Ident]types.Object{},
			Uses:         map[*ast.Ident]types.Object{},
			Implicits:    map[ast.Node]types.Object{},
			Instances:    map[*ast.Ident]types.Instance{},
			Scopes:       map[ast.Node]*types.Scope{},
			Selections:   map[*ast.SelectorExpr]*types.Selection{},
			FileVersions: map[*ast.File]string{},
		}
		var errs []string
		conf := types.Config{
			Importer: progImporter{l.Pkgs},
			Error:    func(err error) { errs = append(errs, err.Error()) },
		}
		tp, _ := conf.Check(pk.Path, fset, syntax, info)
		if len(errs) > 0 {
			return nil, fmt.Errorf("type errors in %s: %s", pk.Path, strings.Join(errs, "; "))
		}
		pp := &packages.Package{
			ID: pk.Path, Name: pk.Name, PkgPath: pk.Path,
			GoFiles: names, CompiledGoFiles: names,
			Syntax: syntax, Fset: fset, Types: tp, TypesInfo: info,
			Imports: map[string]*packages.Package{},
		}
		for _, imp := range tp.Imports() {
			if up, ok := l.Pkgs[imp.Path()]; ok {
				pp.Imports[imp.Path()] = up
			} else if sp, err := stdPackage(imp.Path()); err == nil {
				pp.Imports[imp.Path()] = sp
			}
		}
		l.Pkgs[pk.Path] = pp
		l.Root = pp
	}
	for _, a := range p.Analysed {
		l.RootFiles = append(l.RootFiles, p.AbsFile(p.Root(), a))
	}
	return l, nil
}
