#!/bin/bash
# Builds the checker from files on disk only (offline).
set -eu
cd "$(dirname "$0")"
export GOFLAGS=-mod=mod GOPROXY=off GOSUMDB=off GOTOOLCHAIN=local
mkdir -p .bin evidence
( cd mc && go build -o ../.bin/mc ./cmd/mc )
echo "setup ok"
