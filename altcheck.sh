#!/bin/bash
# usage: ./altcheck.sh <repo-copy> <ID> [quick|thorough]
# Runs one check against a scratch copy (or worktree) of the repository instead of /repo, from a
# scratch copy of /verif, so that neither /repo nor /verif/evidence is touched. Used to try
# property-breaking changes while other runs read /repo. Output: the check's summary and
# VIOLATION lines; the scratch copy of /verif stays in /tmp/alt/<ID> (replays) until removed.
set -u
REPO=$(readlink -f "$1"); ID=$2; TIER=${3:-quick}
export GOFLAGS=-mod=mod GOPROXY=off GOSUMDB=off GOTOOLCHAIN=local
ALT=/tmp/alt/$ID
rm -rf "$ALT"; mkdir -p "$ALT"
rsync -a --exclude .git --exclude .bin --exclude replays --exclude evidence --exclude seeded --exclude mutants /verif/ "$ALT/verif/"
mkdir -p "$ALT/verif/evidence" "$ALT/verif/.bin"
cd "$ALT/verif/mc" && go mod edit -replace github.com/benoitkugler/gomacro="$REPO" || exit 2
go build -o ../.bin/mc ./cmd/mc || { echo "BUILD FAILED"; exit 2; }
cd "$ALT/verif" && VERIF_DIR="$ALT/verif" VERIF_REPO="$REPO" ./.bin/mc check "$ID" "$TIER" 2>&1 | grep -E "^(VIOLATION|KNOWN-FINDING|C[0-9]+ tier|BUILD|INTERNAL|panic)" | cut -c1-300
exit ${PIPESTATUS[0]}
