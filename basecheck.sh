#!/bin/bash
# runs baseline.sh and compares with /root/.vp/BASELINE.json stable_pass
/verif/baseline.sh > /tmp/basecheck.json 2>/tmp/basecheck.err
python3 - <<'PY'
import json
res={}
for l in open('/tmp/basecheck.json'):
    try: e=json.loads(l)
    except: continue
    if e.get('Test') and e.get('Action') in('pass','fail','skip') and '/' not in e['Test']:
        res[e['Package']+'::'+e['Test']]=e['Action']
base=json.load(open('/root/.vp/BASELINE.json'))['stable_pass']
bad=[b for b in base if res.get(b)!='pass']
print('BASELINE', 'OK' if not bad else 'BROKEN', len(base)-len(bad), '/', len(base), bad)
PY
