#!/bin/bash
# Runs the repository's own test suite (guard off: there are no in-tree hooks) on a scratch
# copy of /repo's working tree. The suite rewrites its own fixtures (and leaves
# analysis/sql/test/crud_gen.go importing itself when goimports is absent), so it is never run
# inside /repo. Prints go test -json to stdout.
set -u
export GOFLAGS=-mod=mod GOPROXY=off GOSUMDB=off GOTOOLCHAIN=local
T=$(mktemp -d /tmp/gomacro-baseline.XXXXXX)
trap 'rm -rf "$T"' EXIT
rsync -a --exclude .git /repo/ "$T/repo/"
cd "$T/repo" && go test -json -vet=off -count=1 -timeout 25m ./...
