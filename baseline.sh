#!/bin/bash
# Runs the repository's own test suite (guard off: there are no in-tree hooks) on a scratch
# copy of /repo's working tree. The suite rewrites its own fixtures (and leaves
# analysis/sql/test/crud_gen.go importing itself when goimports is absent), so it is never run
# inside /repo. Prints go test -json to stdout.
set -u
export GOFLAGS=-mod=mod GOPROXY=off GOSUMDB=off GOTOOLCHAIN=local
T=$(mktemp -d /tmp/gomacro-baseline.XXXXXX)
trap 'rm -rf "$T"' EXIT
rsync -a --exclude .git /repo/ "$T/repo/"
# The pinned HEAD carries fixture files regenerated (unformatted, crud_gen.go importing its own
# package) by earlier suite runs; restore the generated fixtures of the original snapshot commit.
ROOT=$(git -C /repo rev-list --max-parents=0 HEAD | tail -1)
for f in analysis/sql/test/crud_gen.go generator/dart/test/predefined.dart generator/dart/test/testsource.dart \
  generator/dart/test/testsource_subpackage.dart generator/go/gounions/test/gen.go generator/go/randdata/test/data.go \
  generator/sql/test/create.sql generator/typescript/test/gen.ts; do
  git -C /repo show "$ROOT:$f" > "$T/repo/$f"
done
cd "$T/repo" && go test -json -vet=off -count=1 -timeout 25m ./...
