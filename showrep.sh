#!/bin/bash
# usage: showrep.sh <ID> [maxlen] : one line per replay file
for f in /verif/replays/$1/*.json; do python3 - "$f" "${2:-300}" <<'PY'
import json,sys
f=json.load(open(sys.argv[1])); n=int(sys.argv[2])
print(f['clause'],'|',f['sig'][:150],'|',f.get('features'),'|',f['detail'][:n].replace('\n',' // '))
PY
done
