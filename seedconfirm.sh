#!/bin/bash
# usage: seedconfirm.sh <ID> : confirms a seeded change produced by a sub-agent in /tmp/seed:
#  (1) its demonstration fails with the change and passes without it,
#  (2) with the change the project builds and the 36 baseline tests pass.
# Writes /tmp/seed/out/<ID>/confirm.json
ID=$1
W=/tmp/seed/$ID; O=/tmp/seed/out/$ID
export GOFLAGS=-mod=mod GOPROXY=off GOSUMDB=off GOTOOLCHAIN=local
cmd=$(python3 -c "import json; print(json.load(open('$O/meta.json'))['demo_cmd'].split('#')[0].split('   (')[0].strip())")
git -C $W checkout -q -- . 2>/dev/null
git -C $W apply $O/patch.diff || { echo "patch does not apply to the worktree"; exit 2; }
( eval "$cmd" ) > $O/confirm_with.txt 2>&1; with=$?
git -C $W apply -R $O/patch.diff
( eval "$cmd" ) > $O/confirm_without.txt 2>&1; without=$?
git -C $W apply $O/patch.diff
git -C $W checkout -q -- go.sum 2>/dev/null
T=$(mktemp -d /tmp/seedsuite.XXXXXX)
rsync -a --exclude .git /repo/ $T/repo/
( cd $T/repo && patch -s -p1 < $O/patch.diff ) || { echo "patch does not apply to /repo"; rm -rf $T; exit 2; }
ROOT=$(git -C /repo rev-list --max-parents=0 HEAD | tail -1)
for f in analysis/sql/test/crud_gen.go generator/dart/test/predefined.dart generator/dart/test/testsource.dart generator/dart/test/testsource_subpackage.dart generator/go/gounions/test/gen.go generator/go/randdata/test/data.go generator/sql/test/create.sql generator/typescript/test/gen.ts; do git -C /repo show "$ROOT:$f" > "$T/repo/$f"; done
( cd $T/repo && go build $(go list ./... | grep -v httpapi/test$) ) > $O/confirm_build.txt 2>&1; build=$?
( cd $T/repo && go test -json -vet=off -count=1 -timeout 25m ./... ) > $T/test.json 2>/dev/null
python3 - "$T/test.json" "$O/confirm.json" "$with" "$without" "$build" <<'PY'
import json,sys
res={}
for l in open(sys.argv[1]):
    try: e=json.loads(l)
    except: continue
    if e.get('Test') and e.get('Action') in('pass','fail','skip') and '/' not in e['Test']:
        res[e['Package']+'::'+e['Test']]=e['Action']
base=json.load(open('/root/.vp/BASELINE.json'))['stable_pass']
bad=[b for b in base if res.get(b)!='pass']
out={"demo_exit_with_change":int(sys.argv[3]),"demo_exit_without_change":int(sys.argv[4]),"build_exit":int(sys.argv[5]),"baseline_passed":len(base)-len(bad),"baseline_total":len(base),"baseline_failing":bad}
out["confirmed"]= out["demo_exit_with_change"]!=0 and out["demo_exit_without_change"]==0 and out["build_exit"]==0 and not bad
json.dump(out,open(sys.argv[2],'w'),indent=1)
print(sys.argv[2], out)
PY
rm -rf $T
