#!/usr/bin/env python3
"""Round 2 of the independently written property-breaking changes: stores each confirmed change
under /verif/seeded/<id>-2/ (patch.diff, demo/, meta.json) and records which check reports it. The
check is run by altcheck.sh against the author's worktree /tmp/seed/<id> (which holds the change), so
/repo and /verif/evidence are not touched."""
import json, os, shutil, subprocess, sys, glob
INITIAL_MISS = {
 "C03": "missed at first: no package declared a typed constant of an enum of another package; root-const-of-sub-enum (`const DefaultKind = subpkg.Fancy`) was added to F-types and F-enum",
 "C04": "missed at first: only one table had a jsonb column; team.slot=same-column gives Team a column of the same name and type as User's",
 "C05": "missed at first: link rows took all their keys from one variant, so two stored rows never agreed on one key only; rows #3 (#0 with the first key of #1) and #4 (#1 with a NULL / zero last key) were added to the operation alphabet",
 "C07": "missed at first: no table had two single-column UNIQUE constraints; a user directive with UNIQUE(Name) and UNIQUE(Mood) was added",
 "C08": "missed at first: the self reference was untagged; fk.form=self-reference-tagged (`Parent IdUser `gomacro-sql-foreign:\"User\"``) was added",
 "C11": "missed at first: no struct of another package was spelled like a union member; homonym=square-in-sub was added to F-union",
 "C12": "missed at first: every synthesised file was gofmt'ed, one declaration per line; decl.style=same-line appends `type Zeta struct{ Z int }; type Alpha string` and a one-line group after formatting",
 "C13": "missed at first: handler names were unique in their file; r0.handler=method-after-homonym / func-after-homonym-method declare an earlier method of the same name on another receiver",
 "C14": "missed at first: the only single-endpoint classes were the named-int query parameter and the JSON form field; one class per kind of lone query parameter, lone JSON body and lone JSON return was added",
 "C15": "missed at first: the union field of the scaffold carried no tag; union.field-tag (json:\"-\", renamed, omitempty, gomacro:\"ignore\") was added",
 "C16": "missed at first: no directive had two REFERENCES clauses; a link directive naming a table declared elsewhere in its second clause was added",
 "C17": "missed at first: the only type error sat in a listed file; error cases type-error-in-import and type-error-in-transitive-import (error inside a function body of a package that is only imported) were added",
}
ids = sys.argv[1:] or ["C%02d" % i for i in range(1, 21)]
for pid in ids:
    src = "/tmp/seed/out/%s" % pid
    conf = json.load(open(src + "/confirm.json")) if os.path.exists(src + "/confirm.json") else {}
    if not conf.get("confirmed"):
        print(pid, "NOT confirmed", conf); continue
    st = subprocess.run(["git", "-C", "/tmp/seed/" + pid, "diff", "--stat"], capture_output=True, text=True).stdout
    if not st.strip():
        print(pid, "worktree does not hold the change"); continue
    dst = "/verif/seeded/%s-2" % pid
    shutil.rmtree(dst, ignore_errors=True)
    os.makedirs(dst)
    shutil.copy(src + "/patch.diff", dst + "/patch.diff")
    if os.path.isdir(src + "/demo"):
        shutil.copytree(src + "/demo", dst + "/demo", ignore=shutil.ignore_patterns("work", "*.bin", "clean", ".git", "*.log"))
    out = subprocess.run(["/verif/altcheck.sh", "/tmp/seed/" + pid, pid, "quick"], capture_output=True, text=True).stdout
    reported = []
    for f in sorted(glob.glob("/tmp/alt/%s/verif/replays/%s/*.json" % (pid, pid))):
        r = json.load(open(f))
        if r.get("known"):
            continue
        reported.append({"clause": r["clause"], "signature": r["sig"][:160], "features": r.get("features")})
    summary = [l for l in out.splitlines() if l.startswith(pid + " tier=")]
    meta = json.load(open(src + "/meta.json"))
    meta.update({
        "round": 2,
        "origin": "written by a fresh sub-agent that was given only the text of the property, the list of mechanisms already used in round 1 and a scratch worktree of the repository",
        "confirmation": {"what_was_run": "seedconfirm.sh: the demonstration with and without the change in the author's worktree; go build + the repository's 36 baseline tests on a scratch copy of /repo with the change applied", **conf},
        "detected_by": pid if reported else None,
        "reported_violations": reported[:6],
        "check_summary_with_change": summary[-1] if summary else "",
        "how_the_check_was_run": "altcheck.sh <worktree holding the change> %s quick (same as: git -C /repo apply patch.diff; ./check %s quick; git -C /repo checkout -- .)" % (pid, pid),
        "strengthening": INITIAL_MISS.get(pid, "reported by the check as it stood when the change was written"),
    })
    json.dump(meta, open(dst + "/meta.json", "w"), indent=1)
    print(pid, "stored; detected" if reported else "stored; NOT detected", len(reported), summary[-1] if summary else out[-300:])
    shutil.rmtree("/tmp/alt/" + pid, ignore_errors=True)
