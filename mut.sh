#!/bin/bash
# usage: mut.sh <patch-file> <check id>... : applies a patch to /repo, runs the quick checks, reverts.
P=$(realpath "$1"); shift
git -C /repo apply "$P" || { echo "patch does not apply"; exit 2; }
# the evidence files describe the unchanged tree: keep them aside while the mutant is applied
EVB=$(mktemp -d /tmp/evidence-backup.XXXXXX); cp -a /verif/evidence/. "$EVB"/ 2>/dev/null
for c in "$@"; do
  echo "== $c on $(basename $P)"; /verif/check $c quick 2>&1 | grep -E "^(VIOLATION|KNOWN|C[0-9]+ tier|INTERNAL|BUILD)" | head -8
done
git -C /repo checkout -- . 
cp -a "$EVB"/. /verif/evidence/ 2>/dev/null; rm -rf "$EVB"
