#!/usr/bin/env python3
"""Regenerates MANIFEST.json from the table below (kept next to the checks so that the
manifest never drifts from what is built)."""
import json

props = [json.loads(l) for l in open('/verif/properties.jsonl')]

# id -> (technique, level text, level note, design ref)
CHECKS = {
 "C08": ("bounded exhaustive program enumeration (deviation-bounded DFS over the F-tables/F-types program grammar) against a reference Go->SQL mapping computed on go/types",
         "every program within 2 (quick) / 3 (thorough) deviations of the F-tables scaffold and 1 / 2 of F-types is analysed by the real code, its SQL output is parsed and compared column by column, constraint by constraint with an independent restatement of the mapping",
         "the reference mapping is my reading of the documented mapping; programs outside the alphabet are not covered", "DESIGN.md §4 C08"),
 "C10": ("bounded exhaustive program enumeration (F-enum, 4 / 5 deviations) against constants and trailing comments read from go/types and the syntax tree",
         "every constant-declaration style, spelling, value, comment and location combination within the bound is analysed and the Enum nodes compared with an independent walk",
         "alphabet of F-enum (DESIGN §3.3); in-memory package loader (conformance: C17)", "DESIGN.md §4 C10"),
 "C11": ("bounded exhaustive program enumeration (F-union, 3 / 4 deviations) against value method sets computed with types.NewMethodSet",
         "every combination of marker methods, receiver kinds, member kinds, packages and reaches within the bound; members and Implements compared on every reachable node",
         "generic candidates outside the alphabet", "DESIGN.md §4 C11"),
 "C12": ("bounded exhaustive program enumeration (F-types, F-union, F-enum) with a paired walk (go/types type, analysis node) as reference",
         "closure, classification, Type() round trip, link consistency, source order and termination on every program within the bound, incl. self/mutually recursive, alias, generic and named-over-named forms; worker processes make stack overflows observable",
         "time.Time recognised by the text of its underlying struct", "DESIGN.md §4 C12"),
 "C13": ("bounded exhaustive program enumeration (F-routes, 2 / 3 deviations) against the synthesiser's own route table",
         "every handler form, path expression form, contract-call subset (3 slots x 19 forms), return form, layout and prefix filter within the bound; ParseEcho compared field by field",
         "route idioms outside the alphabet (groups, middleware chains) not covered", "DESIGN.md §4 C13"),
 "C16": ("bounded exhaustive program enumeration (F-tables directive and declaration-style sites) against a reference expander working on the syntax tree",
         "every directive x declaration style x table name x column combination within the bound; custom constraints, select keys and custom queries compared with the reference expansion",
         "placeholders of custom queries are of the form Field = $name$", "DESIGN.md §4 C16"),
 "C18": ("bounded exhaustive program enumeration (all in-process families) x analysis + 7 targets, panics classified, worker-process isolation for fatal crashes",
         "no program within the bound makes analysis or a generator die with a Go runtime error or a fatal crash; unsupported forms in every slot position",
         "a panic whose value is not a runtime.Error counts as an explicit diagnostic", "DESIGN.md §4 C18"),
 "C19": ("complete enumeration of declaration lists and of all their arrangements against a reference merge",
         "all sequences up to length 5 (6 thorough) over 3 IDs x 2 contents x 2 priorities and every distinct arrangement of 13..16-element multisets (crossing sort.Slice's insertion-sort threshold)",
         "alphabet of 3 IDs / 2 contents; lists longer than 16 not explored", "DESIGN.md §4 C19"),
}

checks = []
for pid, (tech, text, note, ref) in sorted(CHECKS.items()):
    checks.append({
        "property_id": pid,
        "quick_cmd": f"./check {pid} quick",
        "thorough_cmd": f"./check {pid} thorough",
        "evidence_file": f"/verif/evidence/{pid}.json",
        "replay_cmd_template": "./.bin/mc replay {path}",
        "engine": "mc",
        "level_claimed": {"category": "model_checking", "text": text, "design_ref": ref},
        "level_note": note,
        "technique": tech,
    })

NA_REASON = "check under construction in this session (DESIGN §10 build order); not claimed yet"
manifest = {
    "version": 1,
    "setup_cmd": "cd /verif && ./setup.sh",
    "hooks": {
        "guard": "verif-overlay",
        "enable": "no in-tree hooks: checks compile instrumented copies of /repo's current files with `go build -overlay` (DESIGN §3.7)",
        "baseline_off_cmd": "/verif/baseline.sh",
        "source_commits": [],
        "add_only": True,
    },
    "engines": [{
        "name": "mc", "path": "/verif/mc", "serves_properties": sorted(CHECKS),
        "kind_free_text": "hand-written deviation-bounded choice-vector explorer in Go (DFS over choice points, iterated bounds, worker processes) running the real gomacro code on every enumerated program / input / order / schedule and comparing with reference models",
    }],
    "checks": checks,
    "not_applicable": [{"property_id": p["id"], "reason": NA_REASON} for p in props if p["id"] not in CHECKS],
    "notes": "see DESIGN.md; known genuine defects left unrepaired are listed in known_findings.json",
}
json.dump(manifest, open('/verif/MANIFEST.json', 'w'), indent=1)
print("claimed:", sorted(CHECKS), "not yet:", [x["property_id"] for x in manifest["not_applicable"]])
