#!/usr/bin/env python3
"""Regenerates MANIFEST.json from the table below (kept next to the checks so that the
manifest never drifts from what is built)."""
import json

props = [json.loads(l) for l in open('/verif/properties.jsonl')]

# id -> (technique, level text, level note, design ref)
CHECKS = {
 "C14": ("complete enumeration of the endpoint space (2688 endpoints: verb x input x query-parameter subset x return kind) x 2 argument vectors; every generated method is executed under Node against a recording stand-in for axios and compared with the request computed from the endpoint",
         "verb, URL, body (JSON / FormData entries in order / null / absent), params with per-kind stringification, responseType, headers, returned value, startRequest; type declarations parsed by tsparse (valid, once, every type a signature mentions); endpoint lists extracted from F-routes programs also generate a well-formed client",
         "node/ts2js.js strips type annotations of the fixed class template; JSON/form inputs combined with POST/PUT only", "DESIGN.md §4 C14"),
 "C06": ("bounded exhaustive program enumeration (F-types incl. second analysed file and both root shapes, F-union, F-enum) with a structured scan of the Dart files (dartscan) compared with go/types",
         "every program within 2 / 3 deviations: constructor arity and order, implements clauses, union dispatch (cases, is-branches, Kind strings), enum value tables / index mapping, every identifier each file uses defined exactly once in it or in one imported generated file, no self-import, one file per package",
         "Dart is not executed (no SDK offline); struct JSON keys are decided in C09", "DESIGN.md §4 C06"),
 "C09": ("bounded exhaustive program enumeration (F-types, full tag and embedding alphabet) with encoding/json itself as oracle through reflect.StructOf twins, plus metamorphic pairs (program, program without its ignored field)",
         "every struct of every program within 2 / 3 deviations: Exported()/JSONName() equal the keys encoding/json emits (minus gomacro:\"ignore\"), the keys read back from the TypeScript, Dart and validator texts equal that list, and the three outputs are unchanged when an ignored field is removed",
         "key conflicts (two fields with one JSON name) are outside the alphabet", "DESIGN.md §4 C09"),
 "C17": ("exhaustive enumeration of file sets over a directory alphabet on disk, each loaded by the real analysis.LoadSources (go list); plus the loader-conformance pass binding the in-memory loader of the other checks to the real one",
         "every ordered set of 1..3 files over {., a, ab, abc, ab1, ab2, a/x, ab/x} x {f.go, g.go} x relative/absolute/mixed paths x 5 error cases within the deviation bound (4 quick / complete thorough): package per file, existing ancestor root, errors instead of crashes; 118 (quick) programs of the in-process families loaded through both loaders give byte-identical outputs for analysis + 7 targets",
         "directory names outside the alphabet (spaces, symlinks) not covered", "DESIGN.md §4 C17, §3.4"),
 "C07": ("exhaustive exploration of map iteration orders: every map range of gomacro's analysis and generator packages is rewritten (build overlay, go/types driven) into a choice point; all alternative orders at every executed range, with 1 (quick) / 2 (thorough) order deviations, compared byte for byte with the canonical-order run; plus stateless model checking of the CLI's configuration mode (Config.run) under a cooperative scheduler: every goroutine schedule within 1 / 2 deviations must write the files of the canonical schedule",
         "389 programs (all families, <= 1 deviation) x analysis + 7 targets (+ typescript/api for route files): every output file and the file set are identical under every explored order; all n! orders for n <= 4 keys, reversal / rotations / adjacent transpositions / move-to-fronts above",
         "library pass: map iteration is the only nondeterminism before saveOutputs; the CLI is driven on one two-file module (dart + typescript/types) with all tools missing; programs that crash a generator (known finding) are left out", "DESIGN.md §4 C07, §8.2"),
 "C20": ("stateless model checking of the implementation: all schedules of the lock / exec / spawn points of N concurrent FormatFile calls under a cooperative scheduler (verifhook overlay), bounded by the number of deviations from run-to-completion; x all tool environments",
         "N=2 unbounded and N=3 with <= 2 (quick) / N=3 <= 4, N=4 <= 2 (thorough) deviations, for every multiset of formats and every assignment of {installed, missing, failing} to the tools involved: probe at most once per cache, exactly one run per request, missing tool => nil and untouched file, failing run => error, no deadlock, no panic; each failing schedule is replayed before it is believed",
         "data races are decided by a separate free-running pass of the same harness body built with -race and stand-in tools on PATH (sampling, reported separately in the evidence); scheduling points only at Lock and command start", "DESIGN.md §4 C20, §8.3"),
 "C01": ("bounded exhaustive program enumeration (F-types, F-tables, F-enum) x 4 Go generator configurations, each accepted output import-fixed and type-checked with go/types next to its source package",
         "every program within 2 (quick) / 3 (thorough) deviations x {gounions, randdata, sqlcrud, sqlcrud+sets}: no accepted input yields Go that fails to parse or type-check",
         "quick tier uses an in-memory model of goimports (unused imports removed, missing ones added by package name among the program's packages then the standard library); lib/pq replaced by a stub with its signatures", "DESIGN.md §4 C01"),
 "C02": ("bounded exhaustive enumeration of programs x values (shared deviation budget) executed in a compiled binary against a reference encoder built on encoding/json",
         "every program within 1 / 2 deviations of F-types is compiled with its generated wrappers; every value of every analysed type within the remaining budget (total 2 / 3) is marshalled, unmarshalled (deep equality modulo nil/empty) and its wire document compared with the reference",
         "the reference applies encoding/json's field rules to structs holding unions and encoding/json itself everywhere else", "DESIGN.md §4 C02"),
 "C03": ("bounded exhaustive enumeration of programs x values; documents produced by the compiled Go code are checked for structural inhabitation of the parsed TypeScript output (tsparse)",
         "well-formedness, exactly-once declarations and inhabitation of every emitted document for every analysed type within the shared budget",
         "tsparse is the reference for 'valid TypeScript' (no compiler offline); fields tagged gomacro:\"ignore\" are outside the check", "DESIGN.md §4 C03"),
 "C04": ("bounded exhaustive enumeration of programs x values x all single-point corruptions, validators interpreted by a PL/pgSQL model (vpg) with three-valued logic",
         "for every jsonb column: the CHECK never evaluates to FALSE (or errors) on a Go-emitted document and evaluates to FALSE or errors on every corruption of the five listed classes; every called function is defined",
         "vpg written from the PostgreSQL manual (no PostgreSQL offline); left-to-right short-circuit evaluation of AND/OR", "DESIGN.md §4 C04"),
 "C05": ("explicit-state breadth-first search over CRUD histories: state = contents of an in-memory PostgreSQL model (vsql) built from the generated DDL, transitions = the generated functions, compared step by step with a map model; programs enumerated by deviation bound",
         "BFS to depth 3 (quick) / 4 (thorough) from the empty database over every generated function x 3 row variants x existing/missing ids, for every program within 1 / 2 deviations of F-tables; after each write the whole store is compared with the model",
         "vsql mimics PostgreSQL + lib/pq for the emitted statement shapes; FOREIGN KEY / UNIQUE / CHECK not enforced; custom queries executed but not modelled", "DESIGN.md §4 C05, §8.4"),
 "C15": ("bounded exhaustive enumeration of programs x random answers: math/rand replaced by a shim whose draws are choice points, inside a compiled binary",
         "every generated rand function of every program within 1 / 2 deviations, under every sequence of random answers within the shared budget: no panic, termination (draw limit / process death), well-formed values by reflection, variation, and the C02 round trip",
         "Int31/Float64 answer from a 3-value alphabet; Intn(n) from all n values when n <= 8 else {0,1,n-1}", "DESIGN.md §4 C15"),
 "C08": ("bounded exhaustive program enumeration (deviation-bounded DFS over the F-tables/F-types program grammar) against a reference Go->SQL mapping computed on go/types",
         "every program within 2 (quick) / 3 (thorough) deviations of the F-tables scaffold and 1 / 2 of F-types is analysed by the real code, its SQL output is parsed and compared column by column, constraint by constraint with an independent restatement of the mapping",
         "the reference mapping is my reading of the documented mapping; programs outside the alphabet are not covered", "DESIGN.md §4 C08"),
 "C10": ("bounded exhaustive program enumeration (F-enum, 4 / 5 deviations) against constants and trailing comments read from go/types and the syntax tree",
         "every constant-declaration style, spelling, value, comment and location combination within the bound is analysed and the Enum nodes compared with an independent walk",
         "alphabet of F-enum (DESIGN §3.3); in-memory package loader (conformance: C17)", "DESIGN.md §4 C10"),
 "C11": ("bounded exhaustive program enumeration (F-union, 3 / 4 deviations) against value method sets computed with types.NewMethodSet",
         "every combination of marker methods, receiver kinds, member kinds, packages and reaches within the bound; members and Implements compared on every reachable node",
         "generic candidates outside the alphabet", "DESIGN.md §4 C11"),
 "C12": ("bounded exhaustive program enumeration (F-types, F-union, F-enum) with a paired walk (go/types type, analysis node) as reference",
         "closure, classification, Type() round trip, link consistency, source order and termination on every program within the bound, incl. self/mutually recursive, alias, generic and named-over-named forms; worker processes make stack overflows observable",
         "time.Time recognised by the text of its underlying struct", "DESIGN.md §4 C12"),
 "C13": ("bounded exhaustive program enumeration (F-routes, 2 / 3 deviations) against the synthesiser's own route table",
         "every handler form, path expression form, contract-call subset (3 slots x 19 forms), return form, layout and prefix filter within the bound; ParseEcho compared field by field",
         "route idioms outside the alphabet (groups, middleware chains) not covered", "DESIGN.md §4 C13"),
 "C16": ("bounded exhaustive program enumeration (F-tables directive and declaration-style sites) against a reference expander working on the syntax tree",
         "every directive x declaration style x table name x column combination within the bound; custom constraints, select keys and custom queries compared with the reference expansion",
         "placeholders of custom queries are of the form Field = $name$", "DESIGN.md §4 C16"),
 "C18": ("bounded exhaustive program enumeration (all in-process families) x analysis + 7 targets, panics classified, worker-process isolation for fatal crashes",
         "no program within the bound makes analysis or a generator die with a Go runtime error or a fatal crash; unsupported forms in every slot position",
         "a panic whose value is not a runtime.Error counts as an explicit diagnostic", "DESIGN.md §4 C18"),
 "C19": ("complete enumeration of declaration lists and of all their arrangements against a reference merge",
         "all sequences up to length 5 (6 thorough) over 3 IDs x 2 contents x 2 priorities and every distinct arrangement of 13..16-element multisets (crossing sort.Slice's insertion-sort threshold)",
         "alphabet of 3 IDs / 2 contents; lists longer than 16 not explored", "DESIGN.md §4 C19"),
}

checks = []
for pid, (tech, text, note, ref) in sorted(CHECKS.items()):
    checks.append({
        "property_id": pid,
        "quick_cmd": f"./check {pid} quick",
        "thorough_cmd": f"./check {pid} thorough",
        "evidence_file": f"/verif/evidence/{pid}.json",
        "replay_cmd_template": "./check replay {path}",
        "engine": "mc",
        "level_claimed": {"category": "model_checking", "text": text, "design_ref": ref},
        "level_note": note,
        "technique": tech,
    })

NA_REASON = "check under construction in this session (DESIGN §10 build order); not claimed yet"
manifest = {
    "version": 1,
    "setup_cmd": "cd /verif && ./setup.sh",
    "hooks": {
        "guard": "verif-overlay",
        "enable": "no in-tree hooks: checks compile instrumented copies of /repo's current files with `go build -overlay` (DESIGN §3.7)",
        "baseline_off_cmd": "/verif/baseline.sh",
        "source_commits": [],
        "add_only": True,
    },
    "engines": [{
        "name": "mc", "path": "/verif/mc", "serves_properties": sorted(CHECKS),
        "kind_free_text": "hand-written deviation-bounded choice-vector explorer in Go (DFS over choice points, iterated bounds, worker processes) running the real gomacro code on every enumerated program / input / order / schedule and comparing with reference models",
    }],
    "checks": checks,
    "not_applicable": [{"property_id": p["id"], "reason": NA_REASON} for p in props if p["id"] not in CHECKS],
    "notes": "see DESIGN.md; known genuine defects left unrepaired are listed in known_findings.json",
}
json.dump(manifest, open('/verif/MANIFEST.json', 'w'), indent=1)
print("claimed:", sorted(CHECKS), "not yet:", [x["property_id"] for x in manifest["not_applicable"]])
