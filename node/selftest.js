'use strict';
// Self test of c14_harness.js / ts2js.js. Run: node /verif/node/selftest.js (exit 0 on success).
// testdata/*.ts were produced by the real typescript.GenerateAxios (raw template output).
const fs = require('fs');
const os = require('os');
const path = require('path');
const assert = require('assert');
const { spawnSync } = require('child_process');
const { splitAxios, transformClass, transformSignature } = require('./ts2js.js');

const HARNESS = path.join(__dirname, 'c14_harness.js');
const data = (n) => fs.readFileSync(path.join(__dirname, 'testdata', n), 'utf8');
const tmp = fs.mkdtempSync(path.join(os.tmpdir(), 'c14-'));
let nRun = 0;

function harness(ts, cases) {
  const jobFile = path.join(tmp, `job${nRun}.json`);
  const outFile = path.join(tmp, `out${nRun++}.json`);
  fs.writeFileSync(jobFile, JSON.stringify({ ts, base_url: 'http://h/api', token: 'tok', cases }));
  const p = spawnSync(process.execPath, [HARNESS, jobFile, outFile], { encoding: 'utf8' });
  const out = p.status === 0 ? JSON.parse(fs.readFileSync(outFile, 'utf8')) : null;
  return { status: p.status, stderr: p.stderr, out, byId: out && Object.fromEntries(out.results.map((r) => [r.id, r])) };
}

const tests = [];
const test = (name, fn) => tests.push([name, fn]);
const HDR = { Authorization: 'Bearer tok' };
const cfg = (params, responseType) => ({ headers: HDR, params: params || '<absent>', responseType: responseType || '<absent>', other_keys: [] });
const strip = (r) => { const { raw_args, ...rest } = r; return rest; };
const item = { A: 1, 'b-name': 'x' };

test('all.ts: 12 generated endpoints', () => {
  const file = { $file: { name: 'f.txt', content: 'abc' } };
  const disp = { 'content-disposition': 'attachment; filename=a%20b.txt' };
  const r = harness(data('all.ts'), [
    { id: 'get', method: 'GetPlain', args: [], response: { data: [item] } },
    { id: 'getq', method: 'GetQuery', args: [{ a: 3, b: true, c: 'é &', 'id-1': 1.5 }], response: { data: { k: item } } },
    { id: 'getq0', method: 'GetQuery', args: [{ a: 0, b: false, c: '' }], response: { data: null } },
    { id: 'post', method: 'PostJSON', args: [item], response: { data: item } },
    { id: 'postmap', method: 'PostMap', args: [null], response: { data: [] } },
    { id: 'postnull', method: 'PostEmpty', args: [], response: { data: 'pong' } },
    { id: 'put', method: 'PutForm', args: [{ a: '1', b: 'two' }, file, [item], { q: 'Q' }], response: { data: item } },
    { id: 'del', method: 'DeleteQuery', args: [{ id: 7 }], response: { data: true } },
    { id: 'blob', method: 'GetBlob', args: [{ name: 'n' }], response: { data: { $binary: 'xyz' }, headers: disp } },
    { id: 'blobnohdr', method: 'GetBlob', args: [{ name: 'n' }], response: { data: { $binary: 'xyz' } } },
    { id: 'noret', method: 'GetNoReturn', args: [], response: { data: 'ignored' } },
    { id: 'noretpost', method: 'PostNoReturn', args: [[item]], response: { data: 'ignored' } },
    { id: 'vals', method: 'PostFormValuesOnly', args: [{ x: 'v' }], response: { data: 4 } },
    { id: 'fileblob', method: 'PostFileBlob', args: [file], response: { data: { $binary: '' }, headers: disp } },
    { id: 'reject', method: 'GetPlain', args: [], response: { reject: 'boom' } },
    { id: 'missing', method: 'Nope', args: [], response: { data: 1 } },
  ]);
  assert.strictEqual(r.status, 0, r.stderr);
  assert.strictEqual(r.out.syntax_ok, true, r.out.syntax_error);
  assert.ok(!/AxiosResponse|protected|abstract |: string/.test(r.out.js.replace(/\/\*\*[^]*?\*\//g, '')), 'TS residue in js');
  const ok = (id, req, returned) => {
    const c = r.byId[id];
    assert.deepStrictEqual({ threw: c.threw, he: c.handle_error_called, sr: c.start_request_calls }, { threw: null, he: null, sr: 1 }, id);
    assert.deepStrictEqual(c.requests.map(strip), [req], id);
    assert.deepStrictEqual(c.returned, returned, id);
  };
  ok('get', { verb: 'get', nargs: 2, url: 'http://h/api/items', body: '<absent>', config: cfg() }, [item]);
  ok('getq', { verb: 'get', nargs: 2, url: 'http://h/api/search', body: '<absent>', config: cfg({ a: '3', b: 'ok', c: 'é &', 'id-1': '1.5' }) }, { k: item });
  ok('getq0', { verb: 'get', nargs: 2, url: 'http://h/api/search', body: '<absent>', config: cfg({ a: '0', b: '', c: '', 'id-1': 'undefined' }) }, null);
  ok('post', { verb: 'post', nargs: 3, url: 'http://h/api/items', body: item, config: cfg() }, item);
  ok('postmap', { verb: 'post', nargs: 3, url: 'http://h/api/map', body: null, config: cfg() }, []);
  ok('postnull', { verb: 'post', nargs: 3, url: 'http://h/api/ping', body: null, config: cfg() }, 'pong');
  ok('put', {
    verb: 'put', nargs: 3, url: 'http://h/api/upload/:id', config: cfg({ q: 'Q' }),
    body: { $formData: [['the-file', { $file: { name: 'f.txt', size: 3 } }], ['a', '1'], ['b', 'two'], ['meta', JSON.stringify([item])]] },
  }, item);
  ok('del', { verb: 'delete', nargs: 2, url: 'http://h/api/items', body: '<absent>', config: cfg({ id: '7' }) }, true);
  ok('blob', { verb: 'get', nargs: 2, url: 'http://h/api/download', body: '<absent>', config: cfg({ name: 'n' }, 'arraybuffer') }, { blob: { $binary: true }, filename: 'a b.txt' });
  ok('noret', { verb: 'get', nargs: 2, url: 'http://h/api/touch', body: '<absent>', config: cfg() }, true);
  ok('noretpost', { verb: 'post', nargs: 3, url: 'http://h/api/touch', body: [item], config: cfg() }, true);
  ok('vals', { verb: 'post', nargs: 3, url: 'http://h/api/vals', body: { $formData: [['x', 'v']] }, config: cfg() }, 4);
  ok('fileblob', { verb: 'post', nargs: 3, url: 'http://h/api/blob', body: { $formData: [['f', { $file: { name: 'f.txt', size: 3 } }]] }, config: cfg(undefined, 'arraybuffer') }, { blob: { $binary: true }, filename: 'a b.txt' });
  // missing content-disposition header: TypeError inside try -> handleError, undefined result
  assert.match(r.byId.blobnohdr.handle_error_called, /indexOf|undefined/);
  assert.strictEqual(r.byId.blobnohdr.returned, '<undefined>');
  assert.strictEqual(r.byId.blobnohdr.threw, null);
  // rejected request: handleError gets the error, method resolves to undefined
  assert.deepStrictEqual([r.byId.reject.handle_error_called, r.byId.reject.returned, r.byId.reject.requests.length], ['boom', '<undefined>', 1]);
  assert.deepStrictEqual([r.byId.missing.threw, r.byId.missing.requests.length, r.byId.missing.start_request_calls], ['no such method: Nope', 0, 0]);
});

test('basic.ts: the endpoints of the repository test TestGenerate1', () => {
  const r = harness(data('basic.ts'), [
    { id: 'm1', method: 'M1', args: [[true, false, true, false, true]], response: { data: [1, 2] } },
    { id: 'm2', method: 'M2', args: [{ arg1: 's', arg2: 2, arg2bis: 0.5, arg3: false }], response: { data: null } },
  ]);
  assert.strictEqual(r.status, 0, r.stderr);
  assert.deepStrictEqual(strip(r.byId.m1.requests[0]), { verb: 'post', nargs: 3, url: 'http://h/api/samlskm/', body: [true, false, true, false, true], config: cfg() });
  assert.deepStrictEqual(r.byId.m1.returned, [1, 2]);
  assert.deepStrictEqual(strip(r.byId.m2.requests[0]), { verb: 'get', nargs: 2, url: 'http://h/api/samlskm/:param1', body: '<absent>', config: cfg({ arg1: 's', arg2: '2', arg2bis: '0.5', arg3: '' }) });
  assert.strictEqual(r.byId.m2.returned, true);
});

test('empty.ts: class without endpoints', () => {
  const r = harness(data('empty.ts'), [{ id: 'x', method: 'getHeaders', args: [], response: {} }]);
  assert.strictEqual(r.status, 0, r.stderr);
  assert.deepStrictEqual(r.byId.x.returned, HDR);
});

test('faithful recording: wrong arity / unknown verb are reported, not repaired', () => {
  const ts = data('all.ts')
    .replace('await Axios.get(fullUrl, { headers: this.getHeaders() });\n\t\t\treturn rep.data;', 'await Axios.get(fullUrl, null, { headers: this.getHeaders() });\n\t\t\treturn rep.data;')
    .replace('await Axios.post(fullUrl, null, {', 'await Axios.patch(fullUrl, {')
    .replace('Axios.delete(fullUrl, {', 'Axios.frobnicate(fullUrl, {');
  const r = harness(ts, [
    { id: 'a', method: 'GetPlain', args: [], response: { data: 1 } },
    { id: 'b', method: 'PostEmpty', args: [], response: { data: 1 } },
    { id: 'c', method: 'DeleteQuery', args: [{ id: 1 }], response: { data: 1 } },
  ]);
  assert.strictEqual(r.status, 0, r.stderr);
  assert.deepStrictEqual(strip(r.byId.a.requests[0]), { verb: 'get', nargs: 3, url: 'http://h/api/items', body: '<absent>', config: null });
  assert.deepStrictEqual(r.byId.a.requests[0].raw_args[2], { headers: HDR });
  assert.deepStrictEqual(strip(r.byId.b.requests[0]), { verb: 'patch', nargs: 2, url: 'http://h/api/ping', body: { headers: HDR }, config: '<absent>' });
  assert.deepStrictEqual(strip(r.byId.c.requests[0]), { verb: 'frobnicate', nargs: 2, url: 'http://h/api/items', body: '<absent>', config: cfg({ id: '1' }) });
});

test('syntax error in generated code: exit 0, syntax_ok=false', () => {
  const r = harness(data('all.ts').replace('Axios.delete(', 'Axios.('), [{ id: 'a', method: 'GetPlain', args: [], response: {} }]);
  assert.strictEqual(r.status, 0, r.stderr);
  assert.strictEqual(r.out.syntax_ok, false);
  assert.match(r.out.syntax_error, /Unexpected token/);
  assert.strictEqual(r.byId.a.threw, 'generated class has a syntax error');
});

test('signature scanner', () => {
  const sig = (s) => transformSignature(s, 't').trim();
  assert.strictEqual(sig('async A() {'), 'async A() {');
  assert.strictEqual(sig('\tasync A(params: {"id-1": Int, "b": boolean}) {'), 'async A(params) {');
  assert.strictEqual(sig('async A(formParams: {"a": string, "b": string}, file: File, formValue: ( Item[] | null), params: {"q": string}) {'), 'async A(formParams, file, formValue, params) {');
  assert.strictEqual(sig('async A(params: (Record<string,(Record<Int,Item> | null)> | null)) {'), 'async A(params) {');
  assert.strictEqual(sig('async A(params: {"a,)}\\"": string, "(": ( Ar5_boolean[] | null)}) {'), 'async A(params) {');
  assert.strictEqual(sig('async Été_1(params: Date_) {'), 'async Été_1(params) {');
  for (const bad of ['async A(params) {', 'async A(p?: T) {', 'async A(p: ) {', 'async A(p: {"a": T) {', 'async A(p: T', 'async A(p: T) ', 'async A(p: T): Promise<T> {', 'async A(p: T = 1, ) {', 'async (p: T) {', 'async A<T>(p: T) {', 'async A(p: "x) {']) {
    assert.throws(() => transformSignature(bad, 't'), /TransformError|method signature|type/, bad);
  }
});

test('transformer refuses what it does not know (exit 2 with the offending line)', () => {
  const ts = data('all.ts');
  const variants = {
    'unrecognised line': ts.replace('return rep.data;', 'return rep.data as Item;'),
    'response assignment': ts.replace('const rep:AxiosResponse<Item> =  await Axios.post(', 'const rep:AxiosResponse<Item> = (await Axios.post as any)('),
    'unbalanced': ts.replace('AxiosResponse<( Item[] | null)>', 'AxiosResponse<( Item[] | null>'),
    'unrecognised line ': ts.replace('this.startRequest();', 'let x: number = 1;'),
    'exactly one `ctor`': ts.replace('constructor(protected baseUrl: string, protected authToken: string) {}', ''),
    'unrecognised line  ': ts.replace('abstract protected startRequest(): void', 'abstract protected startRequest(): Promise<void>'),
    'header is not': ts.replace('import type {', 'import x from "y";\nimport type {'),
    'header is not ': ts.replace('import type { AxiosResponse } from "axios";', 'import { AxiosResponse } from "axios";'),
    'not found': ts.replace('import Axios from "axios";', ''),
    'class marker': ts.replace('/** AbstractAPI provides', '/** Abstract API provides'),
  };
  for (const [needle, v] of Object.entries(variants)) {
    assert.notStrictEqual(v, ts, 'variant did not change the text: ' + needle);
    const r = harness(v, []);
    assert.strictEqual(r.status, 2, needle + ': expected exit 2');
    assert.ok(r.stderr.includes(needle.trim()), needle + ': stderr was ' + r.stderr);
  }
  assert.strictEqual(spawnSync(process.execPath, [HARNESS], { encoding: 'utf8' }).status, 2);
});

test('splitAxios', () => {
  const s = splitAxios(data('all.ts'));
  assert.ok(s.header.trimEnd().endsWith('import Axios from "axios";'));
  assert.ok(s.types.includes('export interface Item') && !s.types.includes('AbstractAPI'));
  assert.ok(s.klass.trimStart().startsWith('/** AbstractAPI provides') && s.klass.trimEnd().endsWith('}'));
  assert.strictEqual([s.header, s.types, s.klass].join('\n'), data('all.ts'));
  assert.strictEqual(splitAxios(data('empty.ts')).types.trim(), '');
  assert.doesNotThrow(() => new (require('vm').Script)(transformClass(s.klass)));
});

let failed = 0;
for (const [name, fn] of tests) {
  try { fn(); console.log('ok   - ' + name); } catch (e) { failed++; console.log('FAIL - ' + name + '\n' + (e && e.stack || e)); }
}
fs.rmSync(tmp, { recursive: true, force: true });
console.log(failed ? failed + ' test(s) failed' : 'all ' + tests.length + ' tests passed');
process.exit(failed ? 1 : 0);
