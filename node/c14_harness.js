'use strict';
// C14 harness: executes the methods of the generated AbstractAPI class against a recording
// stand-in for axios.   Usage: node c14_harness.js <job.json> <out.json>
// Exit 0: harness worked (cases may have failed); exit 2: harness / transform error.
const fs = require('fs');
const vm = require('vm');
const util = require('util');
const { splitAxios, transformClass } = require('./ts2js.js');

const ABSENT = '<absent>';
const UNDEF = '<undefined>';
const BODY_VERBS = new Set(['post', 'put', 'patch', 'postForm', 'putForm', 'patchForm']); // (url, data, config)

function isBinary(v) {
  return v instanceof Blob || Buffer.isBuffer(v) || util.types.isAnyArrayBuffer(v) || ArrayBuffer.isView(v);
}

// toJSON converts a (possibly cross-realm) value to plain JSON with the documented markers.
function toJSON(v, depth = 0) {
  if (depth > 50) return '<too deep>';
  if (v === undefined) return UNDEF;
  if (v === null) return null;
  if (typeof v === 'function') return '<function>';
  if (typeof v === 'bigint' || typeof v === 'symbol') return String(v);
  if (typeof v !== 'object') return v;
  if (v instanceof File) return { $file: { name: v.name, size: v.size } };
  if (isBinary(v)) return { $binary: true };
  if (v instanceof FormData) {
    const items = [];
    for (const [k, x] of v.entries()) items.push([k, typeof x === 'string' ? x : toJSON(x, depth + 1)]);
    return { $formData: items };
  }
  if (Array.isArray(v)) return Array.from(v, (x) => toJSON(x, depth + 1));
  const out = {};
  for (const k of Object.keys(v)) out[k] = toJSON(v[k], depth + 1);
  return out;
}

function describeConfig(cfg, passed) {
  if (!passed) return ABSENT;
  if (cfg === null || typeof cfg !== 'object' || Array.isArray(cfg) || cfg instanceof FormData || isBinary(cfg)) return toJSON(cfg);
  const known = ['headers', 'params', 'responseType'];
  const out = {};
  for (const k of known) out[k] = k in cfg ? toJSON(cfg[k]) : ABSENT;
  out.other_keys = Object.keys(cfg).filter((k) => !known.includes(k));
  return out;
}

function reviveResponseData(d) {
  if (d && typeof d === 'object' && !Array.isArray(d) && typeof d.$binary === 'string' && Object.keys(d).length === 1) {
    const b = Buffer.from(d.$binary, 'utf8');
    return b.buffer.slice(b.byteOffset, b.byteOffset + b.byteLength); // ArrayBuffer, as axios 'arraybuffer' gives
  }
  return d;
}

// makeAxios returns the recording stand-in; every property is a request method.
function makeAxios(requests, response) {
  return new Proxy({}, {
    get(_t, verb) {
      if (typeof verb !== 'string' || verb === 'then') return undefined;
      return (...args) => {
        const hasBody = BODY_VERBS.has(verb);
        const cfgIdx = hasBody ? 2 : 1;
        requests.push({
          verb,
          nargs: args.length,
          url: toJSON(args[0]),
          body: hasBody ? (args.length > 1 ? toJSON(args[1]) : UNDEF) : ABSENT,
          config: describeConfig(args[cfgIdx], args.length > cfgIdx),
          raw_args: args.map((a) => toJSON(a)),
        });
        if (response.reject !== undefined) return Promise.reject(new Error(String(response.reject)));
        return Promise.resolve({ data: reviveResponseData(response.data), headers: response.headers || {} });
      };
    },
  });
}

function reviveArg(a) {
  if (a && typeof a === 'object' && !Array.isArray(a) && a.$file && typeof a.$file === 'object' && Object.keys(a).length === 1) {
    return new File([String(a.$file.content ?? '')], String(a.$file.name));
  }
  return a;
}

const errMsg = (e) => String(e !== null && typeof e === 'object' && 'message' in e ? e.message : e);

async function runCase(js, job, c) {
  const res = { id: c.id, requests: [], returned: UNDEF, threw: null, handle_error_called: null, start_request_calls: 0 };
  try {
    const sandbox = { Axios: makeAxios(res.requests, c.response || {}), FormData, File, decodeURIComponent, JSON, String };
    const Klass = vm.runInNewContext(js + '\n;AbstractAPI;', sandbox, { filename: 'generated.js', timeout: 5000 });
    class API extends Klass {
      handleError(e) { res.handle_error_called = errMsg(e); }
      startRequest() { res.start_request_calls++; }
    }
    const obj = new API(job.base_url, job.token);
    if (typeof obj[c.method] !== 'function') throw new Error('no such method: ' + c.method);
    res.returned = toJSON(await obj[c.method](...(c.args || []).map(reviveArg)));
  } catch (e) {
    res.threw = errMsg(e);
  }
  return res;
}

async function main(argv) {
  if (argv.length !== 2) throw new Error('usage: node c14_harness.js <job.json> <out.json>');
  const job = JSON.parse(fs.readFileSync(argv[0], 'utf8'));
  if (typeof job.ts !== 'string' || !Array.isArray(job.cases)) throw new Error('job.json: need string "ts" and array "cases"');
  const js = transformClass(splitAxios(job.ts).klass); // throws TransformError -> exit 2
  const out = { js, syntax_ok: true, syntax_error: '', results: [] };
  try {
    new vm.Script(js, { filename: 'generated.js' });
  } catch (e) {
    out.syntax_ok = false;
    out.syntax_error = errMsg(e) + (e && e.stack ? ' @ ' + String(e.stack).split('\n').slice(0, 3).join(' | ') : '');
  }
  for (const c of job.cases) {
    if (out.syntax_ok) out.results.push(await runCase(js, job, c));
    else out.results.push({ id: c.id, requests: [], returned: UNDEF, threw: 'generated class has a syntax error', handle_error_called: null, start_request_calls: 0 });
  }
  fs.writeFileSync(argv[1], JSON.stringify(out, null, 1));
}

main(process.argv.slice(2)).then(() => process.exit(0), (e) => {
  process.stderr.write('c14_harness: ' + (e && e.name ? e.name + ': ' : '') + errMsg(e) + '\n');
  process.exit(2);
});
