'use strict';
// TS -> JS transformer for exactly the subset emitted by
// /repo/generator/typescript/axios_api.go (raw template output, not prettier-formatted).
// Anything not on the whitelist below makes transformClass throw a TransformError.

const IMPORTS = ['import type { AxiosResponse } from "axios";', 'import Axios from "axios";'];
const KLASS_MARK = '/** AbstractAPI provides';
const IDENT = /^[\p{L}_$][\p{L}\p{N}_$]*/u;
const STR = '"(?:[^"\\\\]|\\\\.)*"'; // a Go %q literal (read as a JS double-quoted literal)

class TransformError extends Error {}

function splitAxios(fullText) {
  const lines = String(fullText).split('\n');
  const iImp = lines.findIndex((l) => l.trim() === IMPORTS[1]);
  if (iImp < 0) throw new TransformError('header: line `' + IMPORTS[1] + '` not found');
  let iKlass = -1;
  lines.forEach((l, i) => { if (l.includes(KLASS_MARK)) iKlass = i; });
  if (iKlass < 0) throw new TransformError('class marker `' + KLASS_MARK + '` not found');
  if (iKlass <= iImp) throw new TransformError('class marker found before the import lines');
  const head = lines.slice(0, iImp + 1).map((l) => l.trim()).filter((l) => l !== '');
  if (head.length !== 3 || !/^\/\/ ?\S/.test(head[0]) || head[1] !== IMPORTS[0] || head[2] !== IMPORTS[1]) {
    throw new TransformError('header is not {comment, import type, import Axios}: ' + JSON.stringify(head));
  }
  return {
    header: lines.slice(0, iImp + 1).join('\n'),
    types: lines.slice(iImp + 1, iKlass).join('\n'),
    klass: lines.slice(iKlass).join('\n'),
  };
}

// scanType scans a type expression of s starting at i and returns the index of the first
// top-level (bracket depth 0, outside quotes) character contained in `stops`.
const OPEN = { '(': ')', '{': '}', '[': ']', '<': '>' };
const CLOSE = new Set(Object.values(OPEN));
function scanType(s, i, stops, where) {
  const stack = [];
  for (; i < s.length; i++) {
    const c = s[i];
    if (c === '"' || c === "'" || c === '`') {
      let j = i + 1;
      while (j < s.length && s[j] !== c) j += s[j] === '\\' ? 2 : 1;
      if (j >= s.length) throw new TransformError('unterminated quote in type (' + where + '): ' + JSON.stringify(s));
      i = j;
    } else if (stack.length === 0 && stops.includes(c)) {
      return i;
    } else if (OPEN[c]) {
      stack.push(OPEN[c]);
    } else if (CLOSE.has(c)) {
      if (stack.pop() !== c) throw new TransformError('unbalanced `' + c + '` in type (' + where + '): ' + JSON.stringify(s));
    }
  }
  throw new TransformError('unterminated type expression (' + where + '): ' + JSON.stringify(s));
}

// `async Name(p1: T1, p2: T2) {` -> `async Name(p1, p2) {`
function transformSignature(line, where) {
  const bad = (msg) => { throw new TransformError(msg + ' (' + where + '): ' + JSON.stringify(line)); };
  const m = /^(\s*)async\s+/.exec(line);
  let rest = line.slice(m[0].length);
  const name = IDENT.exec(rest);
  if (!name || rest[name[0].length] !== '(') bad('method signature: expected `Name(`');
  let i = name[0].length + 1;
  const params = [];
  for (;;) {
    while (/\s/.test(rest[i] || '')) i++;
    if (rest[i] === ')' && params.length === 0) break;
    const id = IDENT.exec(rest.slice(i));
    if (!id) bad('method signature: expected a parameter name at column ' + i);
    i += id[0].length;
    while (/\s/.test(rest[i] || '')) i++;
    if (rest[i] !== ':') bad('method signature: expected `:` after parameter `' + id[0] + '`');
    const end = scanType(rest, i + 1, ',)', where);
    if (rest.slice(i + 1, end).trim() === '') bad('method signature: empty type for parameter `' + id[0] + '`');
    params.push(id[0]);
    i = end;
    if (rest[i] === ')') break;
    i++; // skip ','
  }
  if (!/^\s*\{\s*$/.test(rest.slice(i + 1))) bad('method signature: expected ` {` after the parameter list');
  return m[1] + 'async ' + name[0] + '(' + params.join(', ') + ') {';
}

const CALL = /^await Axios\.[^\s(]*\(fullUrl, .*\);$/;

// `const rep:AxiosResponse<T> = await ...` -> `const rep = await ...`
function transformRep(line, where) {
  const m = /^(\s*)const rep\s*:\s*AxiosResponse</.exec(line);
  const end = scanType(line, m[0].length, '>', where);
  const tail = /^\s*=\s*(await .*)$/.exec(line.slice(end + 1));
  if (!tail || !CALL.test(tail[1].trim())) {
    throw new TransformError('response assignment: expected `= await Axios.verb(fullUrl, ...);` (' + where + '): ' + JSON.stringify(line));
  }
  return m[1] + 'const rep = ' + tail[1].trim();
}

// Lines that are already plain JavaScript (matched on the trimmed line).
const PLAIN = [
  /^$/,
  /^getHeaders\(\) \{$/,
  /^return \{ Authorization: "Bearer " \+ this\.authToken \}$/,
  new RegExp('^const fullUrl = this\\.baseUrl \\+ ' + STR + ';$'),
  /^this\.startRequest\(\);$/,
  /^try \{$/,
  /^\} catch \(error\) \{$/,
  /^this\.handleError\(error\);$/,
  /^\}$/,
  /^const formData = new FormData\(\)$/,
  new RegExp('^formData\\.append\\(' + STR + ', (?:file, file\\.name|formParams\\[' + STR + '\\]|JSON\\.stringify\\(formValue\\))\\)$'),
  CALL,
  /^return rep\.data;$/,
  /^return true;$/,
  /^const header = rep\.headers\["content-disposition"\]$/,
  /^const startIndex = header\.indexOf\("filename="\) \+ 9;$/,
  /^const endIndex = header\.length;$/,
  /^const filename = decodeURIComponent\(header\.substring\(startIndex, endIndex\)\);$/,
  /^return \{ blob: rep\.data, filename: filename\};$/,
];

function transformClass(tsClassText) {
  const out = [];
  const seen = { klass: 0, ctor: 0, handleError: 0, startRequest: 0 };
  let inComment = false;
  String(tsClassText).split('\n').forEach((raw, idx) => {
    const line = raw.replace(/\r$/, '');
    const t = line.trim();
    const where = 'class line ' + (idx + 1);
    if (inComment) {
      if (t.includes('*/')) {
        if (!t.endsWith('*/')) throw new TransformError('code after end of comment (' + where + '): ' + JSON.stringify(line));
        inComment = false;
      }
      out.push(line);
    } else if (t.startsWith('/**')) {
      const close = t.indexOf('*/', 3);
      if (close >= 0 && close !== t.length - 2) throw new TransformError('code after end of comment (' + where + '): ' + JSON.stringify(line));
      inComment = close < 0;
      out.push(line);
    } else if (t === 'export abstract class AbstractAPI {') {
      seen.klass++;
      out.push('class AbstractAPI {');
    } else if (t === 'constructor(protected baseUrl: string, protected authToken: string) {}') {
      seen.ctor++;
      out.push('  constructor(baseUrl, authToken) { this.baseUrl = baseUrl; this.authToken = authToken; }');
    } else if (t === 'abstract protected handleError(error: any): void') {
      seen.handleError++;
    } else if (t === 'abstract protected startRequest(): void') {
      seen.startRequest++;
    } else if (/^async\s/.test(t)) {
      out.push(transformSignature(line, where));
    } else if (/^const rep\s*:/.test(t)) {
      out.push(transformRep(line, where));
    } else if (PLAIN.some((re) => re.test(t))) {
      out.push(line);
    } else {
      throw new TransformError('unrecognised line (' + where + '): ' + JSON.stringify(line));
    }
  });
  if (inComment) throw new TransformError('unterminated comment at end of class text');
  for (const k of Object.keys(seen)) {
    if (seen[k] !== 1) throw new TransformError('expected exactly one `' + k + '` declaration line, found ' + seen[k]);
  }
  return out.join('\n');
}

module.exports = { splitAxios, transformClass, transformSignature, TransformError };
