#!/usr/bin/env python3
"""Stores the confirmed seeded changes under /verif/seeded/<id>/ (patch.diff, demo/, meta.json) and
records which check reports each of them (run on /repo: patch applied, quick check, patch reverted)."""
import json, os, shutil, subprocess, sys, glob
INITIAL_MISS = {
 "C03": "missed at first: no enum-typed omitempty field in the alphabet within the quick bound; the F-types scaffold now carries `Opt Color `json:\"opt,omitempty\"`` and `Tags []string `json:\"tags,omitempty\"``",
 "C04": "missed at first: F-tables had a single union; a jsonb column type holding two unions that share a member (Scene{Main Shape; Extra Drawables}) was added",
 "C05": "missed at first: guards were always declared after the id; the alternative guard=literal-before-id was added",
 "C06": "missed at first: F-types had two packages; a third package importing the second (sub2.Delivery / sub2.Route, diamond) was added",
 "C07": "missed at first: no two imported packages shared a package name; F-enum T2=present-in-same-named-package (…/sub and …/twin/sub) was added",
 "C09": "missed at first: the tagged embedded struct used the name \"base\"; embedded=tagged-same-name (`Base `json:\"Base\"``) was added",
 "C12": "alias chains (type A = B; type B = C) were added to the slot alphabet before this change was evaluated",
 "C13": "missed at first: every constant had one binding; shadowed-const (a local constant shadowing a package constant, two locals with one name) was added to F-routes",
 "C16": "missed at first: no enum value was spelled like a table struct; Mood.Named = \"User\" and two directives using it were added, and the reference expander now renames table names before expanding placeholders",
 "C18": "missed at first: no one-letter named int64 type; slot types N (int64), L (string), ID (int64) were added",
}
ids = sys.argv[1:] or ["C%02d" % i for i in range(1, 21)]
for pid in ids:
    src = "/tmp/seed/out/%s" % pid
    if not os.path.exists(src + "/patch.diff"):
        print(pid, "no patch"); continue
    conf = json.load(open(src + "/confirm.json")) if os.path.exists(src + "/confirm.json") else {}
    if not conf.get("confirmed"):
        print(pid, "NOT confirmed", conf); continue
    dst = "/verif/seeded/%s" % pid
    shutil.rmtree(dst, ignore_errors=True)
    os.makedirs(dst)
    shutil.copy(src + "/patch.diff", dst + "/patch.diff")
    if os.path.isdir(src + "/demo"):
        shutil.copytree(src + "/demo", dst + "/demo", ignore=shutil.ignore_patterns("work", "*.bin", "clean", ".git"))
    # which check reports it
    evb = subprocess.check_output(["mktemp", "-d", "/tmp/evidence-backup.XXXXXX"], text=True).strip()
    subprocess.call("cp -a /verif/evidence/. %s/" % evb, shell=True)
    subprocess.check_call(["git", "-C", "/repo", "apply", src + "/patch.diff"])
    try:
        out = subprocess.run(["/verif/check", pid, "quick"], capture_output=True, text=True).stdout
    finally:
        subprocess.check_call(["git", "-C", "/repo", "checkout", "--", "."])
        subprocess.call("cp -a %s/. /verif/evidence/; rm -rf %s" % (evb, evb), shell=True)
    reported = []
    for f in sorted(glob.glob("/verif/replays/%s/*.json" % pid)):
        r = json.load(open(f))
        reported.append({"clause": r["clause"], "signature": r["sig"][:160], "features": r.get("features")})
    summary = [l for l in out.splitlines() if l.startswith(pid + " tier=")]
    meta = json.load(open(src + "/meta.json"))
    meta.update({
        "origin": "written by a fresh sub-agent that was given only the text of the property and a scratch worktree of the repository",
        "confirmation": {"what_was_run": "seedconfirm.sh: the demonstration with and without the change in the author's worktree; go build + the repository's 36 baseline tests on a scratch copy of /repo with the change applied", **conf},
        "detected_by": pid if reported else None,
        "reported_violations": reported[:6],
        "check_summary_with_change": summary[-1] if summary else "",
        "strengthening": INITIAL_MISS.get(pid, "reported by the check as it stood when the change was written"),
    })
    json.dump(meta, open(dst + "/meta.json", "w"), indent=1)
    print(pid, "stored; detected" if reported else "stored; NOT detected", len(reported))
